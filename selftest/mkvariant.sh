#!/bin/bash
# usage: mkvariant.sh <patch> -> prints path of a scratch copy of /repo (package + docs only) with the patch applied
set -e
d=$(mktemp -d /tmp/verif-variant.XXXXXX)
rsync -a --exclude .git --exclude tests --exclude '*.egg-info' --exclude __pycache__ /repo/ "$d/"
if [ -n "$1" ]; then (cd "$d" && patch -p1 -s < "$1"); fi
echo "$d"
