#!/usr/bin/env python3
"""Whole-tree benign transforms for the self-test (developer tool).
usage: transform.py <tree> unparse|rename|invert
"""
import ast, os, sys, symtable


class Rename(ast.NodeTransformer):
    """alpha-rename the local variables (not parameters, not globals/closures) of every function."""

    def __init__(self):
        self.stack = []

    def visit_FunctionDef(self, node):
        params = {a.arg for a in node.args.args + node.args.kwonlyargs + node.args.posonlyargs}
        if node.args.vararg:
            params.add(node.args.vararg.arg)
        if node.args.kwarg:
            params.add(node.args.kwarg.arg)
        assigned = set()
        nested_defs = set()
        for n in ast.walk(node):
            if n is not node and isinstance(n, (ast.FunctionDef, ast.AsyncFunctionDef, ast.Lambda)):
                nested_defs.add(getattr(n, "name", None))
        # only rename in functions without nested scopes (closures capture names)
        has_nested = any(isinstance(n, (ast.FunctionDef, ast.AsyncFunctionDef, ast.Lambda, ast.ListComp, ast.GeneratorExp, ast.DictComp, ast.SetComp)) for n in ast.walk(node) if n is not node)
        for n in ast.walk(node):
            if isinstance(n, ast.Name) and isinstance(n.ctx, ast.Store):
                assigned.add(n.id)
            if isinstance(n, (ast.Global, ast.Nonlocal)):
                params |= set(n.names)
        local = assigned - params if not has_nested else set()
        self.stack.append(local)
        self.generic_visit(node)
        self.stack.pop()
        return node

    visit_AsyncFunctionDef = visit_FunctionDef

    def visit_Name(self, node):
        if self.stack and node.id in self.stack[-1]:
            node.id = node.id + "_rn"
        return node

    def visit_ExceptHandler(self, node):
        self.generic_visit(node)
        return node


class Invert(ast.NodeTransformer):
    """`if not c: return X` followed by more statements -> `if c: <rest> else: return X` is not generally
    safe to generate; instead invert plain if/else blocks: `if c: A else: B` -> `if not c: B else: A`."""

    def visit_If(self, node):
        self.generic_visit(node)
        if node.orelse and not (len(node.orelse) == 1 and isinstance(node.orelse[0], ast.If)):
            node.test, node.body, node.orelse = ast.UnaryOp(op=ast.Not(), operand=node.test), node.orelse, node.body
        return node


def main():
    root, mode = sys.argv[1], sys.argv[2]
    for dp, _, fs in os.walk(os.path.join(root, "mysensors")):
        for f in fs:
            if not f.endswith(".py"):
                continue
            p = os.path.join(dp, f)
            tree = ast.parse(open(p).read())
            if mode == "rename":
                tree = Rename().visit(tree)
            elif mode == "invert":
                tree = Invert().visit(tree)
            ast.fix_missing_locations(tree)
            open(p, "w").write(ast.unparse(tree) + "\n")


if __name__ == "__main__":
    main()
