"""In-tree AST mutants and benign transforms (filled in per rule)."""
from __future__ import annotations


def cases():
    return []


def apply(repo, spec):
    raise NotImplementedError(spec)
