"""In-tree mutants and benign twins for the sensitivity run.

Each mutant is one textual replacement in one file of a scratch copy of the tree under
analysis (never in /repo). A mutant whose `old` text is not present in the current tree is
skipped (reported as not applicable), so an edited tree does not break the self-test.
`expect` is a substring of the violation key the rule must report; `silent` marks a benign
twin on which the rule must stay quiet.
"""
from __future__ import annotations

import os
from typing import List

M = "mysensors/"


def _m(name, prop, file, old, new, expect="", silent=False, count=1):
    c = {"name": name, "property": prop, "mutant": {"file": M + file, "old": old, "new": new, "count": count}}
    if silent:
        c["silent"] = True
    else:
        c["expect"] = expect
    return c


MUTANTS: List[dict] = [
    # ------------------------------------------------------------------ C01
    _m("c01-drop-is_sensor-guard-battery", "C01", "handler.py",
       "    if not msg.gateway.is_sensor(msg.node_id):\n        return None\n    msg.gateway.sensors[msg.node_id].battery_level = msg.payload",
       "    msg.gateway.sensors[msg.node_id].battery_level = msg.payload", "KeyError"),
    _m("c01-get-to-subscript-flush", "C01", "handler.py", "sensor.new_state.get(child.id)", "sensor.new_state[child.id]", "KeyError"),
    _m("c01-narrow-except-logic-decode", "C01", "__init__.py", "        except ValueError as exc:\n            _LOGGER.warning(\"Not a valid message", "        except TypeError as exc:\n            _LOGGER.warning(\"Not a valid message", "ValueError"),
    _m("c01-handler-before-validate", "C01", "__init__.py",
       "        msg.gateway = self\n        message_type", "        self.alert(msg)\n        msg.gateway = self\n        message_type", "", silent=True),
    _m("c01-effect-before-validate", "C01", "__init__.py",
       "        try:\n            msg.validate(self.protocol_version)", "        self.alert(msg)\n        try:\n            msg.validate(self.protocol_version)", "C01-R3"),
    _m("c01-validate-wrong-version", "C01", "__init__.py", "msg.validate(self.protocol_version)\n        except", "msg.validate(\"2.2\")\n        except", "C01-R3"),
    _m("c01-internal-none-guard", "C01", "handler.py", "    handler = internal.get_handler(msg.gateway.handlers)\n    if handler is None:\n        return None\n    return handler(msg)", "    handler = internal.get_handler(msg.gateway.handlers)\n    return handler(msg)", "TypeError"),
    _m("c01-callback-unwrapped", "C01", "__init__.py", "            try:\n                self.event_callback(msg)\n            except Exception as exception:  # pylint: disable=broad-except\n                _LOGGER.exception(exception)", "            self.event_callback(msg)", "Exception"),
    _m("c01-mqtt-pub-narrow-except", "C01", "gateway_mqtt.py", "            self._pub_callback(topic, payload, qos, self._retain)\n        except Exception as exception:", "            self._pub_callback(topic, payload, qos, self._retain)\n        except OSError as exception:", "Exception"),
    _m("c01-ota-popleft-unguarded", "C01", "handler.py", "    while sensor.queue:\n        job = sensor.queue.popleft()", "    while True:\n        job = sensor.queue.popleft()", "IndexError"),
    _m("c01-stream-unknown-node", "C01", "handler.py", "    if not msg.gateway.is_sensor(msg.node_id):\n        return None\n    stream = ", "    stream = ", "", silent=True),
    _m("c01-benign-rename-local", "C01", "handler.py", "    sensor = msg.gateway.sensors[msg.node_id]\n\n    sensor.update_child_value(", "    node = msg.gateway.sensors[msg.node_id]\n    sensor = node\n\n    sensor.update_child_value(", "", silent=True),
    # ------------------------------------------------------------------ C02
    _m("c02-decode-payload-first", "C02", "message.py", "self.payload = list_data.pop()", "self.payload = list_data.pop(0)", "decode: payload"),
    _m("c02-encode-swapped-fields", "C02", "message.py", "                            int(self.ack),\n                            int(self.sub_type),", "                            int(self.sub_type),\n                            int(self.ack),", "six fields in frame order"),
    _m("c02-encode-no-newline", "C02", "message.py", "                + \"\\n\"\n", "                + \"\"\n", "trailing newline"),
    _m("c02-decode-other-delimiter", "C02", "message.py", "def decode(self, data, delimiter=\";\"):", "def decode(self, data, delimiter=\",\"):", "same delimiter"),
    _m("c02-encode-failure-returns-empty", "C02", "message.py", "            _LOGGER.error(\"Error encoding message to gateway\")\n            return None", "            _LOGGER.error(\"Error encoding message to gateway\")\n            return \"\"", "returns None"),
    _m("c02-benign-tuple-literal", "C02", "message.py",
       "                        for f in [\n                            int(self.node_id),\n                            int(self.child_id),\n                            int(self.type),\n                            int(self.ack),\n                            int(self.sub_type),\n                            self.payload,\n                        ]",
       "                        for f in (\n                            int(self.node_id),\n                            int(self.child_id),\n                            int(self.type),\n                            int(self.ack),\n                            int(self.sub_type),\n                            self.payload,\n                        )", "", silent=True),
    # ------------------------------------------------------------------ C03
    _m("c03-percent-max-99", "C03", "validation.py", "vol.Range(min=0, max=100)", "vol.Range(min=0, max=99)", "C03-R3"),
    _m("c03-node-id-max-254", "C03", "message.py", "                max=BROADCAST_ID,\n                msg=f\"Not valid node_id", "                max=BROADCAST_ID - 1,\n                msg=f\"Not valid node_id", "C03-R4"),
    _m("c03-child-255-any-type", "C03", "message.py", "        if self.child_id == SYSTEM_CHILD_ID:\n            valid_types", "        if self.child_id == SYSTEM_CHILD_ID and False:\n            valid_types", "C03-R4"),
    _m("c03-stream-child-not-forced", "C03", "message.py", "if self.type in (const.MessageType.internal, const.MessageType.stream):", "if self.type in (const.MessageType.internal,):", "C03-R4"),
    _m("c03-ack-allows-2", "C03", "message.py", "vol.In([0, 1], msg=f\"Not valid ack flag", "vol.In([0, 1, 2], msg=f\"Not valid ack flag", "C03-R4"),
    _m("c03-rgb-length-lt", "C03", "const_15.py", "    if len(value) != 6:", "    if len(value) < 6:", "C03-R3b"),
    _m("c03-drop-setreq-row", "C03", "const_15.py", "    SetReq.V_HVAC_SPEED: vol.In(", "    SetReq.V_HVAC_FLOW_MODE: vol.In(", "C03-R"),
    _m("c03-id-response-zero", "C03", "const_14.py", "vol.Coerce(int), vol.Range(min=1, max=MAX_NODE_ID), vol.Coerce(str)", "vol.Coerce(int), vol.Range(min=0, max=MAX_NODE_ID), vol.Coerce(str)", "C03-R3"),
    _m("c03-renumber-member", "C03", "const_22.py", "I_POST_SLEEP_NOTIFICATION = 33", "I_POST_SLEEP_NOTIFICATION = 34", "C03-R"),
    _m("c03-payload-lookup-by-type-only", "C03", "message.py", "const.VALID_PAYLOADS.get(self.type, {}).get(self.sub_type, \"\")", "const.VALID_PAYLOADS.get(self.type, {}).get(self.sub_type, str)", "C03-R4"),
    _m("c03-benign-in-tuple", "C03", "message.py", "vol.In([0, 1], msg=f\"Not valid ack flag", "vol.In((0, 1), msg=f\"Not valid ack flag", "", silent=True),
    _m("c03-benign-msg-text", "C03", "validation.py", "percent_int = vol.All(vol.Coerce(int), vol.Range(min=0, max=100))", "percent_int = vol.All(vol.Coerce(int), vol.Range(min=0, max=100, msg=\"percent\"))", "", silent=True),
    # ------------------------------------------------------------------ C04 / C14
    _m("c14-drop-alert-battery", "C14", "handler.py", "    msg.gateway.sensors[msg.node_id].battery_level = msg.payload\n    msg.gateway.alert(msg)\n", "    msg.gateway.sensors[msg.node_id].battery_level = msg.payload\n", "handle_battery_level"),
    _m("c14-drop-alert-child-presentation", "C14", "handler.py", "    if child_id is None:\n        return None\n    msg.gateway.alert(msg)\n    return msg", "    if child_id is None:\n        return None\n    return msg", "child-insert"),
    _m("c14-alert-skips-dirty-on-callback-error", "C14", "__init__.py", "            except Exception as exception:  # pylint: disable=broad-except\n                _LOGGER.exception(exception)\n", "            except Exception as exception:  # pylint: disable=broad-except\n                _LOGGER.exception(exception)\n                return\n", "marks dirty"),
    _m("c14-stop-no-save", "C14", "task.py", "            self._cancel_save()\n            self._cancel_save = None\n        self.persistence.save_sensors()", "            self._cancel_save()\n            self._cancel_save = None\n            self.persistence.save_sensors()", "saves exactly once"),
    _m("c14-flag-cleared-early", "C14", "persistence.py", "        _LOGGER.debug(\"Saving sensors to persistence file %s\", fname)\n", "        _LOGGER.debug(\"Saving sensors to persistence file %s\", fname)\n        self.need_save = False\n", "C14-R3"),
    _m("c14-flag-cleared-in-alert", "C14", "__init__.py", "            self.tasks.persistence.need_save = True", "            self.tasks.persistence.need_save = bool(self.sensors)", "C14-R"),
    _m("c14-heartbeat22-no-alert", "C14", "handler.py", "    msg.gateway.sensors[msg.node_id].heartbeat = msg.payload\n    msg.gateway.alert(msg)\n    return None\n\n\n@HANDLERS_22.register(\"I_PRE_SLEEP", "    msg.gateway.sensors[msg.node_id].heartbeat = msg.payload\n    return None\n\n\n@HANDLERS_22.register(\"I_PRE_SLEEP", "handle_heartbeat_response_22"),
    _m("c14-benign-alert-via-local", "C14", "handler.py", "    msg.gateway.sensors[msg.node_id].sketch_name = msg.payload\n    msg.gateway.alert(msg)", "    gateway = msg.gateway\n    gateway.sensors[msg.node_id].sketch_name = msg.payload\n    gateway.alert(msg)", "", silent=True),
    _m("c04-overwrite-node-on-represent", "C04", "__init__.py", "        if sensorid is not None and sensorid not in self.sensors:\n            self.sensors[sensorid] = Sensor(sensorid)", "        if sensorid is not None:\n            self.sensors[sensorid] = Sensor(sensorid)", "node insertion dominated"),
    _m("c04-child-overwrite", "C04", "sensor.py", "        if child_id in self.children:\n            _LOGGER.warning(\n                \"child_id %s already exists in children of node %s, \"\n                \"cannot add child\",\n                child_id,\n                self.sensor_id,\n            )\n            return None\n", "", "child insertion dominated"),
    _m("c04-alert-before-mutation", "C04", "handler.py", "    sensor.update_child_value(\n        msg.child_id,\n        msg.sub_type,\n        msg.payload,\n    )\n\n    msg.gateway.alert(msg)\n", "    msg.gateway.alert(msg)\n\n    sensor.update_child_value(\n        msg.child_id,\n        msg.sub_type,\n        msg.payload,\n    )\n", "C04-R3"),
    _m("c04-double-alert", "C04", "handler.py", "    msg.gateway.sensors[msg.node_id].sketch_version = msg.payload\n    msg.gateway.alert(msg)\n", "    msg.gateway.sensors[msg.node_id].sketch_version = msg.payload\n    msg.gateway.alert(msg)\n    msg.gateway.alert(msg)\n", "at most one alert"),
    _m("c04-alert-with-copy", "C04", "handler.py", "    msg.gateway.sensors[msg.node_id].sketch_name = msg.payload\n    msg.gateway.alert(msg)", "    msg.gateway.sensors[msg.node_id].sketch_name = msg.payload\n    msg.gateway.alert(msg.copy())", "inbound message"),
    _m("c04-value-under-child-id", "C04", "handler.py", "    sensor.update_child_value(\n        msg.child_id,\n        msg.sub_type,\n        msg.payload,", "    sensor.update_child_value(\n        msg.child_id,\n        msg.child_id,\n        msg.payload,", "value stored is the reported one"),
    _m("c04-battery-fallback-100", "C04", "validation.py", "            \"%s is not a valid battery level, falling back to battery level 0\", value\n        )\n        return 0", "            \"%s is not a valid battery level, falling back to battery level 0\", value\n        )\n        return 100", "falls back to 0"),
    _m("c04-sketch-name-from-set", "C04", "handler.py", "    msg.gateway.alert(msg)\n\n    # Check if reboot is true", "    sensor.sketch_name = msg.payload\n    msg.gateway.alert(msg)\n\n    # Check if reboot is true", "sketch_name"),
    _m("c04-add-sensor-from-set", "C04", "handler.py", "    if not msg.gateway.is_sensor(msg.node_id, msg.child_id):\n        return None\n\n    sensor = msg.gateway.sensors[msg.node_id]\n\n    sensor.update_child_value(", "    msg.gateway.add_sensor(msg.node_id)\n    if not msg.gateway.is_sensor(msg.node_id, msg.child_id):\n        return None\n\n    sensor = msg.gateway.sensors[msg.node_id]\n\n    sensor.update_child_value(", "add_sensor"),
    _m("c04-benign-early-return-inverted", "C04", "handler.py", "    if not msg.gateway.is_sensor(msg.node_id):\n        return None\n    msg.gateway.sensors[msg.node_id].sketch_version = msg.payload\n    msg.gateway.alert(msg)\n    return None", "    if msg.gateway.is_sensor(msg.node_id):\n        msg.gateway.sensors[msg.node_id].sketch_version = msg.payload\n        msg.gateway.alert(msg)\n    return None", "", silent=True),
    # ------------------------------------------------------------------ C07
    _m("c07-router-ignores-sleep", "C07", "__init__.py", "            or msg.type == self.const.MessageType.stream\n            or not self.sensors[msg.node_id].is_smart_sleep_node\n", "            or msg.type == self.const.MessageType.stream\n            or self.sensors[msg.node_id].reboot\n            or not self.sensors[msg.node_id].is_smart_sleep_node\n", "C07-R2"),
    _m("c07-router-exempts-internal", "C07", "__init__.py", "            or msg.type == self.const.MessageType.stream\n", "            or msg.type == self.const.MessageType.stream\n            or msg.type == self.const.MessageType.internal\n", "C07-R2"),
    _m("c07-router-wrong-queue", "C07", "__init__.py", "        self.sensors[msg.node_id].queue.append(msg.encode())", "        self.sensors[msg.child_id].queue.append(msg.encode())", "C07-R2"),
    _m("c07-logic-skips-router", "C07", "__init__.py", "        reply = handler(msg)\n        reply = self._route_message(reply)\n        return reply.encode() if reply else None", "        reply = handler(msg)\n        if reply is not None and reply.sub_type == self.const.Internal.I_REBOOT:\n            return reply.encode()\n        reply = self._route_message(reply)\n        return reply.encode() if reply else None", "passed the router"),
    _m("c07-is_sensor-unrouted", "C07", "__init__.py", "            if self._route_message(msg):\n                self.tasks.add_job(msg.encode)", "            self.tasks.add_job(msg.encode)", "is_sensor"),
    _m("c07-set_child_value-sends-when-sleeping", "C07", "__init__.py", "            sensor.set_child_desired_state(child_id, value_type, value)\n            return\n", "            sensor.set_child_desired_state(child_id, value_type, value)\n", "C07-R"),
    _m("c07-flush-from-battery", "C07", "handler.py", "    msg.gateway.sensors[msg.node_id].battery_level = msg.payload\n    msg.gateway.alert(msg)", "    msg.gateway.sensors[msg.node_id].battery_level = msg.payload\n    handle_smartsleep(msg)\n    msg.gateway.alert(msg)", "C07-R3"),
    _m("c07-heartbeat22-flushes", "C07", "handler.py", "    msg.gateway.sensors[msg.node_id].heartbeat = msg.payload\n    msg.gateway.alert(msg)\n    return None\n\n\n@HANDLERS_22.register(\"I_PRE_SLEEP", "    handle_smartsleep(msg)\n    msg.gateway.sensors[msg.node_id].heartbeat = msg.payload\n    msg.gateway.alert(msg)\n    return None\n\n\n@HANDLERS_22.register(\"I_PRE_SLEEP", "C07-R3"),
    _m("c07-reboot-direct-send", "C07", "handler.py", "    if sensor.reboot:\n        return msg.copy(", "    if sensor.reboot:\n        msg.gateway.tasks.add_job(msg.copy(child_id=SYSTEM_CHILD_ID, type=msg.gateway.const.MessageType.internal, ack=0, sub_type=msg.gateway.const.Internal.I_REBOOT, payload=\"\").encode)\n        return None\n    if sensor.reboot:\n        return msg.copy(", "C07-R1"),
    _m("c07-benign-route-local", "C07", "__init__.py", "        reply = handler(msg)\n        reply = self._route_message(reply)\n        return reply.encode() if reply else None", "        reply = handler(msg)\n        routed = self._route_message(reply)\n        if not routed:\n            return None\n        return routed.encode()", "", silent=True),
    # ------------------------------------------------------------------ C08
    _m("c08-queue-pop-lifo", "C08", "handler.py", "job = sensor.queue.popleft()", "job = sensor.queue.pop()", "C08-R1"),
    _m("c08-flush-single-pop", "C08", "handler.py", "    while sensor.queue:\n        job = sensor.queue.popleft()\n        msg.gateway.tasks.add_job(str, job)", "    if sensor.queue:\n        job = sensor.queue.popleft()\n        msg.gateway.tasks.add_job(str, job)", "C08-R2"),
    _m("c08-flush-double-enqueue", "C08", "handler.py", "        msg.gateway.tasks.add_job(str, job)\n", "        msg.gateway.tasks.add_job(str, job)\n        msg.gateway.tasks.add_job(str, job)\n", "C08-R2"),
    _m("c08-flush-desired-before-replies", "C08", "handler.py", "    sensor.init_smart_sleep_mode()\n\n    while sensor.queue:\n        job = sensor.queue.popleft()\n        msg.gateway.tasks.add_job(str, job)\n", "    sensor.init_smart_sleep_mode()\n", "C08-R2", count=1),
    _m("c08-flush-iterates-desired-types", "C08", "handler.py", "        for value_type, _ in child.values.items():", "        for value_type, _ in new_child_state.values.items():", "C08-R2"),
    _m("c08-no-confirmation", "C08", "sensor.py", "        new_state_child.values[value_type] = None", "        new_state_child.values[value_type] = value", "C08-R3"),
    _m("c08-confirm-wrong-type", "C08", "sensor.py", "        new_state_child.values[value_type] = None", "        new_state_child.values[child_id] = None", "C08-R3"),
    _m("c08-lookup-reported-first", "C08", "sensor.py", "        if value is not None:\n            return value\n\n        child = self.children[child_id]\n\n        return child.values.get(value_type)", "        child = self.children[child_id]\n        reported = child.values.get(value_type)\n        if reported is not None:\n            return reported\n        return value", "C08-R4"),
    _m("c08-ctor-validates-node-version", "C08", "__init__.py", "        msg.validate(self.protocol_version)\n\n        return msg", "        msg.validate(sensor.protocol_version)\n\n        return msg", "C08-R5"),
    _m("c08-benign-flush-local-tasks", "C08", "handler.py", "    while sensor.queue:\n        job = sensor.queue.popleft()\n        msg.gateway.tasks.add_job(str, job)", "    tasks = msg.gateway.tasks\n    while sensor.queue:\n        job = sensor.queue.popleft()\n        tasks.add_job(str, job)", "", silent=True),
    # ------------------------------------------------------------------ C05
    _m("c05-config-always-metric", "C05", "handler.py", "payload=\"M\" if msg.gateway.metric else \"I\"", "payload=\"M\" if msg.gateway.can_log else \"I\"", "I_CONFIG"),
    _m("c05-config-wrong-letter", "C05", "handler.py", "payload=\"M\" if msg.gateway.metric else \"I\"", "payload=\"M\" if msg.gateway.metric else \"F\"", "C05-R"),
    _m("c05-req-answers-as-req", "C05", "handler.py", "    return msg.copy(type=msg.gateway.const.MessageType.set, payload=value)", "    return msg.copy(payload=value)", "reply shape for req"),
    _m("c05-discover-not-broadcast", "C05", "handler.py", "        node_id=255, ack=0, sub_type=msg.gateway.const.Internal.I_DISCOVER, payload=\"\"", "        ack=0, sub_type=msg.gateway.const.Internal.I_DISCOVER, payload=\"\"", "I_GATEWAY_READY"),
    _m("c05-discover-payload", "C05", "handler.py", "sub_type=msg.gateway.const.Internal.I_DISCOVER, payload=\"\"", "sub_type=msg.gateway.const.Internal.I_DISCOVER, payload=\"1\"", "C05-R"),
    _m("c05-reboot-to-child", "C05", "handler.py", "            child_id=SYSTEM_CHILD_ID,\n            type=msg.gateway.const.MessageType.internal,\n            ack=0,\n            sub_type=msg.gateway.const.Internal.I_REBOOT,", "            type=msg.gateway.const.MessageType.internal,\n            ack=0,\n            sub_type=msg.gateway.const.Internal.I_REBOOT,", "reply shape for set"),
    _m("c05-reboot-unconditional", "C05", "handler.py", "    # Check if reboot is true\n    if sensor.reboot:\n", "    # Check if reboot is true\n    if sensor.reboot or sensor.children:\n", "reply shape for set"),
    _m("c05-battery-level-echo", "C05", "handler.py", "    msg.gateway.sensors[msg.node_id].battery_level = msg.payload\n    msg.gateway.alert(msg)\n    return None", "    msg.gateway.sensors[msg.node_id].battery_level = msg.payload\n    msg.gateway.alert(msg)\n    return msg.copy(ack=0)", "I_BATTERY_LEVEL"),
    _m("c05-time-ack-kept", "C05", "handler.py", "    return msg.copy(ack=0, payload=calendar.timegm(time.localtime()))", "    return msg.copy(payload=calendar.timegm(time.localtime()))", "I_TIME"),
    _m("c05-presentation-request-to-gateway", "C05", "__init__.py", "                node_id=sensorid,\n                child_id=SYSTEM_CHILD_ID,", "                node_id=0,\n                child_id=SYSTEM_CHILD_ID,", "C05-R2"),
    _m("c05-presentation-request-old-versions", "C05", "__init__.py", "AwesomeVersion(self.protocol_version) >= AwesomeVersion(\"2.0\")", "AwesomeVersion(self.protocol_version) >= AwesomeVersion(\"1.5\")", "C05-R2"),
    _m("c05-id-response-reply-subtype", "C05", "handler.py", "sub_type=msg.gateway.const.Internal[\"I_ID_RESPONSE\"], payload=node_id", "sub_type=msg.gateway.const.Internal[\"I_ID_REQUEST\"], payload=node_id", "I_ID_REQUEST"),
    _m("c05-benign-reply-local", "C05", "handler.py", "    return msg.copy(ack=0, payload=\"M\" if msg.gateway.metric else \"I\")", "    unit = \"M\" if msg.gateway.metric else \"I\"\n    reply = msg.copy(ack=0, payload=unit)\n    return reply", "", silent=True),
    # ------------------------------------------------------------------ C06
    _m("c06-next-id-no-plus-one", "C06", "__init__.py", "next_id = max(self.sensors.keys()) + 1", "next_id = max(self.sensors.keys())", "C06-R"),
    _m("c06-next-id-len", "C06", "__init__.py", "next_id = max(self.sensors.keys()) + 1", "next_id = len(self.sensors) + 1", "C06-R1"),
    _m("c06-bound-255", "C06", "__init__.py", "        if next_id <= self.const.MAX_NODE_ID:", "        if next_id <= self.const.MAX_NODE_ID + 1:", "C06-R2"),
    _m("c06-first-id-zero", "C06", "__init__.py", "        else:\n            next_id = 1\n", "        else:\n            next_id = 0\n", "C06-R"),
    _m("c06-reply-before-reserve", "C06", "handler.py", "    node_id = msg.gateway.add_sensor()\n    if node_id is None:\n        return None", "    node_id = msg.gateway._get_next_id()\n    if node_id is None:\n        return None", "C06-R3"),
    _m("c06-max-node-id-const", "C06", "const_14.py", "MAX_NODE_ID = 254", "MAX_NODE_ID = 255", "C06-R2"),
    _m("c06-benign-next-id-expr", "C06", "__init__.py", "        if next_id <= self.const.MAX_NODE_ID:\n            return next_id\n        return None", "        if next_id > self.const.MAX_NODE_ID:\n            return None\n        return next_id", "", silent=True),
    # ------------------------------------------------------------------ C10
    _m("c10-config-consults-started", "C10", "ota.py", "self._get_fw(msg, (self.requested, self.unstarted))", "self._get_fw(msg, (self.requested, self.unstarted, self.started))", "C10-R2"),
    _m("c10-block-consults-requested", "C10", "ota.py", "msg, (self.unstarted, self.started), req_fw_type, req_fw_ver", "msg, (self.requested, self.unstarted, self.started), req_fw_type, req_fw_ver", "C10-R2"),
    _m("c10-config-moves-to-started", "C10", "ota.py", "self._get_fw(msg, (self.requested, self.unstarted))", "self._get_fw(msg, (self.requested, self.started))", "C10-R2"),
    _m("c10-update-no-restart", "C10", "ota.py", "            for store in self.unstarted, self.started:\n                store.pop(node_id, None)\n", "            for store in (self.unstarted,):\n                store.pop(node_id, None)\n", "restart"),
    _m("c10-update-without-firmware", "C10", "ota.py", "        if (fw_type, fw_ver) not in self.firmware:", "        if False and (fw_type, fw_ver) not in self.firmware:", "firmware exists"),
    _m("c10-update-unknown-node", "C10", "ota.py", "            if node_id not in self._sensors:\n                continue\n", "", "C10-R"),
    _m("c10-reply-without-session", "C10", "ota.py", "        if fw_type is None or fw_ver is None:\n            _LOGGER.debug(\"Node %s is not set for firmware update\", msg.node_id)\n            return None, None, None\n        if req_fw_type", "        if (fw_type is None or fw_ver is None) and req_fw_type is None:\n            _LOGGER.debug(\"Node %s is not set for firmware update\", msg.node_id)\n            return None, None, None\n        if req_fw_type", "C10-R1"),
    _m("c10-reboot-cleared-by-set", "C10", "handler.py", "    msg.gateway.alert(msg)\n\n    # Check if reboot is true\n    if sensor.reboot:\n        return msg.copy(", "    msg.gateway.alert(msg)\n\n    # Check if reboot is true\n    if sensor.reboot:\n        sensor.reboot = False\n        return msg.copy(", "C10-R3"),
    _m("c10-reboot-not-cleared-on-presentation", "C10", "handler.py", "        # Set reboot to False after a node reboot.\n        msg.gateway.sensors[msg.node_id].reboot = False\n", "", "C10-R3"),
    _m("c10-stream-without-known-node", "C10", "handler.py", "    if not msg.gateway.is_sensor(msg.node_id):\n        return None\n    stream = ", "    stream = ", "C10-R5"),
    _m("c10-benign-get_fw-local", "C10", "ota.py", "        fw_type, fw_ver, fware = self._get_fw(msg, (self.requested, self.unstarted))", "        stores = (self.requested, self.unstarted)\n        fw_type, fw_ver, fware = self._get_fw(msg, stores)", "", silent=True),
    # ------------------------------------------------------------------ C09
    _m("c09-big-endian-pack", "C09", "ota.py", "struct.pack(f\"<{len(args)}H\", *args)", "struct.pack(f\">{len(args)}H\", *args)", "little-endian"),
    _m("c09-block-echo-session-version", "C09", "ota.py", "        if req_fw_type is not None and req_fw_ver is not None:\n            fw_type, fw_ver = req_fw_type, req_fw_ver\n", "", "echoes"),
    _m("c09-block-index-off-by-one", "C09", "ota.py", "msg.payload = fw_int_to_hex(fw_type, fw_ver, req_blk)", "msg.payload = fw_int_to_hex(fw_type, fw_ver, req_blk + 1)", "echoes"),
    _m("c09-config-crc-blocks-swapped", "C09", "ota.py", "fw_int_to_hex(fw_type, fw_ver, fware[\"blocks\"], fware[\"crc\"])", "fw_int_to_hex(fw_type, fw_ver, fware[\"crc\"], fware[\"blocks\"])", "config response packs"),
    _m("c09-slice-width-constant", "C09", "ota.py", "            req_blk * FIRMWARE_BLOCK_SIZE : req_blk * FIRMWARE_BLOCK_SIZE\n            + FIRMWARE_BLOCK_SIZE\n", "            req_blk * FIRMWARE_BLOCK_SIZE : req_blk * FIRMWARE_BLOCK_SIZE\n            + 8\n", "C09-R2"),
    _m("c09-crc-before-padding", "C09", "ota.py", "    pads = len(bin_string) % 128  # 128 bytes per page for atmega328\n", "    crc = compute_crc(bin_string)\n    pads = len(bin_string) % 128  # 128 bytes per page for atmega328\n", "", silent=True),
    _m("c09-crc-of-unpadded", "C09", "ota.py", "    pads = len(bin_string) % 128  # 128 bytes per page for atmega328\n    for _ in range(128 - pads):  # pad up to even 128 bytes\n        bin_string += b\"\\xff\"\n    fware = {\n        \"blocks\": int(len(bin_string) / FIRMWARE_BLOCK_SIZE),\n        \"crc\": compute_crc(bin_string),", "    raw = bin_string\n    pads = len(bin_string) % 128  # 128 bytes per page for atmega328\n    for _ in range(128 - pads):  # pad up to even 128 bytes\n        bin_string += b\"\\xff\"\n    fware = {\n        \"blocks\": int(len(bin_string) / FIRMWARE_BLOCK_SIZE),\n        \"crc\": compute_crc(raw),", "C09-R3"),
    _m("c09-pad-count-off", "C09", "ota.py", "    for _ in range(128 - pads):  # pad up to even 128 bytes", "    for _ in range(127 - pads):  # pad up to even 128 bytes", "C09-R4"),
    _m("c09-pad-byte-zero", "C09", "ota.py", "        bin_string += b\"\\xff\"", "        bin_string += b\"\\x00\"", "C09-R4"),
    _m("c09-block-size-32", "C09", "ota.py", "FIRMWARE_BLOCK_SIZE = 16", "FIRMWARE_BLOCK_SIZE = 32", "C09-R2"),
    _m("c09-blocks-div-const", "C09", "ota.py", "int(len(bin_string) / FIRMWARE_BLOCK_SIZE)", "int(len(bin_string) / 32)", "C09-R2"),
    _m("c09-config-words-4", "C09", "ota.py", "            ) = fw_hex_to_int(msg.payload, 5)", "            ) = fw_hex_to_int(msg.payload[:16], 4) + (0,)", "C09-R1"),
    _m("c09-benign-slice-locals", "C09", "ota.py", "        blk_data = fware[\"data\"][\n            req_blk * FIRMWARE_BLOCK_SIZE : req_blk * FIRMWARE_BLOCK_SIZE\n            + FIRMWARE_BLOCK_SIZE\n        ]", "        blk_data = fware[\"data\"][\n            req_blk * FIRMWARE_BLOCK_SIZE : (req_blk + 1) * FIRMWARE_BLOCK_SIZE\n        ]", "", silent=True),
    # ------------------------------------------------------------------ C11
    _m("c11-encoder-drops-heartbeat", "C11", "persistence.py", "                \"heartbeat\": o.heartbeat,\n", "", "C11-R1"),
    _m("c11-encoder-adds-reboot", "C11", "persistence.py", "                \"heartbeat\": o.heartbeat,\n", "                \"heartbeat\": o.heartbeat,\n                \"reboot\": o.reboot,\n", "C11-R"),
    _m("c11-setstate-keeps-queue", "C11", "sensor.py", "        self.new_state = {}\n        self.queue = deque()\n        self.reboot = False\n        if \"_heartbeat\"", "        self.new_state = {}\n        self.reboot = False\n        if \"_heartbeat\"", "C11-R1"),
    _m("c11-setstate-reset-before-restore", "C11", "sensor.py", "        # Restore instance attributes\n        for key, val in state.items():\n            setattr(self, key, val)\n        # Reset some attributes\n        self.new_state = {}\n        self.queue = deque()\n        self.reboot = False\n", "        # Reset some attributes\n        self.new_state = {}\n        self.queue = deque()\n        self.reboot = False\n        # Restore instance attributes\n        for key, val in state.items():\n            setattr(self, key, val)\n", "C11-R4"),
    _m("c11-decoder-intkeys-first", "C11", "persistence.py", "        if \"sensor_id\" in obj:", "        if all(k.isdigit() for k in obj.keys()):\n            return {int(k): v for k, v in obj.items()}\n        if \"sensor_id\" in obj:", "C11-R3"),
    _m("c11-decoder-no-intkeys", "C11", "persistence.py", "        if all(k.isdigit() for k in obj.keys()):\n            return {int(k): v for k, v in obj.items()}\n        return obj", "        return obj", "C11-R3"),
    _m("c11-decoder-child-drops-description", "C11", "persistence.py", "ChildSensor(obj[\"id\"], obj[\"type\"], obj.get(\"description\", \"\"))", "ChildSensor(obj[\"id\"], obj[\"type\"])", "C11-R3"),
    _m("c11-getstate-misses-heartbeat", "C11", "sensor.py", "for attr in (\"_battery_level\", \"_heartbeat\", \"_protocol_version\"):", "for attr in (\"_battery_level\", \"_protocol_version\"):", "C11-R1"),
    _m("c11-encoder-wrong-attr", "C11", "persistence.py", "\"sketch_version\": o.sketch_version,", "\"sketch_version\": o.sketch_name,", "C11-R1"),
    _m("c11-benign-encoder-order", "C11", "persistence.py", "                \"sensor_id\": o.sensor_id,\n                \"children\": o.children,\n", "                \"children\": o.children,\n                \"sensor_id\": o.sensor_id,\n", "", silent=True),
    # ------------------------------------------------------------------ C12
    _m("c12-no-fsync", "C12", "persistence.py", "            json.dump(self._sensors, file_handle, cls=MySensorsJSONEncoder, indent=4)\n            file_handle.flush()\n            os.fsync(file_handle.fileno())", "            json.dump(self._sensors, file_handle, cls=MySensorsJSONEncoder, indent=4)\n            file_handle.flush()", "C12-R2"),
    _m("c12-fsync-before-flush", "C12", "persistence.py", "            pickle.dump(self._sensors, file_handle, pickle.HIGHEST_PROTOCOL)\n            file_handle.flush()\n            os.fsync(file_handle.fileno())", "            pickle.dump(self._sensors, file_handle, pickle.HIGHEST_PROTOCOL)\n            os.fsync(file_handle.fileno())\n            file_handle.flush()", "C12-R2"),
    _m("c12-write-main-directly", "C12", "persistence.py", "        self._perform_file_action(tmp_fname, \"save\")\n        if exists:\n            os.rename(fname, self.persistence_bak)\n        os.rename(tmp_fname, fname)\n", "        self._perform_file_action(fname, \"save\")\n", "C12-R"),
    _m("c12-remove-bak-before-move", "C12", "persistence.py", "        os.rename(tmp_fname, fname)\n        if exists:\n            os.remove(self.persistence_bak)", "        if exists:\n            os.remove(self.persistence_bak)\n        os.rename(tmp_fname, fname)", "C12-R3"),
    _m("c12-move-aside-before-write", "C12", "persistence.py", "        self._perform_file_action(tmp_fname, \"save\")\n        if exists:\n            os.rename(fname, self.persistence_bak)\n", "        if exists:\n            os.rename(fname, self.persistence_bak)\n        self._perform_file_action(tmp_fname, \"save\")\n", "C12-R3"),
    _m("c12-swallow-oserror", "C12", "persistence.py", "        if exists:\n            os.remove(self.persistence_bak)\n        self.need_save = False", "        try:\n            if exists:\n                os.remove(self.persistence_bak)\n        finally:\n            self.need_save = False", "C12-R3"),
    _m("c12-remove-main-instead-of-rename", "C12", "persistence.py", "        if exists:\n            os.rename(fname, self.persistence_bak)\n        os.rename(tmp_fname, fname)\n        if exists:\n            os.remove(self.persistence_bak)", "        if exists:\n            os.remove(fname)\n        os.rename(tmp_fname, fname)", "C12-R3"),
    _m("c12-loader-never-tries-backup", "C12", "persistence.py", "        if not loaded:\n            _LOGGER.warning(\"Trying backup file", "        if not loaded and False:\n            _LOGGER.warning(\"Trying backup file", "C12-R4"),
    _m("c12-loader-reads-bak-in-place", "C12", "persistence.py", "            if path == self.persistence_bak:\n                os.rename(path, self.persistence_file)\n                path = self.persistence_file\n", "", "C12-R4"),
    _m("c12-benign-os-replace", "C12", "persistence.py", "        if exists:\n            os.rename(fname, self.persistence_bak)\n        os.rename(tmp_fname, fname)\n        if exists:\n            os.remove(self.persistence_bak)", "        os.replace(tmp_fname, fname)", "", silent=True),
    # ------------------------------------------------------------------ C13
    _m("c13-main-handler-narrow", "C13", "persistence.py", "        try:\n            loaded = self._load_sensors()\n        except BAD_CONTENT_ERRORS:", "        try:\n            loaded = self._load_sensors()\n        except (EOFError, ValueError):", "C13-R1"),
    _m("c13-drop-indexerror", "C13", "persistence.py", "    IndexError,\n", "", "C13-R1"),
    _m("c13-backup-unguarded", "C13", "persistence.py", "            try:\n                if not self._load_sensors(self.persistence_bak):\n                    _LOGGER.warning(\n                        \"Failed to load sensors from file: %s\", self.persistence_file\n                    )\n            except BAD_CONTENT_ERRORS:\n                _LOGGER.error(\"Bad file contents: %s\", self.persistence_file)\n                _LOGGER.warning(\"Removing file: %s\", self.persistence_file)\n                os.remove(self.persistence_file)", "            if not self._load_sensors(self.persistence_bak):\n                _LOGGER.warning(\n                    \"Failed to load sensors from file: %s\", self.persistence_file\n                )", "C13-R1"),
    _m("c13-handler-reraises", "C13", "persistence.py", "            _LOGGER.error(\"Bad file contents: %s\", self.persistence_file)\n            loaded = False", "            _LOGGER.error(\"Bad file contents: %s\", self.persistence_file)\n            raise", "C13-R1"),
    _m("c13-damaged-backup-kept", "C13", "persistence.py", "                _LOGGER.warning(\"Removing file: %s\", self.persistence_file)\n                os.remove(self.persistence_file)", "                _LOGGER.warning(\"Removing file: %s\", self.persistence_file)", "C13-R3"),
    _m("c13-apply-before-decode", "C13", "persistence.py", "            self._sensors.update(json.load(file_handle, cls=MySensorsJSONDecoder))", "            self._sensors.update({})\n            self._sensors.update(json.load(file_handle, cls=MySensorsJSONDecoder))", "C13-R2"),
    _m("c13-benign-handler-tuple-inline", "C13", "persistence.py", "        except BAD_CONTENT_ERRORS:\n            _LOGGER.error(\"Bad file contents: %s\", self.persistence_file)\n            loaded = False", "        except (AttributeError, EOFError, ImportError, IndexError, ValueError, pickle.UnpicklingError):\n            _LOGGER.error(\"Bad file contents: %s\", self.persistence_file)\n            loaded = False", "", silent=True),
    # ------------------------------------------------------------------ C15
    _m("c15-sync-except-oserror-only", "C15", "task.py", "            try:\n                save_sensors()\n            except Exception as exc:  # pylint: disable=broad-except", "            try:\n                save_sensors()\n            except OSError as exc:  # pylint: disable=broad-except", "C15-R1"),
    _m("c15-sync-rearm-inside-try", "C15", "task.py", "            try:\n                save_sensors()\n            except Exception as exc:  # pylint: disable=broad-except\n                _LOGGER.error(\"Failed to save sensors, will try again: %s\", exc)\n            scheduler", "            try:\n                save_sensors()\n            except Exception as exc:  # pylint: disable=broad-except\n                _LOGGER.error(\"Failed to save sensors, will try again: %s\", exc)\n                return\n            scheduler", "C15-R1"),
    _m("c15-sync-cancel-not-published", "C15", "task.py", "            scheduler.start()\n            self._cancel_save = scheduler.cancel", "            scheduler.start()", "C15-R2"),
    _m("c15-sync-timer-other-target", "C15", "task.py", "threading.Timer(10.0, schedule_save)", "threading.Timer(10.0, save_sensors)", "C15-R1"),
    _m("c15-async-break-on-error", "C15", "task.py", "                    except Exception as exc:  # pylint: disable=broad-except\n                        _LOGGER.error(\"Failed to save sensors, will try again: %s\", exc)\n                    await asyncio.sleep(10.0)", "                    except Exception as exc:  # pylint: disable=broad-except\n                        _LOGGER.error(\"Failed to save sensors, will try again: %s\", exc)\n                        break\n                    await asyncio.sleep(10.0)", "C15-R1"),
    _m("c15-async-busy-loop-on-error", "C15", "task.py", "                    except Exception as exc:  # pylint: disable=broad-except\n                        _LOGGER.error(\"Failed to save sensors, will try again: %s\", exc)\n                    await asyncio.sleep(10.0)", "                    except Exception as exc:  # pylint: disable=broad-except\n                        _LOGGER.error(\"Failed to save sensors, will try again: %s\", exc)\n                        continue\n                    await asyncio.sleep(10.0)", "C15-R1"),
    _m("c15-benign-sync-local-timer", "C15", "task.py", "            scheduler = threading.Timer(10.0, schedule_save)\n            scheduler.start()\n            self._cancel_save = scheduler.cancel", "            timer_ = threading.Timer(10.0, schedule_save)\n            timer_.start()\n            self._cancel_save = timer_.cancel", "", silent=True),
]


def cases() -> List[dict]:
    return [dict(c) for c in MUTANTS]


def apply(repo: str, spec: dict) -> None:
    path = os.path.join(repo, spec["file"])
    with open(path, encoding="utf-8") as fh:
        src = fh.read()
    if spec["old"] not in src:
        raise LookupError(f"mutant not applicable: text not found in {spec['file']}")
    n = spec.get("count", 1)
    new = src.replace(spec["old"], spec["new"]) if n == 0 else src.replace(spec["old"], spec["new"], n)
    if new == src:
        raise LookupError("mutant is a no-op")
    with open(path, "w", encoding="utf-8") as fh:
        fh.write(new)
