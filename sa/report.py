"""Obligations, verdicts, evidence files, violation reports, known findings."""
from __future__ import annotations

import hashlib
import json
import os
import sys
import time
from dataclasses import dataclass, field
from typing import Dict, List, Optional

VERIF = os.path.dirname(os.path.dirname(os.path.abspath(__file__)))


@dataclass
class Ob:
    """One obligation of a rule: a construct that was examined and the verdict."""

    rule: str  # e.g. "C01-R1"
    construct: str  # stable key, e.g. "handler:handle_set / subscript msg.gateway.sensors[msg.node_id]"
    ok: bool
    where: str = ""  # file:line (informational; not part of the key)
    detail: str = ""
    witness: List[str] = field(default_factory=list)
    contexts: List[str] = field(default_factory=list)

    @property
    def key(self) -> str:
        return f"{self.rule} {self.construct}"


class RuleResult:
    def __init__(self, prop: str):
        self.prop = prop
        self.obs: List[Ob] = []
        self.explanation: List[str] = []
        self.assumptions: List[str] = []
        self.contexts: List[str] = []
        self.units: Dict[str, object] = {}
        self.trusted: List[str] = []
        self.not_decided: List[str] = []
        self.exhaustive: Optional[bool] = None
        self.extra: Dict[str, object] = {}
        self._index: Dict[str, Ob] = {}

    def add(self, rule, construct, ok, where="", detail="", witness=None, context=None) -> Ob:
        key = f"{rule} {construct}"
        ob = self._index.get(key)
        if ob is None:
            ob = Ob(rule, construct, ok, where, detail, list(witness or []), [context] if context else [])
            self._index[key] = ob
            self.obs.append(ob)
        else:
            if context and context not in ob.contexts:
                ob.contexts.append(context)
            if ob.ok and not ok:
                ob.ok = False
                ob.detail = detail
                ob.witness = list(witness or [])
                ob.where = where or ob.where
        return ob

    def need(self, rule: str, minimum: int, what: str) -> None:
        """Fail closed: a rule that examined fewer instances than confirmed by hand is broken."""
        n = sum(1 for o in self.obs if o.rule == rule)
        if n < minimum and any(o.rule == rule and not o.ok for o in self.obs):
            return  # the rule already reports a violation that cut its enumeration short
        if n < minimum:
            from .frontend import AnalysisError

            raise AnalysisError(f"{rule}: only {n} instance(s) of {what} found, expected at least {minimum} (anchor vanished or idiom not recognised)")

    def reindex(self) -> None:
        self._index = {o.key: o for o in self.obs}

    @property
    def violations(self) -> List[Ob]:
        return [o for o in self.obs if not o.ok]


def load_known_findings() -> Dict[str, List[str]]:
    path = os.path.join(VERIF, "known_findings.txt")
    res: Dict[str, List[str]] = {}
    if not os.path.exists(path):
        return res
    with open(path, encoding="utf-8") as fh:
        for line in fh:
            line = line.strip()
            if not line.startswith("finding:"):
                continue
            body = line[len("finding:") :].strip()
            if not body.startswith("property="):
                continue
            prop, _, rest = body.partition(" ")
            prop = prop.split("=", 1)[1]
            key = rest.split(" -- ")[0].strip()
            res.setdefault(prop, []).append(key)
    return res


def finish(res: RuleResult, tier: str, started: float, write_evidence: bool = True, selftest: Optional[dict] = None, as_json: bool = False) -> int:
    known = load_known_findings().get(res.prop, [])
    viol = res.violations
    known_hits = [o for o in viol if o.key in known]
    new = [o for o in viol if o.key not in known]
    wall = time.time() - started
    seed = int(os.environ.get("VERIF_SEED", "0") or 0)
    discharged = sum(1 for o in res.obs if o.ok)
    rules = sorted({o.rule for o in res.obs})
    samples = []
    per_rule_seen: Dict[str, int] = {}
    for o in res.obs:
        if per_rule_seen.get(o.rule, 0) >= 4:
            continue
        per_rule_seen[o.rule] = per_rule_seen.get(o.rule, 0) + 1
        samples.append({"rule": o.rule, "construct": o.construct, "where": o.where, "verdict": "discharged" if o.ok else "VIOLATED", "how": o.detail[:300], "contexts": o.contexts[:6]})
    coverage = {
        "explanation": " ".join(res.explanation) or f"static rules {', '.join(rules)}",
        "obligations": len(res.obs),
        "discharged": discharged,
        "evaluations": max(1, len(res.obs)),
        "distinct_nontrivial": len({o.construct for o in res.obs}),
        "rule": "one obligation per (rule, construct) examined in the current source; distinct = distinct constructs (functions, call sites, table rows, paths)",
        "samples": samples or [{"note": "no obligations"}],
        "rules": {r: sum(1 for o in res.obs if o.rule == r) for r in rules},
        "contexts": res.contexts,
        "units_analysed": res.units,
        "trusted_base": res.trusted,
        "not_decided": res.not_decided,
    }
    if res.exhaustive is not None:
        coverage["exhaustive"] = res.exhaustive
    coverage.update(res.extra)
    if selftest is not None:
        coverage["sensitivity"] = selftest
    evidence = {
        "property_id": res.prop,
        "tier": tier,
        "seed": seed,
        "level": "other",
        "coverage": coverage,
        "assumptions": res.assumptions,
        "wall_s": round(wall, 3),
        "violations": len(new),
        "known_findings": [o.key for o in known_hits],
        "violation_keys": [o.key for o in new],
    }
    if as_json:
        json.dump(evidence, sys.stdout)
        sys.stdout.write("\n")
    if write_evidence:
        os.makedirs(os.path.join(VERIF, "evidence"), exist_ok=True)
        with open(os.path.join(VERIF, "evidence", f"{res.prop}.json"), "w", encoding="utf-8") as fh:
            json.dump(evidence, fh, indent=1, default=str)
            fh.write("\n")
    for o in known_hits:
        print(f"KNOWN-FINDING: property={res.prop} {o.key} -- {o.detail[:160]}")
    if new:
        vdir = os.path.join(VERIF, "evidence", "violations", res.prop)
        os.makedirs(vdir, exist_ok=True)
        for o in new:
            digest = hashlib.sha1(o.key.encode()).hexdigest()[:10]
            path = os.path.join(vdir, f"{digest}.json")
            with open(path, "w", encoding="utf-8") as fh:
                json.dump({"property": res.prop, "rule": o.rule, "construct": o.construct, "where": o.where, "detail": o.detail, "witness": o.witness, "contexts": o.contexts, "repo": os.environ.get("VERIF_REPO", "/repo")}, fh, indent=1)
            if not as_json:
                print(f"VIOLATION property={res.prop} replay={path}")
                print(f"  rule {o.rule}: {o.construct}")
                print(f"  at {o.where}: {o.detail[:400]}")
                for w in o.witness[:12]:
                    print(f"    {w}")
        return 1
    if not as_json:
        print(f"OK property={res.prop} tier={tier} obligations={len(res.obs)} discharged={discharged} known_findings={len(known_hits)} wall={wall:.2f}s")
    return 0
