"""Self-test of the checker: regression patches, seeded changes, in-tree mutants, benign twins.

Every variant is materialised as a scratch copy of the tree under analysis in a fresh
temporary directory (outside /repo and /verif), analysed with --repo, and removed.
"""
from __future__ import annotations

import concurrent.futures
import json
import os
import shutil
import subprocess
import sys
import tempfile
from typing import Dict, List, Optional

VERIF = os.path.dirname(os.path.dirname(os.path.abspath(__file__)))


def base_repo() -> str:
    return os.environ.get("VERIF_REPO", "/repo")


def make_copy(src: Optional[str] = None) -> str:
    src = src or base_repo()
    d = tempfile.mkdtemp(prefix="verif-variant.")
    for name in os.listdir(src):
        if name in (".git", "tests", "__pycache__", ".tox", ".pytest_cache") or name.endswith(".egg-info"):
            continue
        s = os.path.join(src, name)
        t = os.path.join(d, name)
        if os.path.isdir(s):
            shutil.copytree(s, t, ignore=shutil.ignore_patterns("__pycache__", "*.pyc"))
        else:
            shutil.copy2(s, t)
    return d


def run_check(prop: str, repo: str, timeout: int = 600) -> dict:
    env = dict(os.environ)
    env["VERIF_REPO"] = repo
    env["PYTHONDONTWRITEBYTECODE"] = "1"
    env.setdefault("VERIF_JOBS", "4")
    proc = subprocess.run(
        [sys.executable, "-m", "sa.main", prop, "--tier", "quick", "--json", "--no-evidence"],
        cwd=VERIF, env=env, capture_output=True, text=True, timeout=timeout,
    )
    out = {"exit": proc.returncode, "stdout": proc.stdout[-2000:], "stderr": proc.stderr[-800:], "violation_keys": [], "analysis_error": None}
    for line in proc.stdout.splitlines():
        line = line.strip()
        if line.startswith("{"):
            try:
                data = json.loads(line)
                out["violation_keys"] = data.get("violation_keys", [])
                out["known_findings"] = data.get("known_findings", [])
            except json.JSONDecodeError:
                pass
        if line.startswith("ANALYSIS-ERROR"):
            out["analysis_error"] = line
    return out


def apply_patch(repo: str, patch: str) -> None:
    proc = subprocess.run(["patch", "-p1", "-s", "--no-backup-if-mismatch", "-i", patch], cwd=repo, capture_output=True, text=True)
    if proc.returncode != 0:
        raise RuntimeError(f"patch {patch} does not apply: {proc.stdout} {proc.stderr}")


def run_case(case: dict) -> dict:
    """case: {name, property, patch|mutant, expect (substring) | silent: true}"""
    repo = make_copy()
    try:
        if case.get("patch"):
            apply_patch(repo, os.path.join(VERIF, case["patch"]))
        elif case.get("mutant"):
            from . import mutate

            mutate.apply(repo, case["mutant"])
        r = run_check(case["property"], repo)
    except LookupError as exc:
        return {"case": case["name"], "property": case["property"], "ok": True, "skipped": True, "why": f"skipped: {exc}"}
    except Exception as exc:  # noqa: BLE001
        return {"case": case["name"], "property": case["property"], "ok": False, "why": f"could not run: {exc}"}
    finally:
        shutil.rmtree(repo, ignore_errors=True)
    keys = r["violation_keys"]
    if case.get("silent"):
        ok = r["exit"] == 0 and not keys
        why = "silent" if ok else f"exit {r['exit']} keys {keys[:3]} {r['analysis_error'] or ''}"
    else:
        exp = case.get("expect", "")
        hit = [k for k in keys if exp in k]
        ok = r["exit"] == 1 and bool(hit)
        why = (hit[0] if hit else f"exit {r['exit']}, expected a violation containing {exp!r}, got {keys[:3]} {r['analysis_error'] or ''} {r['stderr'][-200:]}")
    return {"case": case["name"], "property": case["property"], "ok": ok, "why": why}


def load_cases(prop: Optional[str] = None) -> List[dict]:
    path = os.path.join(VERIF, "selftest", "cases.json")
    with open(path, encoding="utf-8") as fh:
        cases = json.load(fh)
    import glob

    for meta in sorted(glob.glob(os.path.join(VERIF, "seeded", "*", "meta.json"))):
        with open(meta, encoding="utf-8") as fh:
            m = json.load(fh)
        cases.append({"name": "seeded-" + m["id"], "property": m["property"], "patch": os.path.relpath(os.path.join(os.path.dirname(meta), "patch.diff"), VERIF), "expect": ""})
    # behaviour-preserving refactorings (written by independent sub-agents or ported by hand):
    # silent cases for every property whose anchor files they touch
    anchors = {}
    with open(os.path.join(VERIF, "properties.jsonl"), encoding="utf-8") as fh:
        for line in fh:
            pr = json.loads(line)
            anchors[pr["id"]] = set(pr["anchors"]["files"])
    claimed = set()
    try:
        with open(os.path.join(VERIF, "MANIFEST.json"), encoding="utf-8") as fh:
            claimed = {c["property_id"] for c in json.load(fh)["checks"]}
    except (OSError, ValueError):
        pass
    for patch in sorted(glob.glob(os.path.join(VERIF, "selftest", "benign", "*.diff"))):
        touched = set()
        with open(patch, encoding="utf-8") as fh:
            for line in fh:
                if line.startswith("+++ b/"):
                    touched.add(line[6:].strip())
        for pid, files in sorted(anchors.items()):
            if pid in claimed and (touched & files):
                cases.append({"name": "benign-" + os.path.basename(patch)[:-5], "property": pid, "patch": os.path.relpath(patch, VERIF), "silent": True})
    try:
        from . import mutate

        cases = cases + mutate.cases()
    except ImportError:
        pass
    if prop:
        cases = [c for c in cases if c["property"] == prop.upper()]
    return cases


def run_cases(cases: List[dict], jobs: int = 8) -> List[dict]:
    if not cases:
        return []
    with concurrent.futures.ThreadPoolExecutor(max_workers=jobs) as ex:
        return list(ex.map(run_case, cases))


def sensitivity(prop: str) -> dict:
    """Thorough tier: the rule must still report each breaking variant and stay silent on each benign one."""
    cases = load_cases(prop)
    results = run_cases(cases, jobs=int(os.environ.get("VERIF_SENS_JOBS", "6")))
    breaking = [r for r, c in zip(results, cases) if not c.get("silent") and not r.get("skipped")]
    benign = [r for r, c in zip(results, cases) if c.get("silent") and not r.get("skipped")]
    rep = {
        "variants_breaking": len(breaking),
        "reported": sum(1 for r in breaking if r["ok"]),
        "variants_benign": len(benign),
        "benign_silent": sum(1 for r in benign if r["ok"]),
        "skipped_not_applicable": [r["case"] for r in results if r.get("skipped")],
        "missed": [r["case"] + ": " + r["why"][:200] for r in breaking if not r["ok"]],
        "false_alarms": [r["case"] + ": " + r["why"][:200] for r in benign if not r["ok"]],
        "note": "variants are scratch copies of the tree under analysis with one patch or AST mutation applied; a missed variant is a weakness of the checker, reported here and by ./check --selftest, it does not change the exit status of the property check",
    }
    for m in rep["missed"]:
        print(f"SENSITIVITY-WARNING property={prop} missed variant {m}")
    for m in rep["false_alarms"]:
        print(f"SENSITIVITY-WARNING property={prop} alarm on benign variant {m}")
    return rep


def main(prop: Optional[str] = None) -> int:
    cases = load_cases(prop)
    results = run_cases(cases, jobs=int(os.environ.get("VERIF_SENS_JOBS", "8")))
    bad = 0
    for r in results:
        print(("PASS " if r["ok"] else "FAIL ") + f"{r['property']} {r['case']}: {r['why'][:220]}")
        bad += 0 if r["ok"] else 1
    print(f"{len(results) - bad}/{len(results)} self-test cases passed")
    return 0 if bad == 0 else 3
