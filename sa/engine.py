"""Shared analysis set-up: contexts, root states, lemma hooks, path-set helpers."""
from __future__ import annotations

import ast
import os
from typing import Dict, List, Optional, Tuple

from .extmodel import ExtModel
from .frontend import AnalysisError, FuncInfo, Program, unparse
from .interp import Budget, Context, Interp, SEEDS
from .reflect import reflect
from .values import (
    BoundV,
    Const,
    DictV,
    ExcV,
    FuncV,
    ModV,
    Obj,
    State,
    Sym,
    Unknown,
    V,
)

VERSIONS = ["1.4", "1.5", "2.0", "2.1", "2.2"]

FAMILIES = {
    # family -> (sync gateway, async gateway, sync transport, async transport, sync protocol, async protocol)
    "serial": ("gateway_serial:SerialGateway", "gateway_serial:AsyncSerialGateway", "transport:SyncTransport", "transport:AsyncTransport", "transport:BaseMySensorsProtocol", "transport:AsyncMySensorsProtocol"),
    "tcp": ("gateway_tcp:TCPGateway", "gateway_tcp:AsyncTCPGateway", "transport:SyncTransport", "transport:AsyncTransport", "transport:BaseMySensorsProtocol", "gateway_tcp:AsyncTCPMySensorsProtocol"),
    "mqtt": ("gateway_mqtt:MQTTGateway", "gateway_mqtt:AsyncMQTTGateway", "gateway_mqtt:MQTTSyncTransport", "gateway_mqtt:MQTTAsyncTransport", None, None),
}


class Analysis:
    def __init__(self, root: Optional[str] = None):
        self.p = Program(root)
        self.refl = reflect(self.p.root)
        self.versions = list(self.refl["const_versions"].keys())
        self.lemmas_enabled = {"copy": True, "validated": True}
        self.ext_used = set()
        self.ext_unmodelled = set()
        self.interp_steps = 0

    # --------------------------------------------------------------- contexts
    def context(self, version: str, family: str, flavour: str) -> Context:
        fam = FAMILIES[family]
        sync = flavour == "sync"
        gw = fam[0] if sync else fam[1]
        tr = fam[2] if sync else fam[3]
        pr = fam[4] if sync else fam[5]
        for q in (gw, tr) + ((pr,) if pr else ()):
            if q not in self.p.classes:
                raise AnalysisError(f"anchor vanished: class {q}")
        tasks = "task:SyncTasks" if sync else "task:AsyncTasks"
        if tasks not in self.p.classes:
            raise AnalysisError(f"anchor vanished: class {tasks}")
        return Context(version, gw, tasks, tr, pr, name=f"{version}/{family}/{flavour}")

    def contexts(self, tier: str = "quick", families=("serial", "tcp", "mqtt"), flavours=("sync", "async"), versions=None) -> List[Context]:
        versions = versions or self.versions
        out = []
        for v in versions:
            for fam in families:
                for fl in flavours:
                    out.append(self.context(v, fam, fl))
        return out

    # ------------------------------------------------------------- overrides
    def handler_overrides(self, ctx: Context) -> Dict[str, FuncInfo]:
        """`<enum member>.set_handler(self.handlers, self.<method>)` calls in the __init__ chain."""
        res: Dict[str, FuncInfo] = {}
        for c in self.p.mro(ctx.gateway):
            if c.startswith("ext:"):
                continue
            cls = self.p.classes[c]
            init = cls.methods.get("__init__")
            if init is None:
                continue
            for node in ast.walk(init.node):
                if isinstance(node, ast.Call) and isinstance(node.func, ast.Attribute) and node.func.attr == "set_handler":
                    recv = node.func.value
                    if not (isinstance(recv, ast.Attribute) and len(node.args) == 2):
                        raise AnalysisError(f"unrecognised set_handler call in {init.qual}: {unparse(node)}")
                    member = recv.attr
                    target = node.args[1]
                    if not (isinstance(target, ast.Attribute) and isinstance(target.value, ast.Name) and target.value.id == "self"):
                        raise AnalysisError(f"unrecognised set_handler target in {init.qual}: {unparse(node)}")
                    m = self.p.find_method(ctx.gateway, target.attr)
                    if not isinstance(m, FuncInfo):
                        raise AnalysisError(f"set_handler target {target.attr} not found on {ctx.gateway}")
                    res[member] = m
        return res

    # ---------------------------------------------------------------- states
    def new_interp(self, ctx: Context, max_paths: int = 60000) -> Interp:
        it = Interp(self.p, self.refl, ctx, ExtModel(), max_paths=max_paths)
        self.install_hooks(it)
        return it

    def gateway_state(self, it: Interp) -> Tuple[State, V]:
        ctx = it.ctx
        st = it.new_state()
        gw = Sym(("root", "GW"), ("cls", ctx.gateway))
        st.roots = {"GW": gw}
        regdesc = self.refl["consts"][ctx.version].get("registry")
        if regdesc is None:
            raise AnalysisError(f"no handler registry for version {ctx.version}")
        reg = it.ext.registry_value(it, regdesc, self.refl["consts"][ctx.version].get("registry_name", "?"))
        for member, info in self.handler_overrides(ctx).items():
            reg.entries[member] = BoundV(gw, info)
        reg.label = f"handlers:{ctx.name}"
        st.mem[(gw.key(), "a", "handlers")] = reg
        st.mem[(gw.key(), "a", "const")] = ModV("const:" + ctx.version)
        return st, gw

    # ----------------------------------------------------------------- hooks
    def install_hooks(self, it: Interp) -> None:
        a = self
        orig_call_func = it.call_func

        def call_func(st, fn, args, kwargs, node):
            info = fn.info
            q = info.qual
            if q == "message:Message.decode" and a.lemmas_enabled["copy"]:
                recv = fn.recv if isinstance(fn, BoundV) else (args[0] if args else None)
                pos = list(args) if isinstance(fn, BoundV) else list(args[1:])
                data = pos[0] if pos else kwargs.get("data")
                canonical_src = data is not None and ("encoded_canonical", data.key()) in st.facts
                outs = orig_call_func(st, fn, args, kwargs, node)
                res = []
                for kind, s, v in outs:
                    if kind == "raise" and canonical_src and issubclass(v.cls, ValueError) and v.site.startswith("message:Message.decode"):
                        # LEMMA-COPY: decode(encode(m)) of a canonical message cannot fail (needs C02-R1)
                        continue
                    if kind == "val" and recv is not None:
                        s.add_fact(("canonical", recv.key()))
                    res.append((kind, s, v))
                return res
            if q == "message:Message.encode":
                recv = fn.recv if isinstance(fn, BoundV) else (args[0] if args else None)
                outs = orig_call_func(st, fn, args, kwargs, node)
                res = []
                for kind, s, v in outs:
                    if kind == "val" and recv is not None and isinstance(v, V) and not isinstance(v, Const):
                        # name the result after the message and the moment it was encoded
                        nv = Unknown("str", label=f"encoded:{recv.key()!r}@{len(s.events)}")
                        if a.lemmas_enabled["copy"] and ("canonical", recv.key()) in s.facts:
                            s.add_fact(("encoded_canonical", nv.key()))
                        s.add_fact(("encodedof", nv.key(), recv.key()))
                        v = nv
                    res.append((kind, s, v))
                return res
            if q == "message:Message.validate" and a.lemmas_enabled["validated"]:
                recv = fn.recv if isinstance(fn, BoundV) else (args[0] if args else None)
                outs = orig_call_func(st, fn, args, kwargs, node)
                for kind, s, v in outs:
                    if kind == "val" and recv is not None and not (isinstance(v, Const) and v.value is None):
                        # LEMMA-VALIDATED (needs C03-R1/R4): on the normal exit type and sub_type are members
                        tloc = (recv.key(), "a", "type")
                        sloc = (recv.key(), "a", "sub_type")
                        tv = s.mem.get(tloc)
                        sv = s.mem.get(sloc)
                        tkey = tv.key() if tv is not None else ("attr", recv.key(), "type")
                        skey = sv.key() if sv is not None else ("attr", recv.key(), "sub_type")
                        s.add_fact(("member", tkey, "MessageType"), ("validated", recv.key()), ("subtype_of", skey, tkey))
                return outs
            return orig_call_func(st, fn, args, kwargs, node)

        it.call_func = call_func

        orig_valid = it.valid_member_fact
        refl = self.refl

        def valid_member_fact(st, arg, enum):
            if orig_valid(st, arg, enum):
                return True
            # sub_type validated against the enum selected by the (dispatched) message type
            for f in st.facts:
                if f[0] == "subtype_of" and f[1] == arg.key():
                    tkey = f[2]
                    for g in st.facts:
                        if g[0] == "enumeq" and g[1] == tkey and g[2] == "MessageType":
                            tval = it.enum_value("MessageType", None, g[3])
                            rows = refl["consts"][it.ctx.version].get("VALID_MESSAGE_TYPES", {}).get(str(tval))
                            if rows and all(r[0] == enum for r in rows):
                                return True
            return False

        it.valid_member_fact = valid_member_fact

        # a store to a header field / payload of a canonical message may break canonicity
        orig_store = it.store_attr

        def store_attr(st, base, name, val, node):
            if name in ("node_id", "child_id", "type", "ack", "sub_type", "payload") and ("canonical", base.key()) in st.facts:
                keep = name != "payload" and it.ext.is_intlike(it, st, val)
                if not keep:
                    st.drop_facts(lambda f: f == ("canonical", base.key()))
            return orig_store(st, base, name, val, node)

        it.store_attr = store_attr

    # ------------------------------------------------------------------ runs
    def run_root(self, it: Interp, func_qual: str, args: List[V], self_val: Optional[V], st: State, kwargs=None):
        info = self.p.func(func_qual)
        try:
            outs = it.run(info, args, kwargs or {}, st=st, self_val=self_val)
        except Budget as exc:
            raise AnalysisError(f"path budget exceeded analysing {func_qual} in {it.ctx.name}: {exc}") from exc
        except RecursionError as exc:
            raise AnalysisError(f"recursion limit analysing {func_qual} in {it.ctx.name}") from exc
        self.ext_used |= it.ext.used
        self.ext_unmodelled |= it.ext.unmodelled
        self.interp_steps += it.steps
        return outs


def events_of(st: State, kinds=None, names=None):
    for e in st.events:
        if kinds is not None and e.kind not in kinds:
            continue
        if names is not None and e.name not in names:
            continue
        yield e


def describe_path(outcome, limit=14) -> List[str]:
    kind, st, v = outcome
    lines = []
    for e in st.events:
        if e.kind in ("enter",):
            lines.append(f"{'  ' * (len(e.stack) - 1)}-> {e.name} (from {e.func}:{e.line})")
        elif e.kind in ("exit", "catch"):
            if e.kind == "catch":
                lines.append(f"{'  ' * len(e.stack)}caught {e.name} at {e.func}:{e.line}")
        else:
            lines.append(f"{'  ' * len(e.stack)}{e.kind} {e.name} at {e.func}:{e.line}")
    if len(lines) > limit:
        lines = lines[: limit // 2] + ["  ..."] + lines[-limit // 2 :]
    if kind == "raise":
        lines.append(f"raises {v.cls.__name__} at {v.site}: {v.what}")
    else:
        lines.append(f"{kind} {v.key() if isinstance(v, V) else v}")
    return lines
