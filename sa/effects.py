"""Store classification: which abstract stores mutate persisted state, which transient state.

Persisted state is *derived*: it is the projection the JSON encoder writes (the keys of the
two dict literals returned by MySensorsJSONEncoder.default), plus insertions into the node
map and the child maps. Everything else on Sensor / ChildSensor is transient.
"""
from __future__ import annotations

import ast
from typing import Dict, Optional, Set, Tuple

from .frontend import AnalysisError, Program, unparse
from .values import Obj, V


def json_projection(p: Program) -> Dict[str, Set[str]]:
    """{"Sensor": {...}, "ChildSensor": {...}} from MySensorsJSONEncoder.default."""
    info = p.funcs.get("persistence:MySensorsJSONEncoder.default")
    if info is None:
        raise AnalysisError("anchor vanished: persistence:MySensorsJSONEncoder.default")
    res: Dict[str, Set[str]] = {}
    for node in ast.walk(info.node):
        if isinstance(node, ast.If) and isinstance(node.test, ast.Call) and unparse(node.test.func) == "isinstance" and len(node.test.args) == 2:
            cls = unparse(node.test.args[1])
            for r in ast.walk(node):
                if isinstance(r, ast.Return) and isinstance(r.value, ast.Dict):
                    keys = {k.value for k in r.value.keys if isinstance(k, ast.Constant)}
                    res.setdefault(cls, set()).update(keys)
    if "Sensor" not in res or "ChildSensor" not in res:
        raise AnalysisError("JSON encoder projection not recognised (expected dict literals for Sensor and ChildSensor)")
    return res


def render(key) -> str:
    """Access-path rendering of a value key with item keys abstracted to [*]."""
    if not isinstance(key, tuple) or not key:
        return "?"
    tag = key[0]
    if tag == "root":
        return key[1]
    if tag == "attr":
        return f"{render(key[1])}.{key[2]}"
    if tag == "item":
        return f"{render(key[1])}[*]"
    if tag == "get":
        return f"{render(key[1])}.get(*)"
    if tag == "key":
        return f"key({render(key[1])})"
    if tag == "obj":
        return f"<{key[1].split('#')[0]}>"
    if tag == "global":
        return f"{key[1]}.{key[2]}"
    return "?"


class Classifier:
    def __init__(self, p: Program):
        proj = json_projection(p)
        self.sensor_attrs = set(proj["Sensor"]) - {"sensor_id", "children"}
        self.child_attrs = set(proj["ChildSensor"]) - {"id"}
        # private backing fields of the encoded properties
        self.sensor_store_attrs = set(self.sensor_attrs) | {"_" + a for a in self.sensor_attrs}
        self.projection = proj

    def classify(self, e) -> Optional[Tuple[str, str]]:
        """-> (category, description) for a mutation event, or None.

        categories: node-insert, child-insert, value-store, attr-store (persisted);
        desired-insert, desired-store, queue, reboot, transient (transient state).
        """
        if not isinstance(e.recv, V):
            return None
        path = render(e.recv.key())
        if e.kind == "setitem":
            if path.endswith(".sensors") or path.endswith("._sensors"):
                return ("node-insert", path)
            if path.endswith(".children"):
                return ("child-insert", path)
            if path.endswith(".new_state"):
                return ("desired-insert", path)
            if path.endswith(".values"):
                if ".new_state" in path or path.startswith("<ChildSensor>") and False:
                    return ("desired-store", path)
                if ".children" in path:
                    return ("value-store", path)
                return ("value-store?", path)
            return None
        if e.kind == "store":
            in_ctor = e.func.endswith(".__init__") or e.func.endswith(".__setstate__")
            cls = self._cls_of(e.recv, path)
            if cls == "Sensor" and not in_ctor:
                if e.name in self.sensor_store_attrs:
                    return ("attr-store", f"{path}.{e.name}")
                if e.name == "reboot":
                    return ("reboot", f"{path}.reboot")
                if e.name in ("children",):
                    return ("attr-store", f"{path}.{e.name}")
                return ("transient", f"{path}.{e.name}")
            if cls == "ChildSensor" and not in_ctor:
                if ".new_state" in path:
                    return ("desired-store", f"{path}.{e.name}")
                if e.name in self.child_attrs:
                    return ("attr-store", f"{path}.{e.name}")
            return None
        if e.kind in ("append", "appendleft", "seqpop", "extend", "clear") and path.endswith(".queue") and ".sensors" in path:
            return ("queue", f"{path} {e.kind}")
        if e.kind in ("dictpop", "clear", "delitem", "update"):
            if path.endswith(".sensors") or path.endswith(".children"):
                return ("node-remove", path)
        return None

    def _cls_of(self, recv, path: str) -> Optional[str]:
        if isinstance(recv, Obj):
            return recv.cls.split(":")[1]
        ty = getattr(recv, "ty", None)
        if isinstance(ty, tuple) and ty[0] == "cls":
            return ty[1].split(":")[1]
        return None


PERSISTED = {"node-insert", "child-insert", "value-store", "attr-store", "node-remove", "value-store?"}
