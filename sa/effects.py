"""Store classification: which abstract stores mutate persisted state, which transient state.

Persisted state is *derived*: it is the projection the JSON encoder writes (the keys of the
two dict literals returned by MySensorsJSONEncoder.default), plus insertions into the node
map and the child maps. Everything else on Sensor / ChildSensor is transient.
"""
from __future__ import annotations

import ast
from typing import Dict, Optional, Set, Tuple

from .frontend import AnalysisError, Program, unparse
from .values import Obj, V


def json_projection_by_paths(analysis):
    """The same projection from the abstract paths of MySensorsJSONEncoder.default applied to a Sensor and to a
    ChildSensor (any form the interpreter can evaluate: tables, loops, comprehensions, helpers)."""
    from .values import DictV, Sym

    res: Dict[str, Set[str]] = {}
    cond: Dict[str, Set[str]] = {}
    ctx = analysis.context(analysis.versions[-1], "serial", "sync")
    for cls, qual in (("Sensor", "sensor:Sensor"), ("ChildSensor", "sensor:ChildSensor")):
        it = analysis.new_interp(ctx)
        st = it.new_state()
        enc = Sym(("root", "ENC"), ("cls", "persistence:MySensorsJSONEncoder"))
        obj = Sym(("root", "O"), ("cls", qual))
        dicts = []
        for kind, s, v in analysis.run_root(it, "persistence:MySensorsJSONEncoder.default", [obj], enc, st):
            if kind == "val" and isinstance(v, DictV) and v.closed:
                dicts.append(v)
            else:
                return {}, {}
        if not dicts:
            return {}, {}
        keys = set().union(*[set(d.entries) for d in dicts])
        always = set.intersection(*[set(d.entries) for d in dicts])
        res[cls] = {k for k in keys if isinstance(k, str)}
        cond[cls] = res[cls] - always
        # values must be the attributes of the same name
        for d in dicts:
            for k, val in d.entries.items():
                if val.key() not in (("attr", obj.key(), k), ("attr", obj.key(), "_" + k)):
                    cond[cls].add(f"{k} (encoded from {render(val.key())})")
    return res, cond


def json_projection(p: Program, with_conditional: bool = False, analysis=None):
    """{"Sensor": {...}, "ChildSensor": {...}} from MySensorsJSONEncoder.default.

    Recognised forms per class branch: a returned dict literal, or a dict literal bound to a
    name, extended by `name[key] = ...` stores (key a constant or a loop variable over a tuple
    of constants) and returned. Keys stored under a condition are reported separately.
    """
    info = p.funcs.get("persistence:MySensorsJSONEncoder.default")
    if info is None:
        raise AnalysisError("anchor vanished: persistence:MySensorsJSONEncoder.default")
    res: Dict[str, Set[str]] = {}
    cond: Dict[str, Set[str]] = {}
    for node in ast.walk(info.node):
        if not (isinstance(node, ast.If) and isinstance(node.test, ast.Call) and unparse(node.test.func) == "isinstance" and len(node.test.args) == 2):
            continue
        cls = unparse(node.test.args[1])
        keys: Set[str] = set()
        ckeys: Set[str] = set()
        names: Dict[str, Set[str]] = {}
        for st in ast.walk(node):
            if isinstance(st, ast.Assign) and len(st.targets) == 1 and isinstance(st.targets[0], ast.Name) and isinstance(st.value, ast.Dict):
                names[st.targets[0].id] = {k.value for k in st.value.keys if isinstance(k, ast.Constant)}

        def visit(stmts, conditional, loopvars):
            for st in stmts:
                if isinstance(st, ast.For) and isinstance(st.target, ast.Name) and isinstance(st.iter, (ast.Tuple, ast.List)):
                    lv = dict(loopvars)
                    lv[st.target.id] = {e.value for e in st.iter.elts if isinstance(e, ast.Constant)}
                    visit(st.body, conditional, lv)
                elif isinstance(st, ast.If):
                    visit(st.body, True, loopvars)
                    visit(st.orelse, True, loopvars)
                elif isinstance(st, ast.Assign):
                    for t in st.targets:
                        if isinstance(t, ast.Subscript) and isinstance(t.value, ast.Name) and t.value.id in names:
                            ks = set()
                            if isinstance(t.slice, ast.Constant):
                                ks = {t.slice.value}
                            elif isinstance(t.slice, ast.Name) and t.slice.id in loopvars:
                                ks = set(loopvars[t.slice.id])
                            names[t.value.id] |= ks
                            if conditional:
                                ckeys.update(ks)
                elif isinstance(st, (ast.With, ast.Try)):
                    visit(getattr(st, "body", []), conditional, loopvars)

        visit(node.body, False, {})
        def comp_keys(dc):
            """{attr: getattr(o, attr) for attr in <tuple of constants or module constant>}"""
            if not (isinstance(dc, ast.DictComp) and len(dc.generators) == 1 and isinstance(dc.generators[0].target, ast.Name)):
                return None
            var = dc.generators[0].target.id
            it = dc.generators[0].iter
            if isinstance(it, ast.Name) and it.id in info.module.assigns:
                it = info.module.assigns[it.id]
            if not isinstance(it, (ast.Tuple, ast.List)) or not all(isinstance(e, ast.Constant) for e in it.elts):
                return None
            if not (isinstance(dc.key, ast.Name) and dc.key.id == var):
                return None
            if dc.generators[0].ifs:
                ckeys.update(e.value for e in it.elts)
            return {e.value for e in it.elts}

        for st in ast.walk(node):
            if isinstance(st, ast.Assign) and len(st.targets) == 1 and isinstance(st.targets[0], ast.Name) and isinstance(st.value, ast.DictComp):
                ck = comp_keys(st.value)
                if ck is not None:
                    names[st.targets[0].id] = set(ck)
        for r in ast.walk(node):
            if isinstance(r, ast.Return):
                if isinstance(r.value, ast.Dict):
                    keys |= {k.value for k in r.value.keys if isinstance(k, ast.Constant)}
                elif isinstance(r.value, ast.DictComp):
                    ck = comp_keys(r.value)
                    if ck is not None:
                        keys |= ck
                elif isinstance(r.value, ast.Name) and r.value.id in names:
                    keys |= names[r.value.id]
        if keys:
            res.setdefault(cls, set()).update(keys)
            cond.setdefault(cls, set()).update(ckeys)
    if ("Sensor" not in res or "ChildSensor" not in res) and analysis is not None:
        res, cond = json_projection_by_paths(analysis)
    if "Sensor" not in res or "ChildSensor" not in res:
        raise AnalysisError("JSON encoder projection not recognised (expected a dict per class branch for Sensor and ChildSensor)")
    if with_conditional:
        return res, cond
    return res


def render(key) -> str:
    """Access-path rendering of a value key with item keys abstracted to [*]."""
    if not isinstance(key, tuple) or not key:
        return "?"
    tag = key[0]
    if tag == "root":
        return key[1]
    if tag == "attr":
        return f"{render(key[1])}.{key[2]}"
    if tag == "item":
        return f"{render(key[1])}[*]"
    if tag == "get":
        return f"{render(key[1])}.get(*)"
    if tag == "key":
        return f"key({render(key[1])})"
    if tag == "obj":
        return f"<{key[1].split('#')[0]}>"
    if tag == "global":
        return f"{key[1]}.{key[2]}"
    return "?"


class Classifier:
    def __init__(self, p: Program, analysis=None):
        proj = json_projection(p, analysis=analysis)
        self.sensor_attrs = set(proj["Sensor"]) - {"sensor_id", "children"}
        self.child_attrs = set(proj["ChildSensor"]) - {"id"}
        # private backing fields of the encoded properties
        self.sensor_store_attrs = set(self.sensor_attrs) | {"_" + a for a in self.sensor_attrs}
        self.projection = proj

    def classify(self, e) -> Optional[Tuple[str, str]]:
        """-> (category, description) for a mutation event, or None.

        categories: node-insert, child-insert, value-store, attr-store (persisted);
        desired-insert, desired-store, queue, reboot, transient (transient state).
        """
        if not isinstance(e.recv, V):
            return None
        path = render(e.recv.key())
        if e.kind == "setitem":
            if path.endswith(".sensors") or path.endswith("._sensors"):
                return ("node-insert", path)
            if path.endswith(".children"):
                return ("child-insert", path)
            if path.endswith(".new_state"):
                return ("desired-insert", path)
            if path.endswith(".values"):
                if ".new_state" in path or path.startswith("<ChildSensor>") and False:
                    return ("desired-store", path)
                if ".children" in path:
                    return ("value-store", path)
                return ("value-store?", path)
            return None
        if e.kind == "store":
            in_ctor = any(q.endswith(".__init__") or q.endswith(".__setstate__") for q in (e.stack or ())) or e.func.endswith(".__init__") or e.func.endswith(".__setstate__")
            cls = self._cls_of(e.recv, path)
            if cls == "Sensor" and not in_ctor:
                if e.name in self.sensor_store_attrs:
                    return ("attr-store", f"{path}.{e.name}")
                if e.name == "reboot":
                    return ("reboot", f"{path}.reboot")
                if e.name in ("children",):
                    return ("attr-store", f"{path}.{e.name}")
                return ("transient", f"{path}.{e.name}")
            if cls == "ChildSensor" and not in_ctor:
                if ".new_state" in path:
                    return ("desired-store", f"{path}.{e.name}")
                if e.name in self.child_attrs:
                    return ("attr-store", f"{path}.{e.name}")
            return None
        if e.kind in ("append", "appendleft", "seqpop", "extend", "clear") and path.endswith(".queue") and ".sensors" in path:
            return ("queue", f"{path} {e.kind}")
        if e.kind in ("dictpop", "clear", "delitem", "update"):
            if path.endswith(".sensors") or path.endswith(".children"):
                return ("node-remove", path)
        return None

    def _cls_of(self, recv, path: str) -> Optional[str]:
        if isinstance(recv, Obj):
            return recv.cls.split(":")[1]
        ty = getattr(recv, "ty", None)
        if isinstance(ty, tuple) and ty[0] == "cls":
            return ty[1].split(":")[1]
        return None


PERSISTED = {"node-insert", "child-insert", "value-store", "attr-store", "node-remove", "value-store?"}
