"""Payload-rule descriptor algebra: acceptance-relevant normal form of voluptuous validators.

Input: the structural description produced by sa/reflect.py (or rebuilt from abstract
ExtObj trees). Output: a small JSON-able normal form in which acceptance-irrelevant detail
(msg=, a trailing Coerce(str), list vs tuple containers, nesting of All) has been removed.
"""
from __future__ import annotations

from typing import Any, List


def _flatten_all(items: List[dict]) -> List[dict]:
    out = []
    for it in items:
        if it.get("k") == "All":
            out.extend(_flatten_all(it["v"]))
        else:
            out.append(it)
    return out


def norm(d: dict) -> Any:
    k = d.get("k")
    if k == "type":
        if d["name"] == "str":
            return ["ANY_STR"]
        return ["TYPE", d["name"]]
    if k == "lit":
        if d["v"] == "":
            return ["EMPTY"]
        return ["LIT", d["v"]]
    if k == "In":
        items = d.get("items")
        if items is None:
            return ["IN", "?"]
        vals = []
        for it in items:
            if it.get("k") in ("const", "enum"):
                vals.append(it["v"] if it["k"] == "const" else it["value"])
            else:
                vals.append(repr(it))
        return ["IN", sorted(set(vals), key=lambda x: (str(type(x)), str(x)))]
    if k == "Coerce":
        return {"int": ["INT"], "float": ["FLOAT"], "str": ["STR_COERCE"]}.get(d["type"], ["COERCE", d["type"]])
    if k == "Range":
        return ["RANGE", d.get("min"), d.get("max"), bool(d.get("min_included", True)), bool(d.get("max_included", True))]
    if k == "func":
        return ["FUNC", d["name"].split(":")[-1]]
    if k == "Any":
        alts = [norm(x) for x in d["v"]]
        if ["ANY_STR"] in alts:
            return ["ANY_STR"]  # payloads are strings: an `str` alternative accepts everything
        uniq = []
        for a in alts:
            if a not in uniq:
                uniq.append(a)
        uniq.sort(key=repr)
        return uniq[0] if len(uniq) == 1 else ["ANY", uniq]
    if k == "All":
        seq = [norm(x) for x in _flatten_all(d["v"])]
        while seq and seq[-1] == ["STR_COERCE"]:
            seq.pop()
        # leading `str` type check is acceptance-irrelevant for string payloads
        while len(seq) > 1 and seq[0] == ["ANY_STR"]:
            seq.pop(0)
        if len(seq) == 2 and seq[0] in (["INT"], ["FLOAT"]) and seq[1][0] == "RANGE":
            r = seq[1]
            return ["INT_RANGE" if seq[0] == ["INT"] else "FLOAT_RANGE", r[1], r[2]] + ([] if (r[3] and r[4]) else [r[3], r[4]])
        if len(seq) == 1:
            return seq[0]
        if not seq:
            return ["ANY_STR"]
        return ["ALL", seq]
    if k == "Length":
        return ["LENGTH", d.get("min"), d.get("max")]
    if k == "Match":
        return ["MATCH", d.get("pattern")]
    return ["OTHER", d]


def show(n: Any) -> str:
    return repr(n)
