"""Model of external callables: documented raise sets and a few postconditions.

This table is part of the trusted base and is printed (by name) in the evidence of the
checks that rely on it. Every entry encodes documented behaviour of the standard library or
of a third-party dependency; nothing here describes code of the package under analysis.
"""
from __future__ import annotations

import ast
import os
import asyncio
import binascii
import builtins
import json
import pickle
import socket
import struct
from typing import Dict, List, Optional

from .frontend import AnalysisError, unparse
from .values import (
    BoolV,
    ClassV,
    Const,
    DictV,
    EnumMemV,
    ExcV,
    ExtObj,
    ExtV,
    FuncV,
    BoundV,
    FutureV,
    ListV,
    ModV,
    Obj,
    State,
    Sym,
    TupleV,
    Unknown,
    V,
)

try:  # exception classes of the dependencies (type information only)
    import voluptuous as _vol
except Exception:  # pragma: no cover
    _vol = None
try:
    import serial as _serial
except Exception:  # pragma: no cover
    _serial = None
try:
    import awesomeversion as _aw
except Exception:  # pragma: no cover
    _aw = None
try:
    import intelhex as _ih
except Exception:  # pragma: no cover
    _ih = None


class _Stub(Exception):
    pass


def _cls(mod, name, default=_Stub):
    return getattr(mod, name, default) if mod is not None else default


VOL_INVALID = _cls(_vol, "Invalid")
SERIAL_EXC = _cls(_serial, "SerialException", OSError)
AW_EXC = _cls(_aw, "AwesomeVersionException")
IH_EXC = _cls(_ih, "IntelHexError")

EXC_NAMESPACE = {
    "vol": _vol,
    "voluptuous": _vol,
    "binascii": binascii,
    "struct": struct,
    "pickle": pickle,
    "json": json,
    "serial": _serial,
    "socket": socket,
    "asyncio": asyncio,
    "awesomeversion": _aw,
    "intelhex": _ih,
}

# external module aliases as they appear after import resolution
MODULE_ALIASES = {"voluptuous": "vol"}

# ---------------------------------------------------------------------------------------
# Raise sets of external functions / methods. Key: dotted name as resolved by the front end
# (module functions) or "<type>.<method>" for methods of modelled receiver types.
# Value: tuple of exception classes. Absent => looked up in TOTAL or reported as unmodelled.
RAISES: Dict[str, tuple] = {
    "binascii.unhexlify": (binascii.Error, ValueError),
    "struct.unpack": (struct.error,),
    "struct.pack": (struct.error,),
    "pickle.load": (pickle.UnpicklingError, EOFError, AttributeError, ImportError, IndexError, ValueError, OSError),
    "pickle.dump": (pickle.PicklingError, RuntimeError, OSError, TypeError, AttributeError),
    "json.load": (json.JSONDecodeError, UnicodeDecodeError, OSError),
    "json.dump": (RuntimeError, OSError, TypeError, ValueError),
    "builtins.open": (OSError,),
    "os.rename": (OSError,),
    "os.open": (OSError,),
    "os.fdopen": (OSError,),
    "os.replace": (OSError,),
    "os.remove": (OSError,),
    "os.unlink": (OSError,),
    "os.fsync": (OSError,),
    "shutil.move": (OSError,),
    "shutil.copy": (OSError,),
    "shutil.copyfile": (OSError,),
    "file.write": (OSError,),
    "file.flush": (OSError,),
    "file.read": (OSError, UnicodeDecodeError),
    "file.fileno": (),
    "file.close": (OSError,),
    "exttransport.write": (OSError,),
    "exttransport.close": (),  # A-CLOSE
    "serial.serial_for_url": (SERIAL_EXC,),
    "socket.create_connection": (socket.timeout, OSError),
    "socket.socket.sendall": (OSError,),
    "socket.socket.recv": (OSError,),
    "select.select": (OSError, ValueError),
    "serial_asyncio.create_serial_connection": (SERIAL_EXC,),
    "asyncio.wait_for": (asyncio.TimeoutError, OSError),
    "ipaddress.ip_address": (ValueError,),
    "intelhex.IntelHex.fromfile": (IH_EXC, TypeError, ValueError, OSError),
    "intelhex.IntelHex.tobinstr": (),
    "awesomeversion.AwesomeVersion": (),
    "collections.deque": (),
    "importlib.import_module": (),  # CONST_VERSIONS values are checked by C03-R6
    "deque.popleft": (IndexError,),
    "deque.pop": (IndexError,),
    "list.pop": (IndexError,),
    "list.remove": (ValueError,),
    "list.index": (ValueError,),
    "str.index": (ValueError,),
    "dict.popitem": (KeyError,),
    "builtins.next": (StopIteration,),
    "builtins.max": (ValueError,),
    "builtins.min": (ValueError,),
}

# Names that never raise for the argument types this package passes (documented total).
SOCKET_METHODS = {"shutdown", "sendall", "send", "recv", "recv_into", "connect", "getpeername", "getsockname", "setsockopt"}

PURE_STR_METHODS = {"startswith", "endswith", "lower", "upper", "strip", "lstrip", "rstrip", "isdigit", "isalpha", "replace", "removeprefix", "removesuffix", "title", "capitalize", "zfill", "count", "find", "rfind"}

TOTAL_PREFIXES = (
    "logging.",
    "logger.",
    "os.path.",
    "time.",
    "calendar.",
    "timeit.",
    "threading.",
    "asyncio.get_running_loop",
    "asyncio.get_event_loop",
    "asyncio.sleep",
    "asyncio.ensure_future",
    "asyncio.Task.",
    "asyncio.loop.",
    "voluptuous.",
    "vol.",
    "binascii.hexlify",
    "crcmod.",
    "serial.threaded.",
    "serial.tools.",
    "getmac.",
    "os.access",
    "os.getcwd",
    "str.",
    "bytes.",
    "dict.",
    "deque.",
    "list.",
    "tuple.",
    "int.",
    "float.",
    "bool.",
    "set.",
    "dict_items.",
    "dict_values.",
    "dict_keys.",
    "object.",
    "functools.",
    "pathlib.",
    "intelhex.IntelHex",
    "select.",
)

# Pure, total externals whose calls are not recorded in the event trace (noise).
NOISE_PREFIXES = (
    "logger.", "logging.", "voluptuous.", "vol.", "os.path.", "timeit.", "calendar.", "time.time",
    "time.localtime", "time.gmtime", "awesomeversion.", "crcmod.", "str.", "bytes.",
    "int.", "float.", "tuple.", "object.", "dict_items.", "dict_values.", "dict_keys.",
)

TOTAL_BUILTINS = {
    "str", "repr", "bool", "len", "isinstance", "issubclass", "hasattr", "callable", "id", "hash", "print",
    "sorted", "list", "tuple", "dict", "set", "frozenset", "range", "enumerate", "zip", "all", "any", "iter",
    "type", "format", "abs", "super", "object", "bytes", "bytearray", "reversed", "map", "filter", "vars", "sum",
}


class ExtModel:
    def __init__(self):
        self.used = set()
        self.unmodelled = set()

    # ------------------------------------------------------------ exceptions
    def resolve_exception(self, dotted: str, mod):
        head, _, rest = dotted.partition(".")
        if not rest:
            cls = getattr(builtins, head, None)
            if isinstance(cls, type) and issubclass(cls, BaseException):
                return cls
            # imported name, e.g. "from intelhex import IntelHexError"
            if head in mod.imports:
                target, attr = mod.imports[head]
                m = EXC_NAMESPACE.get(target.split(".")[0])
                obj = m
                for part in target.split(".")[1:] + ([attr] if attr else []):
                    obj = getattr(obj, part, None)
                if isinstance(obj, type) and issubclass(obj, BaseException):
                    return obj
            return None
        target = head
        if head in mod.imports:
            target = mod.imports[head][0]
            if mod.imports[head][1]:
                target = target + "." + mod.imports[head][1]
        obj = EXC_NAMESPACE.get(target.split(".")[0])
        for part in target.split(".")[1:] + rest.split("."):
            obj = getattr(obj, part, None)
        if isinstance(obj, type) and issubclass(obj, BaseException):
            return obj
        return None

    # ----------------------------------------------------------------- names
    def name_value(self, dotted: str) -> V:
        if dotted.startswith("builtins."):
            name = dotted[9:]
            obj = getattr(builtins, name, None)
            if isinstance(obj, type) and issubclass(obj, BaseException):
                return ExtV(dotted)
            return ExtV(dotted)
        # modules
        if dotted in ("os", "os.path", "time", "calendar", "logging", "threading", "asyncio", "struct", "binascii", "json", "pickle", "socket", "select", "serial", "serial.threaded", "serial.tools", "serial.tools.list_ports", "serial_asyncio", "ipaddress", "voluptuous", "crcmod", "crcmod.predefined", "importlib", "shutil", "tempfile", "functools", "pathlib"):
            return ModV("ext:" + dotted)
        return ExtV(dotted)

    def module_attr(self, modname: str, name: str) -> V:
        full = f"{modname}.{name}"
        if full in ("os.path", "serial.threaded", "serial.tools", "serial.tools.list_ports", "crcmod.predefined", "voluptuous.humanize"):
            return ModV("ext:" + full)
        if modname == "os" and name in ("W_OK", "R_OK", "X_OK", "F_OK"):
            return Const({"F_OK": 0, "R_OK": 4, "W_OK": 2, "X_OK": 1}[name])
        if modname == "os" and name.startswith("O_") and isinstance(getattr(os, name, None), int):
            return Const(getattr(os, name))
        if modname == "pickle" and name == "HIGHEST_PROTOCOL":
            return Const(pickle.HIGHEST_PROTOCOL)
        return ExtV(full)

    def global_assign(self, interp, mod, name, expr) -> Optional[V]:
        """Abstract value of a module-level `NAME = <non-literal>`."""
        if isinstance(expr, ast.Call):
            fn = unparse(expr.func)
            if fn == "logging.getLogger":
                return ExtObj("logger", "logger")
            if fn == "Registry":
                regs = interp.refl.get("registries", {})
                if name in regs:
                    return self.registry_value(interp, regs[name], name)
            if fn.startswith("vol."):
                obj = ExtObj(f"{mod.label}.{name}", "vol.validator")
                # how the validator was built (vol.All(vol.Coerce(int), ...)), for rules that normalise validators
                anchor = next((f for f in interp.p.funcs.values() if f.module is mod and f.parent is None and not isinstance(f.node, ast.Lambda)), None)
                if anchor is not None:
                    s0 = interp.new_state()
                    s0.frames = ({"__func__": anchor, "__closure__": None},)
                    try:
                        outs = interp.ev(expr, s0)
                    except Exception:  # the structured form is optional
                        outs = []
                    if len(outs) == 1 and outs[0][0] == "val" and isinstance(outs[0][2], ExtObj) and outs[0][2].cls.startswith("vol."):
                        obj.built = outs[0][2]
                return obj
        if isinstance(expr, (ast.Dict, ast.List, ast.Tuple, ast.Set)):
            ty = {ast.Dict: ("dict", None, None), ast.List: "list", ast.Tuple: "tuple", ast.Set: "set"}[type(expr)]
            return Sym(("global", mod.label, name), ty)
        return None

    def registry_value(self, interp, mapping: Dict[str, str], label: str) -> DictV:
        entries = {}
        for key, fq in mapping.items():
            modname, _, qn = fq.partition(":")
            m = interp.p.module_of_dotted(modname)
            info = interp.p.funcs.get(f"{m.label}:{qn}") if m is not None else None
            if info is None:
                # bound methods installed by set_handler are added by the context, not here
                entries[key] = Unknown("callable", label=f"handler:{fq}")
            else:
                entries[key] = FuncV(info)
        return DictV(entries, closed=True, label=f"registry:{label}")

    # ------------------------------------------------------------ attributes
    def type_tag(self, interp, base: V) -> str:
        if isinstance(base, Const):
            return type(base.value).__name__
        if isinstance(base, DictV):
            return "dict"
        if isinstance(base, ListV):
            return "list"
        if isinstance(base, TupleV):
            return "tuple"
        if isinstance(base, ExtObj):
            return base.cls
        if isinstance(base, ExtV):
            return "?"
        ty = interp.ty_of(base)
        if isinstance(ty, tuple):
            if ty[0] in ("dict", "deque"):
                return ty[0]
            if ty[0] == "cls":
                return ty[1]
        if isinstance(ty, str):
            if ty.startswith("ext:"):
                return ty[4:]
            return ty
        return "?"

    def ext_attr(self, interp, st, base: V, name: str, node) -> V:
        tag = self.type_tag(interp, base)
        if tag == "registry" and name in ("get",):
            return ExtV("dict." + name, base)
        return ExtV(f"{tag}.{name}", base)

    # --------------------------------------------------------------- helpers
    def _raise(self, interp, st, cls, node, what=""):
        return interp.raise_(st, cls, node, what)

    def _val(self, st, v):
        return ("val", st, v)

    def _site(self, interp, st, node):
        f, l = interp.where(st, node)
        return f"{f}:{l}"

    def is_intlike(self, interp, st, v: V) -> bool:
        if isinstance(v, Const):
            return isinstance(v.value, (int, bool)) and v.value is not None
        if isinstance(v, EnumMemV):
            return True
        ty = getattr(v, "ty", None)
        return ty in ("int", "bool") and not getattr(v, "nullable", False)

    def is_strlike(self, v: V) -> bool:
        if isinstance(v, Const):
            return isinstance(v.value, str)
        return getattr(v, "ty", None) == "str" and not getattr(v, "nullable", False)

    # -------------------------------------------------------------- calling
    def call_extobj(self, interp, st, fn, args, kwargs, node):
        if fn.cls.startswith("vol.") or fn.cls == "refl.validator":
            return self._call_validator(interp, st, fn, args, node)
        interp.emit(st, "call", f"{fn.cls}.__call__", node, recv=fn, args=args)
        return [("val", st, Unknown(label=f"res:{self._site(interp, st, node)}"))]

    def call_user_callback(self, interp, st, fn, args, kwargs, node):
        interp.emit(st, "cb", unparse(getattr(node, "func", node)), node, recv=fn, args=args, with_facts=True)
        s_raise = st.copy()
        return [
            self._raise(interp, s_raise, Exception, node, "user callback may raise anything"),
            ("val", st, Unknown(label=f"cbres:{self._site(interp, st, node)}")),
        ]

    def call(self, interp, st: State, fn: ExtV, args: List[V], kwargs: Dict[str, V], node):
        name = fn.name
        self.used.add(name)
        recv = fn.recv
        # receivers that may be None
        if recv is not None:
            nn = interp.is_none(st, recv)
            if nn is True:
                return [self._raise(interp, st, AttributeError, node, f"{unparse(node)[:60]}: receiver is None")]
        handler = getattr(self, "m_" + name.replace(".", "_").replace("?", "any"), None)
        if handler is not None:
            return handler(interp, st, recv, args, kwargs, node)
        short = name.split(".")[-1]
        if short == "cancel" and recv is not None and not args:
            st.add_fact(("cancelled", recv.key()))
        # pure methods of a constant string with constant arguments: folded
        if isinstance(recv, Const) and isinstance(recv.value, str) and not kwargs and short in PURE_STR_METHODS and all(isinstance(a, Const) and isinstance(a.value, (str, int, tuple, type(None))) for a in args):
            try:
                return [("val", st, Const(getattr(recv.value, short)(*[a.value for a in args])))]
            except (ValueError, TypeError, IndexError):
                pass
        if name.startswith("builtins."):
            bname = name[9:]
            obj = getattr(builtins, bname, None)
            if isinstance(obj, type) and issubclass(obj, BaseException):
                return [("val", st, ExcV(obj, self._site(interp, st, node), "constructed"))]
            h = getattr(self, "b_" + bname, None)
            if h is not None:
                return h(interp, st, args, kwargs, node)
            if bname in TOTAL_BUILTINS:
                return [("val", st, Unknown(label=f"{bname}:{self._site(interp, st, node)}"))]
        outs = []
        if recv is not None and name.split(".")[0] in ("?", "dict", "deque", "list", "str", "registry", "tuple", "set", "bytes", "fwrec"):
            # container / string methods: fact-aware generic models by method name
            generic = getattr(self, "g_" + short, None)
            if generic is not None:
                return generic(interp, st, recv, args, kwargs, node)
        raises = RAISES.get(name)
        if raises is None and recv is not None and short in SOCKET_METHODS and "sock" in repr(recv.key()):
            raises = (OSError,)  # operations on a socket object fail with OSError (closed / reset / timed out)
        if raises is None:
            if any(name.startswith(p) for p in TOTAL_PREFIXES) or name.startswith("?."):
                raises = ()
                if name.startswith("?."):
                    self.unmodelled.add(name)
                    interp.emit(st, "unmodelled", name, node, recv=recv, args=args)
            else:
                self.unmodelled.add(name)
                interp.emit(st, "unmodelled", name, node, recv=recv, args=args)
                raises = ()
        # the call event is recorded before the outcomes fork: a failing operation was still attempted
        if not any(name.startswith(p) for p in NOISE_PREFIXES):
            interp.emit(st, "call", name, node, recv=recv, args=args, kwargs=kwargs, with_facts=True)
        for exc in raises:
            outs.append(self._raise(interp, st.copy(), exc, node, f"{name} may raise {exc.__name__}"))
        outs.append(("val", st, self.result_of(interp, st, name, recv, args, kwargs, node)))
        return outs

    def result_of(self, interp, st, name, recv, args, kwargs, node) -> V:
        site = self._site(interp, st, node)
        if name == "collections.deque":
            return ExtObj(f"deque@{site}", "deque", args, kwargs)
        if name in ("threading.Timer", "threading.Thread", "threading.Event", "threading.Lock", "serial.threaded.ReaderThread", "intelhex.IntelHex", "awesomeversion.AwesomeVersion", "crcmod.predefined.Crc"):
            return ExtObj(f"{name}@{site}", name, args, kwargs)
        if name.startswith("voluptuous.") or name.startswith("vol."):
            short = name.split(".", 1)[1]
            if short in ("Schema", "All", "Any", "In", "Coerce", "Range", "Object", "Length", "Match", "Optional", "Required"):
                return ExtObj(f"vol.{short}@{site}", f"vol.{short}", args, kwargs)
            if short.startswith("humanize"):
                return Unknown("str", label=f"humanize:{site}")
        if name == "builtins.open":
            return ExtObj(f"file@{site}", "file", args, kwargs)
        if name == "os.open":
            return ExtObj(f"fd@{site}", "fd", args, kwargs)
        if name == "os.fdopen":
            return ExtObj(f"file@{site}", "file", args, kwargs)
        if name == "asyncio.get_running_loop" or name == "asyncio.get_event_loop":
            return ExtObj("loop", "asyncio.loop")
        if name == "os.path.realpath" or name == "os.path.dirname" or name == "os.path.join" or name == "os.path.abspath":
            return Unknown("str", label=f"{name}({','.join(repr(a.key()) for a in args)})")
        if name == "os.path.splitext":
            return TupleV([Unknown("str", label=f"splitext0({args[0].key()!r})"), Unknown("str", label=f"splitext1({args[0].key()!r})")])
        if name in ("os.path.isfile", "os.path.exists", "os.access"):
            return Unknown("bool", label=f"{name}({','.join(repr(a.key()) for a in args)})")
        if name == "file.fileno":
            return Unknown("int", label=f"fileno({recv.key()!r})")
        if name == "struct.unpack":
            n = None
            if args and isinstance(args[0], Const) and isinstance(args[0].value, str):
                try:
                    n = len(struct.unpack(args[0].value, bytes(struct.calcsize(args[0].value))))
                except struct.error:
                    n = None
            if n is not None:
                return TupleV([Unknown("int", label=f"unpack{i}:{site}") for i in range(n)])
            return Unknown("tuple", label=f"unpack:{site}")
        if name in ("binascii.hexlify", "binascii.unhexlify", "struct.pack"):
            return Unknown("bytes", label=f"{name}:{site}")
        if name in ("time.time", "timeit.default_timer"):
            return Unknown("float", label=f"{name}:{site}")
        if name == "calendar.timegm":
            return Unknown("int", label=f"timegm:{site}")
        if name == "pickle.load" or name == "json.load":
            return Unknown("dict", label=f"{name}:{site}")
        return Unknown(label=f"{name}:{site}")

    # ------------------------------------------------------------ builtins
    def b_int(self, interp, st, args, kwargs, node):
        if not args:
            return [("val", st, Const(0))]
        a = args[0]
        if isinstance(a, Const) and isinstance(a.value, (int, bool, float)):
            return [("val", st, Const(int(a.value)))]
        if isinstance(a, Const) and isinstance(a.value, str) and len(args) == 1:
            try:
                return [("val", st, Const(int(a.value)))]
            except ValueError:
                return [self._raise(interp, st, ValueError, node, f"int({a.value!r})")]
        if isinstance(a, EnumMemV):
            return [("val", st, a)]
        if self.is_intlike(interp, st, a):
            return [("val", st, a)]
        outs = [self._raise(interp, st.copy(), ValueError, node, f"int({unparse(node.args[0])[:40]}) of a non-numeric string")]
        if not self.is_strlike(a) and getattr(a, "ty", None) not in ("float", "bytes"):
            outs.append(self._raise(interp, st.copy(), TypeError, node, f"int({unparse(node.args[0])[:40]}) of a value that may not be a number or string"))
        outs.append(("val", st, Unknown("int", label=f"int({a.key()!r})")))
        return outs

    def b_float(self, interp, st, args, kwargs, node):
        a = args[0] if args else Const(0.0)
        if isinstance(a, Const) and isinstance(a.value, (int, float)):
            return [("val", st, Const(float(a.value)))]
        outs = [self._raise(interp, st.copy(), ValueError, node, "float() of a non-numeric string")]
        if not self.is_strlike(a):
            outs.append(self._raise(interp, st.copy(), TypeError, node, "float() of a non-number"))
        outs.append(("val", st, Unknown("float", label=f"float({a.key()!r})")))
        return outs

    def b_str(self, interp, st, args, kwargs, node):
        if not args:
            return [("val", st, Const(""))]
        a = args[0]
        if isinstance(a, Const) and isinstance(a.value, (str, int)):
            return [("val", st, Const(str(a.value)))]
        if self.is_strlike(a):
            return [("val", st, a)]
        return [("val", st, Unknown("str", label=f"str({a.key()!r})"))]

    def b_map(self, interp, st, args, kwargs, node):
        """map(f, iterable): element-wise for an exactly known iterable and a total builtin conversion (str)."""
        site = self._site(interp, st, node)
        if len(args) == 2 and isinstance(args[0], ExtV) and args[0].name == "builtins.str":
            items = interp._exact_items(args[1])
            if items is not None:
                out = []
                for it_ in items:
                    r = self.b_str(interp, st, [it_], {}, node)
                    out.append(r[0][2])
                return [("val", st, ListV(out, label=f"map:{site}"))]
            return [("val", st, ListV(None, elem=Unknown("str", label=f"str(elem:{args[1].key()!r})"), label=f"map:{site}"))]
        if len(args) == 2 and isinstance(args[0], V) and getattr(args[0], "ty", None) in ("callable",) or (len(args) == 2 and isinstance(args[0], ExtV)):
            # map(f, xs) for any callable: like [f(x) for x in xs] (consumed where it is built: list(map(...)))
            fn, src = args
            items = interp._exact_items(src)
            if items is not None and len(items) <= 12:
                outs = [("val", st, [])]
                for it_ in items:
                    nxt = []
                    for k, s2, acc in outs:
                        if k != "val":
                            nxt.append((k, s2, acc))
                            continue
                        for k3, s3, v3 in interp.call(s2, fn, [it_], {}, node):
                            nxt.append((k3, s3, acc + [v3]) if k3 == "val" else (k3, s3, v3))
                    outs = nxt
                return [(k, s2, ListV(acc, label=f"map:{site}")) if k == "val" else (k, s2, acc) for k, s2, acc in outs]
            elem = self.iter_elem(interp, st, src, node, 0)
            res = []
            for k, s2, v in interp.call(st, fn, [elem], {}, node):
                if k == "val":
                    lst = ListV(None, elem=v, label=f"map:{site}")
                    for a in ("minlen", "maxlen", "exactlen"):
                        if getattr(src, a, None) is not None:
                            setattr(lst, a, getattr(src, a))
                    res.append(("val", s2, lst))
                else:
                    res.append((k, s2, v))
            return res
        return [("val", st, Unknown(label=f"map:{site}"))]

    def b_bool(self, interp, st, args, kwargs, node):
        if not args:
            return [("val", st, Const(False))]
        t = interp.truth(st, args[0])
        if t is not None:
            return [("val", st, Const(t))]
        return [("val", st, BoolV(interp.atom_of(args[0])))]

    def b_len(self, interp, st, args, kwargs, node):
        a = args[0]
        if isinstance(a, (TupleV,)) or (isinstance(a, ListV) and a.items is not None):
            return [("val", st, Const(len(a.items)))]
        if isinstance(a, Const) and isinstance(a.value, (str, bytes, tuple, list, dict)):
            return [("val", st, Const(len(a.value)))]
        return [("val", st, Unknown("int", label=f"len({a.key()!r})"))]

    def b_isinstance(self, interp, st, args, kwargs, node):
        a, c = args[0], args[1]
        ty = interp.ty_of(a)
        target = None
        if isinstance(c, ClassV):
            target = c.qual
            if isinstance(ty, tuple) and ty[0] == "cls" and ty[1] in interp.p.classes:
                return [("val", st, Const(target in interp.p.mro(ty[1])))]
            if isinstance(a, (Const, TupleV, ListV, DictV, EnumMemV, BoolV, FuncV, BoundV)):
                return [("val", st, Const(False))]
        if isinstance(c, ExtV) and c.name.startswith("builtins."):
            tname = c.name[9:]
            tag = self.type_tag(interp, a)
            if tag != "?" and not getattr(a, "nullable", False):
                simple = {"str": "str", "int": "int", "dict": "dict", "list": "list", "tuple": "tuple", "bytes": "bytes", "float": "float", "bool": "bool"}
                if tag in simple.values() or ":" in tag:
                    return [("val", st, Const(tag == tname or (tname == "int" and tag == "bool")))]
        return [("val", st, BoolV(("isinstance", a.key(), c.key())))]

    def b_hasattr(self, interp, st, args, kwargs, node):
        return [("val", st, BoolV(("hasattr", args[0].key(), args[1].key())))]

    def b_property(self, interp, st, args, kwargs, node):
        # property(fget, fset, ...): kept as an object; attribute loads / stores on instances go through it
        return [("val", st, ExtObj(f"property@{self._site(interp, st, node)}", "property", args, kwargs))]

    def b_getattr(self, interp, st, args, kwargs, node):
        if len(args) >= 2 and isinstance(args[1], Const) and isinstance(args[1].value, str):
            outs = interp.load_attr(st, args[0], args[1].value, node)
            return outs
        outs = []
        if len(args) < 3:
            outs.append(self._raise(interp, st.copy(), AttributeError, node, "getattr without default"))
        # dynamic dispatch by computed name: resolved by the rule that knows the pattern
        interp.emit(st, "getattr", "getattr", node, recv=args[0], args=args[1:])
        outs.append(("val", st, Unknown("callable", label=f"getattr:{self._site(interp, st, node)}")))
        return outs

    def b_setattr(self, interp, st, args, kwargs, node):
        if isinstance(args[1], Const) and isinstance(args[1].value, str):
            return [("val" if k == "next" else k, s, Const(None) if k == "next" else v) for k, s, v in interp.store_attr(st, args[0], args[1].value, args[2], node)]
        interp.emit(st, "store", "?", node, recv=args[0], args=(args[2],), extra="setattr-dynamic", with_facts=True)
        return [("val", st, Const(None))]

    def b_next(self, interp, st, args, kwargs, node):
        outs = []
        if len(args) < 2:
            outs.append(self._raise(interp, st.copy(), StopIteration, node))
        outs.append(("val", st, Unknown(label=f"next:{self._site(interp, st, node)}", nullable=len(args) >= 2 and isinstance(args[1], Const) and args[1].value is None)))
        return outs

    def _minmax(self, interp, st, args, kwargs, node):
        outs = []
        if len(args) == 1 and "default" not in kwargs:
            a = args[0]
            src = a.args[0] if isinstance(a, ExtObj) and a.args else a
            if not (interp.truth(st, src) is True):
                outs.append(self._raise(interp, st.copy(), ValueError, node, "max()/min() of a possibly empty sequence"))
        res = Unknown("int", label=f"{unparse(node)[:40]}")
        if len(args) == 1 and unparse(node.func) == "max":
            d = None
            if isinstance(args[0], ExtObj) and args[0].cls == "dict_keys" and args[0].args:
                d = args[0].args[0]
            elif isinstance(interp.ty_of(args[0]), tuple) and interp.ty_of(args[0])[0] == "dict":
                d = args[0]  # max(d) iterates the keys
            if d is not None:
                res = Unknown("int", label=f"max(keys:{d.key()!r})")
                res.maxof = d.key()
                dflt = kwargs.get("default")
                if isinstance(dflt, Const) and isinstance(dflt.value, int):
                    # max(keys, default=c): at least c, and above no key only when the map is empty
                    res.maxof_default = dflt.value
        outs.append(("val", st, res))
        return outs

    b_max = _minmax
    b_min = _minmax

    def b_dict(self, interp, st, args, kwargs, node):
        if args and isinstance(args[0], DictV):
            return [("val", st, DictV(dict(args[0].entries), args[0].closed, label=f"copy:{args[0].label}:{self._site(interp, st, node)}"))]
        if not args:
            return [("val", st, DictV({k: v for k, v in kwargs.items()}, True, label=f"dict:{self._site(interp, st, node)}"))]
        return [("val", st, Unknown(interp.ty_of(args[0]) if isinstance(interp.ty_of(args[0]), tuple) else "dict", label=f"dict:{self._site(interp, st, node)}"))]

    def b_list(self, interp, st, args, kwargs, node):
        if args and isinstance(args[0], (TupleV, ListV)) and getattr(args[0], "items", None) is not None:
            return [("val", st, ListV(args[0].items, label=f"list:{self._site(interp, st, node)}"))]
        if args:
            exact = interp._exact_items(args[0])
            if exact is not None:
                return [("val", st, ListV(exact, label=f"list:{self._site(interp, st, node)}"))]
        if args and isinstance(args[0], ListV):
            # a copy of a list of unknown length keeps what is known about its elements and its length
            src = args[0]
            lst = ListV(None, elem=getattr(src, "elem", None), label=f"list:{self._site(interp, st, node)}:{src.key()!r}")
            for a in ("minlen", "maxlen", "exactlen", "nonempty"):
                if getattr(src, a, None) is not None:
                    setattr(lst, a, getattr(src, a))
            return [("val", st, lst)]
        return [("val", st, ListV(None, label=f"list:{self._site(interp, st, node)}"))]

    def b_tuple(self, interp, st, args, kwargs, node):
        if args and isinstance(args[0], (TupleV, ListV)) and getattr(args[0], "items", None) is not None:
            return [("val", st, TupleV(args[0].items))]
        if args:
            exact = interp._exact_items(args[0])
            if exact is not None:
                return [("val", st, TupleV(exact))]
        return [("val", st, Unknown("tuple", label=f"tuple:{self._site(interp, st, node)}"))]

    def b_all(self, interp, st, args, kwargs, node):
        return [("val", st, Unknown("bool", label=f"all:{self._site(interp, st, node)}"))]

    b_any = b_all

    # ---------------------------------------------------- modelled methods
    def _dict_key_known(self, interp, st, d: V, k: V) -> bool:
        return ("in", k.key(), d.key()) in st.facts or (d.key(), "i", k.key()) in st.mem

    def g_get(self, interp, st, recv, args, kwargs, node):
        k = args[0]
        default = args[1] if len(args) > 1 else Const(None)
        if isinstance(recv, DictV):
            if isinstance(k, EnumMemV) and len(k.names) == 1:
                k = Const(interp.enum_value(k.enum, k.version, k.names[0]))
            if isinstance(k, TupleV) and all(isinstance(x, Const) for x in k.items):
                k = Const(tuple(x.value for x in k.items))
            if isinstance(k, Const) and k.value in recv.entries:
                return [("val", st, recv.entries[k.value])]
            if recv.closed and isinstance(k, Const):
                return [("val", st, default)]
            if recv.closed and not isinstance(k, Const):
                # unknown key of a closed mapping: any entry or the default
                outs = []
                for name, val in recv.entries.items():
                    s = st.copy()
                    s.add_fact(("keyeq", k.key(), name))
                    outs.append(("val", s, val))
                outs.append(("val", st, default))
                return outs
            return [("val", st, Unknown(label=f"get:{self._site(interp, st, node)}", nullable=True))]
        if isinstance(recv, Const) and isinstance(recv.value, dict):
            if isinstance(k, Const):
                try:
                    return [("val", st, Const(recv.value[k.value]) if k.value in recv.value else default)]
                except TypeError:
                    pass
            return [("val", st, Unknown(label=f"get:{self._site(interp, st, node)}:{k.key()!r}", nullable=True))]
        loc = (recv.key(), "i", k.key())
        if loc in st.mem:
            return [("val", st, st.mem[loc])]
        ty = interp.ty_of(recv)
        vt = interp.norm_ty(ty[2]) if isinstance(ty, tuple) and ty[0] == "dict" else None
        if ("in", k.key(), recv.key()) in st.facts:
            return [("val", st, Sym(("item", recv.key(), k.key()), vt))]
        if ("notin", k.key(), recv.key()) in st.facts:
            return [("val", st, default)]
        nullable = isinstance(default, Const) and default.value is None
        if nullable and isinstance(vt, tuple) and vt[0] == "cls" and vt[1] == "sensor:Sensor":
            # the node map: `sensors.get(k)` is `sensors[k]` for a known node and None otherwise; forking here
            # gives both outcomes the same keys and facts as the `k in sensors` / `sensors[k]` idiom
            s_in, s_out = st.copy(), st
            s_in.add_fact(("in", k.key(), recv.key()), ("truthy", recv.key()))
            s_out.add_fact(("notin", k.key(), recv.key()))
            return [("val", s_in, Sym(("item", recv.key(), k.key()), vt)), ("val", s_out, default)]
        return [("val", st, Sym(("get", recv.key(), k.key()), vt, nullable=nullable))]

    def g_pop(self, interp, st, recv, args, kwargs, node):
        tag = self.type_tag(interp, recv)
        if tag in ("list", "deque") or (tag == "?" and not args):
            return self._seq_pop(interp, st, recv, args, node, "pop")
        k = args[0] if args else None
        outs = []
        if k is None:
            return [("val", st, Unknown(label=f"pop:{self._site(interp, st, node)}"))]
        if len(args) < 2 and not self._dict_key_known(interp, st, recv, k):
            outs.append(self._raise(interp, st.copy(), KeyError, node, f"{unparse(node)[:50]}: key not known to be present"))
        res = self.g_get(interp, st, recv, args, kwargs, node)
        interp.emit(st, "dictpop", "pop", node, recv=recv, args=args, with_facts=True)
        st.mem.pop((recv.key(), "i", k.key()), None)
        st.drop_facts(lambda f: f[0] == "in" and f[1] == k.key() and f[2] == recv.key() or f == ("truthy", recv.key()))
        if isinstance(recv, DictV) and isinstance(k, Const):
            recv.entries.pop(k.value, None)
        return outs + res

    def _seq_pop(self, interp, st, recv, args, node, how):
        outs = []
        if how == "pop" and args and not (isinstance(args[0], Const) and args[0].value == -1):
            how = f"pop[{args[0].value if isinstance(args[0], Const) else '?'}]"
        nonempty = interp.truth(st, recv) is True
        if not nonempty:
            outs.append(self._raise(interp, st.copy(), IndexError, node, f"{unparse(node)[:50]}: sequence not known to be non-empty"))
        interp.emit(st, "seqpop", how, node, recv=recv, with_facts=True)
        st.drop_facts(lambda f: f == ("truthy", recv.key()))
        if isinstance(recv, ListV):
            recv.nonempty = False
        elem = getattr(recv, "elem", None)
        ty = interp.ty_of(recv)
        ety = ty[1] if isinstance(ty, tuple) and ty[0] == "deque" else (getattr(elem, "ty", None) if elem is not None else None)
        outs.append(("val", st, Unknown(ety, label=f"{how}:{recv.key()!r}:{self._site(interp, st, node)}:{len(st.events)}")))
        return outs

    def g_popleft(self, interp, st, recv, args, kwargs, node):
        return self._seq_pop(interp, st, recv, args, node, "popleft")

    def g_append(self, interp, st, recv, args, kwargs, node):
        interp.emit(st, "append", "append", node, recv=recv, args=args, with_facts=True)
        st.add_fact(("truthy", recv.key()))
        st.drop_facts(lambda f: f == ("falsy", recv.key()))
        if isinstance(recv, ListV):
            if recv.items is not None:
                recv.items = recv.items + tuple(args)
            else:
                recv.elem = self._join_elem(recv.elem, args[0] if args else None)
            recv.nonempty = True
        return [("val", st, Const(None))]

    def _join_elem(self, a, b):
        """Element description valid for both a and b (type kept if equal, minsep = pointwise min)."""
        if a is None or b is None:
            return None
        u = Unknown(a.ty if getattr(a, "ty", None) == getattr(b, "ty", None) else None, label=f"join({a.key()!r},{b.key()!r})")
        ma = getattr(a, "minsep", None) or ({ch: a.value.count(ch) for ch in "/;,"} if isinstance(a, Const) and isinstance(a.value, str) else {})
        mb = getattr(b, "minsep", None) or ({ch: b.value.count(ch) for ch in "/;,"} if isinstance(b, Const) and isinstance(b.value, str) else {})
        ms = {ch: min(ma.get(ch, 0), mb.get(ch, 0)) for ch in set(ma) | set(mb)}
        u.minsep = {ch: n for ch, n in ms.items() if n}
        return u

    def g_appendleft(self, interp, st, recv, args, kwargs, node):
        interp.emit(st, "appendleft", "appendleft", node, recv=recv, args=args, with_facts=True)
        st.add_fact(("truthy", recv.key()))
        return [("val", st, Const(None))]

    def g_extend(self, interp, st, recv, args, kwargs, node):
        interp.emit(st, "extend", "extend", node, recv=recv, args=args, with_facts=True)
        if isinstance(recv, ListV) and recv.items is not None and isinstance(args[0], (ListV, TupleV)) and getattr(args[0], "items", None) is not None:
            recv.items = recv.items + tuple(args[0].items)
        elif isinstance(recv, ListV):
            other = args[0] if args else None
            elems = []
            if recv.items is not None:
                elems.extend(recv.items)
            elif recv.elem is not None:
                elems.append(recv.elem)
            else:
                elems.append(None)
            if isinstance(other, (ListV, TupleV)) and getattr(other, "items", None) is not None:
                elems.extend(other.items)
            elif isinstance(other, ListV) and other.elem is not None:
                elems.append(other.elem)
            else:
                elems.append(None)
            e = elems[0]
            for x in elems[1:]:
                e = self._join_elem(e, x)
            recv.items = None
            recv.elem = e
        return [("val", st, Const(None))]

    def g_clear(self, interp, st, recv, args, kwargs, node):
        interp.emit(st, "clear", "clear", node, recv=recv, with_facts=True)
        st.drop_facts(lambda f: (f[0] == "in" and f[2] == recv.key()) or f == ("truthy", recv.key()))
        return [("val", st, Const(None))]

    def g_update(self, interp, st, recv, args, kwargs, node):
        interp.emit(st, "update", "update", node, recv=recv, args=args, with_facts=True)
        if isinstance(recv, DictV):
            if args and isinstance(args[0], DictV):
                recv.entries.update(args[0].entries)
                recv.closed = recv.closed and args[0].closed
            else:
                recv.closed = False
        outs = []
        if args and not isinstance(args[0], DictV) and interp.ty_of(args[0]) not in ("dict",) and not isinstance(interp.ty_of(args[0]), tuple):
            outs.append(self._raise(interp, st.copy(), ValueError, node, "dict.update() of a non-mapping"))
            outs.append(self._raise(interp, st.copy(), TypeError, node, "dict.update() of a non-iterable"))
        return outs + [("val", st, Const(None))]

    def g_setdefault(self, interp, st, recv, args, kwargs, node):
        interp.emit(st, "setitem", "setdefault", node, recv=recv, args=args, with_facts=True)
        st.add_fact(("in", args[0].key(), recv.key()))
        return [("val", st, Unknown(label=f"setdefault:{self._site(interp, st, node)}"))]

    def _view(self, kind):
        def fn(self, interp, st, recv, args, kwargs, node):
            return [("val", st, ExtObj(f"{kind}({recv.key()!r})", kind, [recv]))]

        return fn

    g_items = _view(None, "dict_items")
    g_values = _view(None, "dict_values")
    g_keys = _view(None, "dict_keys")

    def g_copy(self, interp, st, recv, args, kwargs, node):
        if isinstance(recv, DictV):
            return [("val", st, DictV(dict(recv.entries), recv.closed, label=f"copy:{recv.label}:{self._site(interp, st, node)}"))]
        return [("val", st, Unknown(interp.ty_of(recv), label=f"copy:{self._site(interp, st, node)}"))]

    # str methods with postconditions
    def g_split(self, interp, st, recv, args, kwargs, node):
        interp.emit(st, "call", "str.split", node, recv=recv, args=args)
        lst = ListV(None, elem=Unknown("str", label=f"splitelem:{recv.key()!r}"), nonempty=True, label=f"split:{recv.key()!r}:{self._site(interp, st, node)}")
        lst.minlen = 1
        if args and isinstance(args[0], Const) and isinstance(args[0].value, str) and len(args) == 1:
            sep = args[0].value
            if isinstance(recv, Const) and isinstance(recv.value, str):
                lst.minlen = len(recv.value.split(sep))
            else:
                lst.minlen = 1 + getattr(recv, "minsep", {}).get(sep, 0)
        # split / rsplit with a maxsplit k yields at most k + 1 fields
        ms = args[1] if len(args) > 1 else kwargs.get("maxsplit")
        if isinstance(ms, Const) and isinstance(ms.value, int) and ms.value >= 0:
            lst.maxlen = ms.value + 1
            lst.split_from = "right" if getattr(node.func, "attr", "") == "rsplit" else "left"
            lst.split_sep = args[0].value if args and isinstance(args[0], Const) else None
            lst.split_of = recv
        return [("val", st, lst)]

    g_rsplit = g_split

    def _strres(name):
        def fn(self, interp, st, recv, args, kwargs, node):
            return [("val", st, Unknown("str", label=f"{name}({recv.key()!r})"))]

        return fn

    g_rstrip = _strres("rstrip")
    g_strip = _strres("strip")
    g_lstrip = _strres("lstrip")
    g_lower = _strres("lower")
    g_upper = _strres("upper")

    def g_join(self, interp, st, recv, args, kwargs, node):
        outs = []
        a = args[0] if args else None
        elem = getattr(a, "elem", None)
        items = getattr(a, "items", None)
        ok = False
        if items is not None:
            ok = all(self.is_strlike(i) for i in items)
        elif elem is not None:
            ok = self.is_strlike(elem)
        if not ok:
            outs.append(self._raise(interp, st.copy(), TypeError, node, "str.join of elements not known to be str"))
        interp.emit(st, "call", "str.join", node, recv=recv, args=args)
        outs.append(("val", st, Unknown("str", label=f"join:{self._site(interp, st, node)}:{a.key() if a is not None else ''!r}")))
        return outs

    def g_encode(self, interp, st, recv, args, kwargs, node):
        # str.encode of well-formed Unicode (A-UNICODE) is total
        interp.emit(st, "call", "str.encode", node, recv=recv, args=args)
        return [("val", st, Unknown("bytes", label=f"encode({recv.key()!r})"))]

    def g_decode(self, interp, st, recv, args, kwargs, node):
        outs = []
        ascii_only = isinstance(recv, Unknown) and recv.label.startswith("binascii.hexlify")  # hex digits are ASCII
        if not ascii_only and (not args or not (len(args) > 1 or "errors" in kwargs)):
            outs.append(self._raise(interp, st.copy(), UnicodeDecodeError, node, "bytes.decode"))
        outs.append(("val", st, Unknown("str", label=f"decode({recv.key()!r})")))
        return outs

    def g_isdigit(self, interp, st, recv, args, kwargs, node):
        return [("val", st, BoolV(("isdigit", recv.key())))]

    def g_startswith(self, interp, st, recv, args, kwargs, node):
        return [("val", st, BoolV(("startswith", recv.key(), args[0].key() if args else None)))]

    g_endswith = g_startswith

    def g_find(self, interp, st, recv, args, kwargs, node):
        interp.emit(st, "call", "str.find", node, recv=recv, args=args)
        return [("val", st, Unknown("int", label=f"find:{self._site(interp, st, node)}"))]

    def g_format(self, interp, st, recv, args, kwargs, node):
        return [("val", st, Unknown("str", label=f"format:{self._site(interp, st, node)}"))]

    # --------------------------------------------------------- special names
    def m_const_get_handler_registry(self, interp, st, recv, args, kwargs, node):
        ver = interp.ctx.version
        reg = interp.refl["consts"][ver].get("registry")
        if reg is None:
            raise AnalysisError(f"no handler registry reflected for version {ver}")
        return [("val", st, self.registry_value(interp, reg, interp.refl["consts"][ver].get("registry_name", "?")))]

    def m_serial_threaded_LineReader_connection_made(self, interp, st, recv, args, kwargs, node):
        # pyserial Protocol.connection_made stores the transport on the protocol object
        interp.emit(st, "call", "serial.threaded.LineReader.connection_made", node, recv=recv, args=args)
        if recv is not None and args:
            st.mem[(recv.key(), "a", "transport")] = args[0]
        return [("val", st, Const(None))]

    def m_asyncio_loop_run_in_executor(self, interp, st, recv, args, kwargs, node):
        interp.emit(st, "executor", "run_in_executor", node, args=args[1:])
        return [("val", st, FutureV(args[1], args[2:], {}, "executor"))]

    def m_asyncio_loop_create_task(self, interp, st, recv, args, kwargs, node):
        interp.emit(st, "spawn", "create_task", node, args=args, with_facts=True)
        return [("val", st, ExtObj(f"task@{self._site(interp, st, node)}", "asyncio.Task", args))]

    def m_asyncio_loop_call_later(self, interp, st, recv, args, kwargs, node):
        interp.emit(st, "spawn", "call_later", node, args=args, with_facts=True)
        return [("val", st, ExtObj(f"handle@{self._site(interp, st, node)}", "asyncio.Handle", args))]

    def m_asyncio_sleep(self, interp, st, recv, args, kwargs, node):
        interp.emit(st, "call", "asyncio.sleep", node, args=args)
        return [("val", st, FutureV(ExtV("asyncio.sleep.done"), (), {}, "sleep"))]

    def m_asyncio_sleep_done(self, interp, st, recv, args, kwargs, node):
        return [("val", st, Const(None))]

    def m_functools_partial(self, interp, st, recv, args, kwargs, node):
        from .values import PartialV

        if not args:
            return [self._raise(interp, st, TypeError, node, "partial() without a callable")]
        return [("val", st, PartialV(args[0], args[1:], kwargs))]

    def m_asyncio_Task_cancel(self, interp, st, recv, args, kwargs, node):
        interp.emit(st, "call", "asyncio.Task.cancel", node, recv=recv, with_facts=True)
        if recv is not None:
            st.add_fact(("cancelled", recv.key()))
        return [("val", st, Const(True))]

    def m_asyncio_Task_cancelled(self, interp, st, recv, args, kwargs, node):
        return [("val", st, Unknown("bool", label=f"cancelled({recv.key()!r})"))]

    def m_vol_validator___call__(self, interp, st, recv, args, kwargs, node):
        return self._call_validator(interp, st, recv, args, node)

    def _call_validator(self, interp, st, recv, args, node):
        interp.emit(st, "call", "vol.validate", node, recv=recv, args=args, with_facts=True)
        return [
            self._raise(interp, st.copy(), VOL_INVALID, node, "schema / validator rejects the value"),
            ("val", st, Unknown(label=f"validated:{self._site(interp, st, node)}")),
        ]

    # ---------------------------------------------------------- structure
    def binop(self, interp, st, node, a: V, b: V):
        op = type(node.op).__name__
        if isinstance(a, Const) and isinstance(b, Const):
            try:
                import operator

                fn = {"Add": operator.add, "Sub": operator.sub, "Mult": operator.mul, "Mod": operator.mod, "FloorDiv": operator.floordiv, "Div": operator.truediv, "BitOr": operator.or_, "BitAnd": operator.and_}.get(op)
                if fn is not None:
                    return [("val", st, Const(fn(a.value, b.value)))]
            except Exception:
                pass
        outs = []
        ta, tb = self.type_tag(interp, a), self.type_tag(interp, b)
        numeric = {"int", "float", "bool"}
        if op in ("Div", "FloorDiv", "Mod") and ta in numeric | {"?"} and not (isinstance(b, Const) and b.value):
            if ta != "str":
                outs.append(self._raise(interp, st.copy(), ZeroDivisionError, node))
        if op == "Add":
            ok = (ta in numeric and tb in numeric) or (ta == tb and ta in ("str", "bytes", "list", "tuple")) or isinstance(a, EnumMemV) and tb in numeric
            if not ok and "?" not in (ta, tb):
                outs.append(self._raise(interp, st.copy(), TypeError, node, f"{ta} + {tb}"))
            elif not ok and (getattr(a, "nullable", False) or getattr(b, "nullable", False)):
                outs.append(self._raise(interp, st.copy(), TypeError, node, f"operand of + may be None"))
        if op == "Add" and isinstance(a, ListV) and isinstance(b, ListV):
            # list concatenation: item-wise when both are known, else a list of the joined element description
            if a.items is not None and b.items is not None:
                outs.append(("val", st, ListV(a.items + b.items, label=f"cat:{self._site(interp, st, node)}")))
                return outs
            ea = a.elem if a.items is None else (a.items[0] if len(a.items) == 1 else None)
            eb = b.elem if b.items is None else (b.items[0] if len(b.items) == 1 else None)
            if a.items is not None and len(a.items) > 1:
                ea = a.items[0]
                for x in a.items[1:]:
                    ea = self._join_elem(ea, x)
            if b.items is not None and len(b.items) > 1:
                eb = b.items[0]
                for x in b.items[1:]:
                    eb = self._join_elem(eb, x)
            cat = ListV(None, elem=self._join_elem(ea, eb), label=f"cat:{self._site(interp, st, node)}")
            cat.nonempty = bool(getattr(a, "nonempty", False) or getattr(b, "nonempty", False) or (a.items or b.items))
            outs.append(("val", st, cat))
            return outs
        ty = ta if ta == tb or tb in numeric and ta in numeric else (ta if ta != "?" else tb)
        if ta in numeric and tb == "float" or ta == "float":
            ty = "float"
        res = Unknown(ty if ty != "?" else None, label=f"binop:{op}:{a.key()!r}:{b.key()!r}")
        if op == "Add":
            for x, y in ((a, b), (b, a)):
                if getattr(x, "maxof", None) is not None and isinstance(y, Const) and isinstance(y.value, int) and y.value >= 1:
                    # max(d.keys()) + k with k >= 1 is greater than every key of d
                    res.gt_all_keys_of = x.maxof
                    if getattr(x, "maxof_default", None) is not None:
                        res.lower_bound = x.maxof_default + y.value
            ms = {}
            for x in (a, b):
                src = getattr(x, "minsep", None)
                if src is None and isinstance(x, Const) and isinstance(x.value, str):
                    src = {ch: x.value.count(ch) for ch in "/;," if x.value.count(ch)}
                for ch, n in (src or {}).items():
                    ms[ch] = ms.get(ch, 0) + n
            if ms:
                res.minsep = ms
        outs.append(("val", st, res))
        return outs

    def min_len(self, interp, st, base: V) -> int:
        """Lower bound of len(base) known on this path."""
        best = getattr(base, "minlen", 0) or 0
        if isinstance(base, (TupleV, ListV)) and getattr(base, "items", None) is not None:
            return len(base.items)
        for n in range(1, 12):
            if self._index_guarded(interp, st, base, Const(n - 1)):
                best = max(best, n)
            else:
                break
        return best

    def slice_value(self, interp, st, base: V, node) -> V:
        tag = self.type_tag(interp, base)

        def lit(x):
            if x is None:
                return None
            try:
                return ast.literal_eval(x)
            except (ValueError, SyntaxError):
                return "?"

        lo, hi = lit(node.slice.lower), lit(node.slice.upper)
        if isinstance(base, Const) and isinstance(base.value, (str, tuple, bytes)) and lo != "?" and hi != "?" and node.slice.step is None:
            return Const(base.value[lo:hi])
        if isinstance(base, (TupleV, ListV)) and getattr(base, "items", None) is not None and lo != "?" and hi != "?" and node.slice.step is None:
            items = base.items[lo:hi]
            return TupleV(items) if isinstance(base, TupleV) else ListV(items, label=f"slice:{self._site(interp, st, node)}:{base.key()!r}")
        minlen = 0
        if node.slice.step is None and lo != "?" and hi != "?" and tag in ("list", "tuple", "str", "bytes"):
            m = self.min_len(interp, st, base)
            if isinstance(lo, int) and lo < 0 and hi is None:
                minlen = min(-lo, m)
            elif lo is None and isinstance(hi, int) and hi < 0:
                minlen = max(0, m + hi)
            elif lo is None and isinstance(hi, int) and hi >= 0:
                minlen = min(hi, m)
            elif isinstance(lo, int) and lo >= 0 and hi is None:
                minlen = max(0, m - lo)
        # [-n:] / [:n] of a sequence known to hold at least n elements has exactly n
        exact = None
        if node.slice.step is None and tag in ("list", "tuple"):
            if isinstance(lo, int) and lo < 0 and hi is None and minlen == -lo:
                exact = -lo
            elif lo is None and isinstance(hi, int) and hi >= 0 and minlen == hi:
                exact = hi
        if tag == "list":
            res = ListV(None, elem=getattr(base, "elem", None), label=f"slice:{self._site(interp, st, node)}:{base.key()!r}")
            res.minlen = minlen
            res.nonempty = minlen > 0
            res.exactlen = exact
            return res
        res = Unknown(tag if tag != "?" else None, label=f"slice:{self._site(interp, st, node)}:{base.key()!r}")
        res.minlen = minlen
        return res

    def generic_item(self, interp, st, base, key, node):
        tag = self.type_tag(interp, base)
        outs = []
        if tag in ("list", "tuple", "str", "bytes", "deque"):
            known_len = getattr(base, "minlen", None)
            guard = [f for f in st.facts if f[0] == "atom" and f[1][0] == "cmp"]
            if not self._index_guarded(interp, st, base, key):
                outs.append(self._raise(interp, st.copy(), IndexError, node, f"{unparse(node)[:50]}: index not known to be in range"))
            elem = getattr(base, "elem", None)
            outs.append(("val", st, Unknown(getattr(elem, "ty", None), label=f"item:{base.key()!r}[{key.key()!r}]")))
            return outs
        if tag == "dict" or isinstance(base, Const) and isinstance(base.value, dict):
            if ("in", key.key(), base.key()) not in st.facts:
                outs.append(self._raise(interp, st.copy(), KeyError, node, f"{unparse(node)[:50]}: key not known to be present"))
            outs.append(("val", st, Unknown(label=f"item:{base.key()!r}[{key.key()!r}]")))
            return outs
        if tag in ("fwrec",):
            return [("val", st, Unknown(label=f"item:{base.key()!r}[{key.key()!r}]"))]
        # unknown container: may raise KeyError or IndexError
        if ("in", key.key(), base.key()) not in st.facts and not self._index_guarded(interp, st, base, key):
            outs.append(self._raise(interp, st.copy(), LookupError, node, f"{unparse(node)[:50]}: subscript of a value of unknown shape"))
        outs.append(("val", st, Unknown(label=f"item:{base.key()!r}[{key.key()!r}]")))
        return outs

    def _index_guarded(self, interp, st, base, key) -> bool:
        """Constant index i is in range if a fact `len(base) >= n` (n > i) holds on the path."""
        if not (isinstance(key, Const) and isinstance(key.value, int)):
            return False
        i = key.value
        need = i + 1 if i >= 0 else -i
        if getattr(base, "minlen", 0) >= need:
            return True
        lenkey = ("u", f"len({base.key()!r})")
        for f in st.facts:
            if f[0] != "atom":
                continue
            atom, truth = f[1], f[2]
            if atom[0] != "cmp":
                continue
            op, a, b = atom[1], atom[2], atom[3]
            # len(x) < n is False  => len >= n ; len(x) >= n True
            if a == lenkey and b[0] == "c":
                n = b[2]
                if (op == "Lt" and not truth and n >= need) or (op == "GtE" and truth and n >= need) or (op == "Gt" and truth and n + 1 >= need) or (op == "LtE" and not truth and n + 1 >= need):
                    return True
            if b == lenkey and a[0] == "c":
                n = a[2]
                if (op == "Gt" and not truth and n >= need) or (op == "LtE" and truth and n >= need):
                    return True
        for f in st.facts:
            if f[0] == "atom" and f[1][0] == "eq" and f[2] is True:
                a, b = f[1][1], f[1][2]
                for x, y in ((a, b), (b, a)):
                    if x == lenkey and y[0] == "c" and y[2] >= need:
                        return True
        return False

    def known_arity(self, interp, st, val: V) -> Optional[int]:
        if isinstance(val, Const) and isinstance(val.value, (tuple, list, str)):
            return len(val.value)
        if getattr(val, "exactlen", None) is not None:
            return val.exactlen
        if getattr(val, "maxlen", None) is not None and self.min_len(interp, st, val) >= val.maxlen:
            return val.maxlen
        ty = interp.ty_of(val)
        if ty == "fwid":
            return 2
        if ty == "job":
            return 2
        return None

    def unpack_elem(self, interp, st, val: V, i: int, elem, node) -> V:
        ty = getattr(elem, "ty", None) if elem is not None else None
        vt = interp.ty_of(val)
        if vt == "job":
            return Unknown("callable" if i == 0 else "tuple", label=f"job{i}:{val.key()!r}")
        u = Unknown(ty, label=f"unpack{i}:{val.key()!r}:{self._site(interp, st, node)}")
        u.src_elem = elem
        u.src_list = val
        return u

    def iter_start(self, interp, st, itv, node):
        return None

    def iter_elem(self, interp, st, itv: V, node, n: int) -> V:
        """Symbol for the n-th element produced by iterating `itv`."""
        if isinstance(itv, ExtObj) and itv.cls in ("dict_items", "dict_values", "dict_keys") and itv.args:
            d = itv.args[0]
            ty = interp.ty_of(d)
            kt = vt = None
            if isinstance(ty, tuple) and ty[0] == "dict":
                kt, vt = interp.norm_ty(ty[1]), interp.norm_ty(ty[2])
            k = Sym(("key", d.key(), n), kt)
            st.add_fact(("in", k.key(), d.key()), ("truthy", d.key()))
            if itv.cls == "dict_keys":
                return k
            v = Sym(("item", d.key(), k.key()), vt)
            # INV-KEY-ID: the id stored in a mapped object is its key
            if vt == ("cls", interp.cls_qual("ChildSensor")):
                st.mem[(v.key(), "a", "id")] = k
            if vt == ("cls", interp.cls_qual("Sensor")):
                st.mem[(v.key(), "a", "sensor_id")] = k
            if itv.cls == "dict_values":
                return v
            return TupleV([k, v])
        ty = interp.ty_of(itv)
        if isinstance(ty, tuple) and ty[0] == "dict":
            k = Sym(("key", itv.key(), n), interp.norm_ty(ty[1]))
            st.add_fact(("in", k.key(), itv.key()))
            return k
        if isinstance(itv, (ListV, TupleV)) and getattr(itv, "items", None):
            e = itv.items[0]
            for x in itv.items[1:]:
                e = self._join_elem(e, x)
            if e is not None:
                u = Unknown(getattr(e, "ty", None), label=f"elem{n}:{itv.key()!r}")
                if getattr(e, "minsep", None):
                    u.minsep = dict(e.minsep)
                return u
        if isinstance(itv, ListV) and itv.elem is not None:
            e = itv.elem
            u = Unknown(getattr(e, "ty", None), label=f"elem{n}:{itv.key()!r}")
            if getattr(e, "minsep", None):
                u.minsep = dict(e.minsep)
            return u
        if isinstance(itv, Const) and isinstance(itv.value, (tuple, list)):
            return Unknown(label=f"elem{n}:{itv.key()!r}")
        return Unknown(label=f"elem{n}:{itv.key()!r}")
