"""Front end: parse the package, index functions / classes, resolve names and MROs.

Everything here reads the *current* source under VERIF_REPO (default /repo); nothing of the
package is executed by this module.
"""
from __future__ import annotations

import ast
import hashlib
import os
from dataclasses import dataclass, field
from typing import Dict, List, Optional, Tuple


class AnalysisError(Exception):
    """The analyser cannot decide (vanished anchor, unknown idiom). Exit code 2."""


def repo_root() -> str:
    return os.environ.get("VERIF_REPO", "/repo")


PKG = "mysensors"


@dataclass
class Module:
    name: str  # short name: "" for mysensors/__init__, "handler", "cli.helper"
    path: str
    source: str = field(repr=False)
    tree: ast.Module = field(repr=False)
    imports: Dict[str, Tuple[str, Optional[str]]] = field(default_factory=dict, repr=False)
    # local name -> (dotted module, attribute or None)
    assigns: Dict[str, ast.expr] = field(default_factory=dict, repr=False)  # module-level NAME = expr

    @property
    def dotted(self) -> str:
        return PKG if self.name == "" else f"{PKG}.{self.name}"

    @property
    def label(self) -> str:
        return "__init__" if self.name == "" else self.name


@dataclass
class FuncInfo:
    qual: str  # "handler:handle_set", "__init__:Gateway.logic", "task:SyncTasks._schedule_factory.schedule_save"
    name: str
    node: ast.AST = field(repr=False)  # FunctionDef / AsyncFunctionDef / Lambda
    module: Module = field(repr=False)
    cls: Optional["ClassInfo"] = field(default=None, repr=False)
    parent: Optional["FuncInfo"] = field(default=None, repr=False)
    decorators: List[str] = field(default_factory=list)

    @property
    def is_async(self) -> bool:
        return isinstance(self.node, ast.AsyncFunctionDef)

    @property
    def where(self) -> str:
        return f"{os.path.relpath(self.module.path, repo_root())}:{getattr(self.node, 'lineno', 0)}"


@dataclass
class ClassInfo:
    name: str
    qual: str  # "sensor:Sensor"
    node: ast.ClassDef = field(repr=False)
    module: Module = field(repr=False)
    base_exprs: List[ast.expr] = field(default_factory=list, repr=False)
    bases: List[str] = field(default_factory=list)  # resolved: repo class qual or "ext:dotted"
    methods: Dict[str, FuncInfo] = field(default_factory=dict, repr=False)
    props: Dict[str, Dict[str, FuncInfo]] = field(default_factory=dict, repr=False)  # name -> {"get":..,"set":..}
    class_attrs: Dict[str, ast.expr] = field(default_factory=dict, repr=False)


def _dotted(node: ast.AST) -> Optional[str]:
    parts = []
    while isinstance(node, ast.Attribute):
        parts.append(node.attr)
        node = node.value
    if isinstance(node, ast.Name):
        parts.append(node.id)
        return ".".join(reversed(parts))
    return None


class Program:
    """Parsed view of the package."""

    def __init__(self, root: Optional[str] = None):
        self.root = root or repo_root()
        self.modules: Dict[str, Module] = {}
        self.funcs: Dict[str, FuncInfo] = {}
        self.classes: Dict[str, ClassInfo] = {}
        self.class_by_name: Dict[str, List[ClassInfo]] = {}
        self._mro_cache: Dict[str, List[str]] = {}
        self._load()

    # ------------------------------------------------------------------ loading
    def _load(self) -> None:
        pkg_dir = os.path.join(self.root, PKG)
        if not os.path.isdir(pkg_dir):
            raise AnalysisError(f"package directory {pkg_dir} not found")
        for dirpath, _dirs, files in sorted(os.walk(pkg_dir)):
            for fname in sorted(files):
                if not fname.endswith(".py"):
                    continue
                path = os.path.join(dirpath, fname)
                rel = os.path.relpath(path, pkg_dir)[:-3].replace(os.sep, ".")
                if rel == "__init__":
                    name = ""
                elif rel.endswith(".__init__"):
                    name = rel[: -len(".__init__")]
                else:
                    name = rel
                with open(path, encoding="utf-8") as fh:
                    src = fh.read()
                try:
                    tree = ast.parse(src, filename=path)
                except SyntaxError as exc:
                    raise AnalysisError(f"syntax error in {path}: {exc}") from exc
                mod = Module(name, path, src, tree)
                self.modules[name] = mod
        for mod in self.modules.values():
            self._index_module(mod)
        for cls in self.classes.values():
            cls.bases = [self._resolve_base(cls, b) for b in cls.base_exprs]

    def digest(self) -> str:
        h = hashlib.sha256()
        for name in sorted(self.modules):
            h.update(name.encode())
            h.update(self.modules[name].source.encode())
        return h.hexdigest()[:16]

    def _index_module(self, mod: Module) -> None:
        for node in mod.tree.body:
            if isinstance(node, ast.Import):
                for alias in node.names:
                    local = alias.asname or alias.name.split(".")[0]
                    target = alias.name if alias.asname else alias.name.split(".")[0]
                    mod.imports[local] = (target, None)
            elif isinstance(node, ast.ImportFrom):
                base = node.module or ""
                if node.level:
                    pkg_parts = mod.dotted.split(".")
                    # "mysensors.handler" lives in package "mysensors"; "mysensors" itself is a package
                    if not mod.path.endswith("__init__.py"):
                        pkg_parts = pkg_parts[:-1]
                    up = node.level - 1
                    anchor = pkg_parts[: len(pkg_parts) - up] if up else pkg_parts
                    base = ".".join(anchor + ([base] if base else []))
                for alias in node.names:
                    mod.imports[alias.asname or alias.name] = (base, alias.name)
            elif isinstance(node, ast.Assign):
                for tgt in node.targets:
                    if isinstance(tgt, ast.Name):
                        mod.assigns[tgt.id] = node.value
            elif isinstance(node, ast.AnnAssign) and isinstance(node.target, ast.Name) and node.value:
                mod.assigns[node.target.id] = node.value
        self._index_body(mod, mod.tree.body, None, None, "")

    def _index_body(self, mod, body, cls, parent, prefix) -> None:
        for node in body:
            if isinstance(node, (ast.FunctionDef, ast.AsyncFunctionDef)):
                self._add_func(mod, node, cls, parent, prefix)
            elif isinstance(node, ast.ClassDef) and cls is None and parent is None:
                info = ClassInfo(node.name, f"{mod.label}:{node.name}", node, mod, list(node.bases))
                self.classes[info.qual] = info
                self.class_by_name.setdefault(node.name, []).append(info)
                for sub in node.body:
                    if isinstance(sub, ast.Assign):
                        for tgt in sub.targets:
                            if isinstance(tgt, ast.Name):
                                info.class_attrs[tgt.id] = sub.value
                self._index_body(mod, node.body, info, None, node.name + ".")
            elif isinstance(node, (ast.If, ast.Try, ast.With, ast.For, ast.While)):
                # nested defs under compound statements (rare); index them too
                for fld in ("body", "orelse", "finalbody"):
                    self._index_body(mod, getattr(node, fld, []) or [], cls, parent, prefix)
                for h in getattr(node, "handlers", []) or []:
                    self._index_body(mod, h.body, cls, parent, prefix)

    def _add_func(self, mod, node, cls, parent, prefix) -> None:
        qual = f"{mod.label}:{prefix}{node.name}"
        decos = [(_dotted(d) or _dotted(getattr(d, "func", None)) or "?") for d in node.decorator_list]
        info = FuncInfo(qual, node.name, node, mod, cls, parent, decos)
        is_prop_get = "property" in decos
        setter = [d for d in decos if d.endswith(".setter")]
        if cls is not None and parent is None:
            if is_prop_get:
                cls.props.setdefault(node.name, {})["get"] = info
                info.qual = qual + "@get"
            elif setter:
                cls.props.setdefault(node.name, {})["set"] = info
                info.qual = qual + "@set"
            else:
                cls.methods[node.name] = info
        self.funcs[info.qual] = info
        # nested functions
        self._index_nested(mod, node.body, cls, info, prefix + node.name + ".")

    def _index_nested(self, mod, body, cls, parent, prefix) -> None:
        for node in body:
            if isinstance(node, (ast.FunctionDef, ast.AsyncFunctionDef)):
                self._add_func(mod, node, cls, parent, prefix)
            else:
                for fld in ("body", "orelse", "finalbody"):
                    sub = getattr(node, fld, None)
                    if isinstance(sub, list):
                        self._index_nested(mod, sub, cls, parent, prefix)
                for h in getattr(node, "handlers", []) or []:
                    self._index_nested(mod, h.body, cls, parent, prefix)

    # ------------------------------------------------------------- name lookup
    def module_of_dotted(self, dotted: str) -> Optional[Module]:
        if dotted == PKG:
            return self.modules.get("")
        if dotted.startswith(PKG + "."):
            return self.modules.get(dotted[len(PKG) + 1 :])
        return None

    CONTAINER_MUTATORS = {"append", "appendleft", "pop", "popleft", "popitem", "update", "clear", "extend", "insert", "remove", "setdefault", "add", "discard", "sort", "reverse", "__setitem__", "__delitem__"}

    def global_mutated(self, mod: Module, name: str) -> bool:
        """Is the module-level container `name` of `mod` changed after import (item store / delete, mutating
        method, augmented assignment or `global` rebinding anywhere in the package)?  Such a global is run-time
        state: its content at a use is not its initial literal."""
        cache = self.__dict__.setdefault("_mutglob", {})
        key = (mod.label, name)
        if key in cache:
            return cache[key]

        def is_ref(expr, m) -> bool:
            if isinstance(expr, ast.Name) and expr.id == name:
                if m is mod:
                    return True
                imp = m.imports.get(name)
                return bool(imp) and imp[1] == name and self.module_of_dotted(imp[0]) is mod
            return isinstance(expr, ast.Attribute) and expr.attr == name and not (isinstance(expr.value, ast.Name) and expr.value.id in ("self", "cls"))

        found = False
        for m in self.modules.values():
            for node in ast.walk(m.tree):
                if isinstance(node, ast.Global) and m is mod and name in node.names:
                    found = True
                elif isinstance(node, (ast.Assign, ast.AugAssign, ast.AnnAssign, ast.Delete)):
                    targets = node.targets if isinstance(node, (ast.Assign, ast.Delete)) else [node.target]
                    for t in targets:
                        for tt in (t.elts if isinstance(t, (ast.Tuple, ast.List)) else [t]):
                            if isinstance(tt, ast.Subscript) and is_ref(tt.value, m):
                                found = True
                            if isinstance(node, ast.AugAssign) and is_ref(tt, m):
                                found = True
                elif isinstance(node, ast.Call) and isinstance(node.func, ast.Attribute) and node.func.attr in self.CONTAINER_MUTATORS and is_ref(node.func.value, m):
                    found = True
                if found:
                    break
            if found:
                break
        cache[key] = found
        return found

    def resolve_global(self, mod: Module, name: str, _depth: int = 0):
        """Resolve a global name of `mod`.

        Returns one of ("func", FuncInfo) ("class", ClassInfo) ("module", dotted)
        ("assign", Module, expr) ("ext", dotted) or None.
        """
        if _depth > 8:
            return None
        qual = f"{mod.label}:{name}"
        if qual in self.funcs:
            return ("func", self.funcs[qual])
        if qual in self.classes:
            return ("class", self.classes[qual])
        if name in mod.assigns:
            return ("assign", mod, mod.assigns[name])
        if name in mod.imports:
            target, attr = mod.imports[name]
            tmod = self.module_of_dotted(target)
            if attr is None:
                if tmod is not None:
                    return ("module", tmod.dotted)
                return ("ext", target)
            if tmod is not None:
                sub = self.module_of_dotted(f"{target}.{attr}")
                if sub is not None:
                    return ("module", sub.dotted)
                return self.resolve_global(tmod, attr, _depth + 1)
            return ("ext", f"{target}.{attr}")
        return None

    def _resolve_base(self, cls: ClassInfo, expr: ast.expr) -> str:
        dotted = _dotted(expr)
        if dotted is None:
            return "ext:?"
        head, _, rest = dotted.partition(".")
        res = self.resolve_global(cls.module, head)
        if res and res[0] == "class" and not rest:
            return res[1].qual
        if res and res[0] == "module" and rest:
            tmod = self.module_of_dotted(res[1])
            if tmod is not None:
                r2 = self.resolve_global(tmod, rest)
                if r2 and r2[0] == "class":
                    return r2[1].qual
        if res and res[0] == "ext":
            return "ext:" + res[1] + ("." + rest if rest else "")
        return "ext:" + dotted

    # --------------------------------------------------------------------- MRO
    def mro(self, qual: str) -> List[str]:
        """C3 linearisation over the syntax tree; external bases are opaque leaves."""
        if qual in self._mro_cache:
            return self._mro_cache[qual]
        if qual.startswith("ext:"):
            return [qual]
        cls = self.classes[qual]
        seqs = [self.mro(b) for b in cls.bases] + [list(cls.bases)]
        result = [qual]
        seqs = [list(s) for s in seqs if s]
        while seqs:
            for seq in seqs:
                cand = seq[0]
                if not any(cand in s[1:] for s in seqs):
                    break
            else:
                raise AnalysisError(f"inconsistent MRO for {qual}")
            result.append(cand)
            for seq in seqs:
                if seq and seq[0] == cand:
                    del seq[0]
            seqs = [s for s in seqs if s]
        self._mro_cache[qual] = result
        return result

    def find_method(self, cls_qual: str, name: str, after: Optional[str] = None):
        """Look a method up along the MRO. Returns FuncInfo, ("ext", base) or None."""
        order = self.mro(cls_qual)
        if after is not None:
            if after not in order:
                return None
            order = order[order.index(after) + 1 :]
        for c in order:
            if c.startswith("ext:"):
                return ("ext", c[4:])
            info = self.classes[c]
            if name in info.methods:
                return info.methods[name]
        return None

    def find_prop(self, cls_qual: str, name: str):
        for c in self.mro(cls_qual):
            if c.startswith("ext:"):
                continue
            info = self.classes[c]
            if name in info.props:
                return info.props[name]
            if name in info.methods:
                return None
        return None

    def cls(self, name: str) -> ClassInfo:
        """Class by bare name (unique outside the const modules) or by qual."""
        if name in self.classes:
            return self.classes[name]
        cands = [c for c in self.class_by_name.get(name, []) if not c.module.name.startswith("const_")]
        if len(cands) != 1:
            raise AnalysisError(f"class {name!r} not found or ambiguous ({[c.qual for c in cands]})")
        return cands[0]

    def func(self, qual: str) -> FuncInfo:
        if qual not in self.funcs:
            raise AnalysisError(f"anchor vanished: function {qual} not found in {self.root}")
        return self.funcs[qual]

    def subclasses(self, qual: str) -> List[str]:
        return [c for c in self.classes if qual in self.mro(c)]

    def relpath(self, mod: Module) -> str:
        return os.path.relpath(mod.path, self.root)


def unparse(node: ast.AST) -> str:
    try:
        return ast.unparse(node)
    except Exception:  # pragma: no cover
        return "<?>"


def norm_stmt(node: ast.AST) -> str:
    """Normalised statement text (stable under re-formatting) used to key findings."""
    return " ".join(unparse(node).split())
