"""Abstract values and abstract states of the path-sensitive analyser.

No concrete input value is ever represented: inputs are opaque symbols, and what is known
about them is a set of syntactic must-facts collected from the branch conditions on the
path (membership, None-ness, truthiness, equality with a constant).
"""
from __future__ import annotations

from typing import Any, Dict, Optional, Tuple


class V:
    """Base of abstract values."""

    ty: Optional[str] = None
    nullable: bool = False

    def key(self):
        raise NotImplementedError

    def __repr__(self):
        return f"<{type(self).__name__} {self.key()!r}>"


class Const(V):
    def __init__(self, value):
        self.value = value
        self.ty = type(value).__name__

    def key(self):
        try:
            hash(self.value)
        except TypeError:
            return ("c", type(self.value).__name__, repr(self.value))
        return ("c", type(self.value).__name__, self.value)


class Sym(V):
    """A symbolic value named by an access path (or an opaque label)."""

    def __init__(self, path: Tuple, ty: Optional[str] = None, nullable: bool = False):
        self.path = path
        self.ty = ty
        self.nullable = nullable

    def key(self):
        return self.path


class Unknown(V):
    _n = 0

    def __init__(self, ty: Optional[str] = None, label: Optional[str] = None, nullable: bool = False):
        if label is None:
            Unknown._n += 1
            label = f"u{Unknown._n}"
        self.label = label
        self.ty = ty
        self.nullable = nullable

    def key(self):
        return ("u", self.label)


class Obj(V):
    """A repo-class object allocated on this path (attributes live in State.mem)."""

    def __init__(self, oid: str, cls: str):
        self.oid = oid
        self.cls = cls
        self.ty = cls

    def key(self):
        return ("obj", self.oid)


class ExtObj(V):
    """An instance of an external class created on this path (Timer, Thread, Schema ...)."""

    def __init__(self, oid: str, cls: str, args=(), kwargs=None):
        self.oid = oid
        self.cls = cls
        self.ty = "ext:" + cls
        self.args = tuple(args)
        self.kwargs = dict(kwargs or {})

    def key(self):
        return ("xobj", self.oid, self.cls)


class FuncV(V):
    ty = "callable"

    def __init__(self, info, closure=None):
        self.info = info
        self.closure = closure  # Frame of the defining function for nested defs / lambdas

    def key(self):
        return ("fn", self.info.qual)


class BoundV(V):
    ty = "callable"

    def __init__(self, recv: V, info):
        self.recv = recv
        self.info = info

    def key(self):
        return ("bound", self.recv.key(), self.info.qual)


class ExtV(V):
    """External callable (function, class or bound method of a modelled type)."""

    ty = "callable"

    def __init__(self, name: str, recv: Optional[V] = None):
        self.name = name
        self.recv = recv

    def key(self):
        return ("ext", self.name, self.recv.key() if self.recv is not None else None)


class ClassV(V):
    ty = "class"

    def __init__(self, qual: str):
        self.qual = qual

    def key(self):
        return ("cls", self.qual)


class ModV(V):
    ty = "module"

    def __init__(self, name: str):
        self.name = name  # "repo:<dotted>", "ext:<dotted>", "const:<version or ?>"

    def key(self):
        return ("mod", self.name)


class EnumClsV(V):
    ty = "enumclass"

    def __init__(self, enum: str, version: Optional[str]):
        self.enum = enum
        self.version = version

    def key(self):
        return ("enumcls", self.enum, self.version)


class EnumMemV(V):
    ty = "int"

    def __init__(self, enum: str, version: Optional[str], names: Tuple[str, ...], origin=None):
        self.enum = enum
        self.version = version
        self.names = tuple(names)
        self.origin = origin  # key of the value it was looked up from

    def key(self):
        return ("enum", self.enum, self.version, self.names, self.origin)


class TupleV(V):
    ty = "tuple"

    def __init__(self, items):
        self.items = tuple(items)

    def key(self):
        return ("tuple",) + tuple(i.key() for i in self.items)


class ListV(V):
    ty = "list"

    def __init__(self, items=None, elem: Optional[V] = None, nonempty: bool = False, label=None):
        self.items = None if items is None else tuple(items)
        self.elem = elem
        self.nonempty = nonempty
        Unknown._n += 1
        self.label = label or f"l{Unknown._n}"

    def key(self):
        if self.items is not None:
            return ("list",) + tuple(i.key() for i in self.items)
        return ("listu", self.label)


class DictV(V):
    ty = "dict"

    def __init__(self, entries: Dict[Any, V], closed: bool = True, label=None):
        self.entries = dict(entries)
        self.closed = closed
        Unknown._n += 1
        self.label = label or f"d{Unknown._n}"

    def key(self):
        return ("dictv", self.label)


class BoolV(V):
    ty = "bool"

    def __init__(self, atom):
        self.atom = atom

    def key(self):
        return ("bool", self.atom)


class ExcV(V):
    """An exception instance of (a subclass of) `cls` (a real class object)."""

    ty = "exception"

    def __init__(self, cls, site: str = "", what: str = "", chain=()):
        self.cls = cls
        self.site = site
        self.what = what
        self.chain = tuple(chain)
        self.expr = ""
        self.func = site.rsplit(":", 1)[0] if site else ""

    def key(self):
        return ("exc", self.cls.__module__ + "." + self.cls.__qualname__, self.site)


class PartialV(V):
    """functools.partial(fn, *args, **kwargs)."""

    ty = "callable"

    def __init__(self, fn: V, args=(), kwargs=None):
        self.fn = fn
        self.args = tuple(args)
        self.kwargs = dict(kwargs or {})

    def key(self):
        return ("partial", self.fn.key(), tuple(a.key() for a in self.args), tuple(sorted((k, v.key()) for k, v in self.kwargs.items())))


class FutureV(V):
    """Awaitable that, when awaited, runs `fn(*args)` (run_in_executor, coroutine objects)."""

    ty = "awaitable"

    def __init__(self, fn: V, args=(), kwargs=None, kind="coro"):
        self.fn = fn
        self.args = tuple(args)
        self.kwargs = dict(kwargs or {})
        self.kind = kind

    def key(self):
        return ("future", self.kind, self.fn.key(), tuple(a.key() for a in self.args))


def vkey(v: V):
    return v.key()


class Event:
    __slots__ = ("kind", "name", "recv", "args", "kwargs", "func", "line", "stack", "facts", "extra", "_sig")

    def __init__(self, kind, name, recv=None, args=(), kwargs=None, func="", line=0, stack=(), facts=None, extra=None):
        self.kind = kind
        self.name = name
        self.recv = recv
        self.args = tuple(args)
        self.kwargs = dict(kwargs or {})
        self.func = func
        self.line = line
        self.stack = stack
        self.facts = facts
        self.extra = extra
        self._sig = None

    @property
    def retval(self):
        """Return value recorded on an exit event (kept out of the signature for pure helpers)."""
        return self.args[0] if self.args else self.extra

    def sig(self):
        if self._sig is None:
            self._sig = self._compute_sig()
        return self._sig

    def _compute_sig(self):
        return (
            self.kind,
            self.name,
            self.recv.key() if isinstance(self.recv, V) else self.recv,
            tuple(a.key() if isinstance(a, V) else a for a in self.args),
            self.func,
            self.line,
        )

    def __repr__(self):
        return f"Event({self.kind} {self.name} @{self.func}:{self.line})"


ROOTS = ("GW", "TR", "PR", "TASKS", "S", "P", "OTA")
PATH_FACTS = ("validated", "enumeq", "member", "subtype_of", "canonical", "encodedof", "encoded_canonical", "keyeq")


def rooted(key) -> bool:
    """Does this value key denote (part of) long-lived gateway state (as opposed to a temporary)?"""
    if isinstance(key, tuple):
        if len(key) >= 2 and key[0] == "root":
            return True
        if key and key[0] == "global":
            return True
        return any(rooted(k) for k in key if isinstance(k, tuple))
    return False


def protected(fact) -> bool:
    """Facts that identify a path for the rules: never dropped by the join of similar paths."""
    tag = fact[0]
    if tag in PATH_FACTS:
        return True
    if tag in ("in", "notin"):
        return rooted(fact[2]) or rooted(fact[1])
    if tag in ("truthy", "falsy", "isnone", "notnone"):
        return rooted(fact[1])
    if tag == "atom":
        return _param_rooted(fact[1])
    return False


def _param_rooted(key) -> bool:
    """Mentions a root *parameter* symbol (qos, topic, value ...) rather than long-lived state."""
    if isinstance(key, tuple):
        if len(key) == 2 and key[0] == "root" and key[1] not in ROOTS:
            return True
        return any(_param_rooted(k) for k in key if isinstance(k, tuple))
    return False


class State:
    """Abstract state along one path."""

    __slots__ = ("mem", "facts", "events", "stack", "counter", "handling", "notes", "frames", "roots", "evhash", "pfacts")

    def __init__(self):
        self.mem: Dict[Tuple, V] = {}
        self.facts: frozenset = frozenset()
        self.events: Tuple[Event, ...] = ()
        self.stack: Tuple[str, ...] = ()
        self.counter = 0
        self.handling: Tuple[ExcV, ...] = ()
        self.notes: Tuple = ()
        self.frames: Tuple = ()
        self.roots: Dict[str, V] = {}
        self.evhash = 0
        self.pfacts: frozenset = frozenset()

    def copy(self) -> "State":
        s = State.__new__(State)
        s.mem = dict(self.mem)
        s.facts = self.facts
        s.events = self.events
        s.stack = self.stack
        s.counter = self.counter
        s.handling = self.handling
        s.notes = self.notes
        s.frames = tuple(dict(f) for f in self.frames)
        s.roots = self.roots
        s.evhash = self.evhash
        s.pfacts = self.pfacts
        return s

    def fresh(self, prefix="o") -> str:
        self.counter += 1
        return f"{prefix}{self.counter}"

    def add_fact(self, *facts) -> None:
        self.facts = self.facts | frozenset(facts)
        prot = [f for f in facts if protected(f)]
        if prot:
            self.pfacts = self.pfacts | frozenset(prot)

    def drop_facts(self, pred) -> None:
        self.facts = frozenset(f for f in self.facts if not pred(f))
        self.pfacts = frozenset(f for f in self.pfacts if not pred(f))

    def has(self, fact) -> bool:
        return fact in self.facts

    def emit(self, ev: Event) -> None:
        self.events = self.events + (ev,)
        self.evhash = hash((self.evhash, ev.sig(), self.pfacts))

    def fingerprint(self):
        return (
            frozenset((k, v.key()) for k, v in self.mem.items()),
            self.facts,
            self.evhash,
            self.handling and tuple(h.key() for h in self.handling),
        )
