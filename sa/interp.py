"""Path-sensitive abstract interpreter over the syntax tree.

For a root function and a *context* (protocol version, concrete gateway / tasks / transport
/ protocol classes) it enumerates the abstract paths through the root with all repo callees
inlined: each path carries must-facts, an ordered trace of events (external calls, stores,
callback invocations, deferred jobs) and ends in `return v`, `raise E` or a loop cut.
Primitive operations that may raise fork an exceptional path which is matched against the
enclosing `except` clauses of the whole inline stack. No input is ever concretised and no
solver is consulted; infeasible paths are pruned only by syntactic contradiction of facts.
"""
from __future__ import annotations

import ast
import builtins
import os
from typing import Dict, List, Optional, Tuple

from .frontend import AnalysisError, FuncInfo, Program, unparse
from .values import (
    rooted,
    PartialV,
    BoolV,
    BoundV,
    ClassV,
    Const,
    DictV,
    EnumClsV,
    EnumMemV,
    Event,
    ExcV,
    ExtObj,
    ExtV,
    FuncV,
    FutureV,
    ListV,
    ModV,
    Obj,
    State,
    Sym,
    TupleV,
    Unknown,
    V,
)

Outcome = Tuple[str, State, Optional[V]]  # kind in val/next/return/raise/break/continue/cut

MAX_DEPTH = 14
LOOP_UNROLL = 2


class Budget(Exception):
    pass


class Context:
    """Concrete classes and protocol version a root is analysed under."""

    def __init__(self, version, gateway, tasks, transport, protocol, name=None):
        self.version = version
        self.gateway = gateway  # class qual
        self.tasks = tasks
        self.transport = transport
        self.protocol = protocol
        self.name = name or f"{version}/{gateway.split(':')[1]}"

    def __repr__(self):
        return f"<ctx {self.name}>"


# ------------------------------------------------------------------ type seeds
# (declaring class bare name, attribute) -> (type, nullable). Checked against the constructors
# by rules.common.check_seeds(); an attribute not listed is of unknown type.
def T_cls(name):
    return ("cls", name)


SEEDS: Dict[Tuple[str, str], Tuple[object, bool]] = {
    ("Gateway", "sensors"): (("dict", "int", T_cls("Sensor")), False),
    ("Gateway", "tasks"): (T_cls("Tasks"), False),
    ("Gateway", "const"): ("constmod", False),
    ("Gateway", "handlers"): ("registry", False),
    ("Gateway", "event_callback"): ("usercb", True),
    ("Gateway", "on_conn_made"): ("usercb", True),
    ("Gateway", "on_conn_lost"): ("usercb", True),
    ("Gateway", "protocol_version"): ("str", False),
    ("Gateway", "metric"): ("bool", False),
    ("Gateway", "can_log"): ("bool", False),
    ("Gateway", "cancel_check_conn"): ("callable", True),
    ("Message", "gateway"): (T_cls("Gateway"), True),
    ("Message", "node_id"): ("int", False),
    ("Message", "child_id"): ("int", False),
    ("Message", "type"): ("int", False),
    ("Message", "ack"): ("int", False),
    ("Message", "sub_type"): ("int", False),
    ("Message", "payload"): ("str", False),
    ("Sensor", "sensor_id"): ("int", False),
    ("Sensor", "children"): (("dict", "int", T_cls("ChildSensor")), False),
    ("Sensor", "new_state"): (("dict", "int", T_cls("ChildSensor")), False),
    ("Sensor", "queue"): (("deque", "str"), False),
    ("Sensor", "reboot"): ("bool", False),
    ("Sensor", "_battery_level"): ("int", False),
    ("Sensor", "_heartbeat"): ("int", False),
    ("Sensor", "_protocol_version"): ("str", False),
    ("ChildSensor", "id"): ("int", False),
    ("ChildSensor", "type"): ("int", False),
    ("ChildSensor", "description"): ("str", False),
    ("ChildSensor", "values"): (("dict", "int", "str"), False),
    ("Tasks", "queue"): (("deque", "job"), False),
    ("Tasks", "ota"): (T_cls("OTAFirmware"), False),
    ("Tasks", "persistence"): (T_cls("Persistence"), True),
    ("Tasks", "transport"): (T_cls("Transport"), False),
    ("SyncTasks", "_cancel_save"): ("callable", True),
    ("AsyncTasks", "_cancel_save"): ("callable", True),
    ("SyncTasks", "_stop_event"): ("ext:threading.Event", False),
    ("OTAFirmware", "_sensors"): (("dict", "int", T_cls("Sensor")), False),
    ("OTAFirmware", "_const"): ("constmod", False),
    ("OTAFirmware", "firmware"): (("dict", "fwid", "fwrec"), False),
    ("OTAFirmware", "requested"): (("dict", "int", "fwid"), False),
    ("OTAFirmware", "unstarted"): (("dict", "int", "fwid"), False),
    ("OTAFirmware", "started"): (("dict", "int", "fwid"), False),
    ("Persistence", "_sensors"): (("dict", "int", T_cls("Sensor")), False),
    ("Persistence", "need_save"): ("bool", False),
    ("Persistence", "persistence_file"): ("str", False),
    ("Persistence", "persistence_bak"): ("str", False),
    ("Persistence", "schedule_save_sensors"): ("callable", False),
    ("Transport", "protocol"): (T_cls("Protocol"), True),
    ("Transport", "gateway"): (T_cls("Gateway"), False),
    ("Transport", "can_log"): ("bool", False),
    ("Transport", "reconnect_timeout"): ("float", False),
    ("Transport", "timeout"): ("float", False),
    ("Transport", "connect_task"): ("ext:asyncio.Task", True),
    ("Transport", "_connect"): ("callable", False),
    ("SyncTransport", "_lock"): ("ext:threading.Lock", False),
    ("MQTTTransport", "_pub_callback"): ("usercb", False),
    ("MQTTTransport", "_sub_callback"): ("usercb", False),
    ("MQTTTransport", "in_prefix"): ("str", False),
    ("MQTTTransport", "out_prefix"): ("str", False),
    ("MQTTTransport", "_retain"): ("bool", False),
    ("BaseMySensorsProtocol", "transport"): ("exttransport", True),
    ("BaseMySensorsProtocol", "gateway"): (T_cls("Gateway"), False),
    ("BaseMySensorsProtocol", "conn_lost_callback"): ("callable", False),
}

# aliases between access paths that denote the same object (checked by rules.common)
ALIAS_ATTRS = {
    ("OTAFirmware", "_sensors"): "sensors",
    ("Persistence", "_sensors"): "sensors",
}


class Interp:
    def __init__(self, program: Program, refl: dict, ctx: Context, extmodel, max_paths: int = 60000):
        self.p = program
        self.refl = refl
        self.ctx = ctx
        self.ext = extmodel
        self.max_paths = max_paths
        self.steps = 0
        self.unresolved: List[Tuple[str, str, int]] = []
        self.notes: List[str] = []
        self.trace_loads = set()  # attribute names whose loads are recorded as events
        self.yield_stack: list = []  # active `with <generator context manager>` statements
        self.trace_iters = False  # record `for` loops over state-rooted containers
        self.trace_defaults: set = set()  # parameter names whose defaulting is recorded as an event
        self.inline_skip = set()  # function quals not to inline (treated as opaque)
        self.loop_depth = 0
        self.table_values = False
        self._pure_cache: Dict[str, bool] = {}
        # get_const is a trusted primitive (its body is checked structurally by C18-R3):
        # it returns a const module and raises nothing for a sanitised version string.
        self.opaque_handlers = {
            "const:get_const": lambda it, st, info, args, kwargs, node: [("val", st, ModV("const:?"))],
            "const:version_at_least": self._version_at_least,
        }
        self._abstract = {
            "Gateway": ctx.gateway,
            "Tasks": ctx.tasks,
            "Transport": ctx.transport,
            "Protocol": ctx.protocol,
        }
        Unknown._n = 0

    # ------------------------------------------------------------------ helpers
    def cls_qual(self, bare: str) -> str:
        if bare in self._abstract and self._abstract[bare]:
            return self._abstract[bare]
        if ":" in bare:
            return bare
        return self.p.cls(bare).qual

    def norm_ty(self, ty):
        if isinstance(ty, tuple) and ty and ty[0] == "cls":
            return ("cls", self.cls_qual(ty[1]))
        return ty

    def ty_of(self, v: V):
        if isinstance(v, Obj):
            return ("cls", v.cls)
        return getattr(v, "ty", None)

    def attr_type(self, ty, name):
        """Declared type of attribute `name` on a value of type `ty`."""
        if not (isinstance(ty, tuple) and ty and ty[0] == "cls"):
            return None, False
        qual = ty[1]
        if qual not in self.p.classes:
            return None, False
        for c in self.p.mro(qual):
            if c.startswith("ext:"):
                continue
            bare = c.split(":")[1]
            if (bare, name) in SEEDS:
                t, nullable = SEEDS[(bare, name)]
                if isinstance(t, tuple) and t[:1] == ("cls",) and t[1] in self._abstract and not self._abstract[t[1]]:
                    # the context has no such class (the MQTT transports never create a protocol): always None
                    return "NoneType", True
                return self.norm_ty(t), nullable
        return None, False

    def where(self, st: State, node) -> Tuple[str, int]:
        fr = st.frames[-1] if st.frames else None
        return (fr["__func__"].qual if fr else "?", getattr(node, "lineno", 0))

    def emit(self, st: State, kind, name, node, recv=None, args=(), kwargs=None, extra=None, with_facts=False):
        func, line = self.where(st, node)
        st.emit(Event(kind, name, recv, args, kwargs, func, line, st.stack, st.facts, extra))

    def tick(self):
        self.steps += 1
        if self.steps > self.max_paths * 40:
            raise Budget("step budget exceeded")

    # ------------------------------------------------------------------- facts
    def truth(self, st: State, v: V) -> Optional[bool]:
        if isinstance(v, Const):
            return bool(v.value)
        if isinstance(v, (Obj, FuncV, BoundV, ClassV, ModV, EnumClsV, ExtObj, FutureV, ExcV, PartialV)):
            return True
        if isinstance(v, ExtV):
            return True if v.recv is None else None
        if isinstance(v, EnumMemV):
            vals = {self.enum_value(v.enum, v.version, n) for n in v.names}
            if all(x not in (0, None) for x in vals):
                return True
            if vals == {0}:
                return False
            return None
        if isinstance(v, TupleV):
            return len(v.items) > 0
        if isinstance(v, ListV):
            if v.items is not None:
                return len(v.items) > 0
            if v.nonempty:
                return True
        if isinstance(v, DictV) and v.closed:
            return len(v.entries) > 0
        if isinstance(v, BoolV):
            return self.atom_truth(st, v.atom)
        k = v.key()
        if ("truthy", k) in st.facts:
            return True
        if ("falsy", k) in st.facts or ("isnone", k) in st.facts:
            return False
        return None

    def atom_truth(self, st: State, atom) -> Optional[bool]:
        op = atom[0]
        if op == "not":
            t = self.atom_truth(st, atom[1])
            return None if t is None else (not t)
        if op == "in":
            if ("in", atom[1], atom[2]) in st.facts:
                return True
            if ("notin", atom[1], atom[2]) in st.facts:
                return False
            if ("falsy", atom[2]) in st.facts:
                return False  # nothing is a member of an empty container
            return None
        if op == "isnone":
            k = atom[1]
            if ("isnone", k) in st.facts:
                return True
            if ("notnone", k) in st.facts or ("truthy", k) in st.facts:
                return False
            return None
        if op == "truthy":
            k = atom[1]
            if ("truthy", k) in st.facts:
                return True
            if ("falsy", k) in st.facts or ("isnone", k) in st.facts:
                return False
            return None
        if op == "const":
            return bool(atom[1])
        if ("atom", atom, True) in st.facts:
            return True
        if ("atom", atom, False) in st.facts:
            return False
        return None

    def assume_atom(self, st: State, atom, truth: bool) -> Optional[State]:
        """Add `atom == truth` to the facts; None if it contradicts them."""
        known = self.atom_truth(st, atom)
        if known is not None:
            return st if known == truth else None
        op = atom[0]
        if op == "not":
            return self.assume_atom(st, atom[1], not truth)
        if op == "in":
            st.add_fact(("in" if truth else "notin", atom[1], atom[2]))
            if truth:
                st.add_fact(("truthy", atom[2]))
            return st
        if op == "isnone":
            st.add_fact(("isnone" if truth else "notnone", atom[1]))
            if truth:
                st.add_fact(("falsy", atom[1]))
            return st
        if op == "truthy":
            if truth:
                st.add_fact(("truthy", atom[1]), ("notnone", atom[1]))
            else:
                st.add_fact(("falsy", atom[1]))
            return st
        st.add_fact(("atom", atom, truth))
        return st

    def atom_of(self, v: V):
        if isinstance(v, BoolV):
            return v.atom
        if isinstance(v, Const):
            return ("const", bool(v.value))
        return ("truthy", v.key())

    def assume(self, st: State, v: V, truth: bool) -> Optional[State]:
        t = self.truth(st, v)
        if t is not None:
            return st if t == truth else None
        return self.assume_atom(st, self.atom_of(v), truth)

    def branch(self, st: State, v: V):
        """Split on the truth of v: returns [(state, bool)]."""
        t = self.truth(st, v)
        if t is not None:
            return [(st, t)]
        res = []
        s1 = self.assume(st.copy(), v, True)
        if s1 is not None:
            res.append((s1, True))
        s2 = self.assume(st, v, False)
        if s2 is not None:
            res.append((s2, False))
        return res

    def is_none(self, st: State, v: V) -> Optional[bool]:
        if isinstance(v, Const):
            return v.value is None
        if isinstance(v, (Obj, FuncV, BoundV, ClassV, ExtV, ModV, EnumClsV, EnumMemV, TupleV, ListV, DictV, BoolV, ExtObj, FutureV, ExcV, PartialV)):
            return False
        k = v.key()
        if ("isnone", k) in st.facts:
            return True
        if ("notnone", k) in st.facts or ("truthy", k) in st.facts:
            return False
        if not getattr(v, "nullable", False) and getattr(v, "ty", None) is not None:
            return False
        return None

    # --------------------------------------------------------------- enum data
    def enum_table(self, enum: str, version: Optional[str]):
        ver = version or self.ctx.version
        try:
            return self.refl["consts"][ver]["enums"][enum]
        except KeyError as exc:
            raise AnalysisError(f"enum {enum} not reflected for version {ver}") from exc

    def enum_value(self, enum, version, name):
        for n, val in self.enum_table(enum, version)["members"]:
            if n == name:
                return val
        return None

    def enum_has(self, enum, version, name) -> bool:
        return any(n == name for n, _ in self.enum_table(enum, version)["members"])

    def enum_has_safe(self, enum, version, name, value) -> bool:
        try:
            return self.enum_value(enum, version, name) == value
        except AnalysisError:
            return False

    def enum_canonical_names(self, enum, version):
        return [n for n, _ in self.enum_table(enum, version)["canonical"]]

    # -------------------------------------------------------------- exceptions
    def exc_class(self, st: State, node: ast.expr):
        """Resolve an `except` type expression to real exception classes (tuple)."""
        if isinstance(node, ast.Tuple):
            out = []
            for e in node.elts:
                out.extend(self.exc_class(st, e))
            return out
        dotted = unparse(node)
        fr = st.frames[-1]
        mod = fr["__func__"].module
        head = dotted.split(".")[0]
        res = self.p.resolve_global(mod, head)
        if res and res[0] == "assign" and "." not in dotted:
            return self.exc_class(st, res[2])
        cls = self.ext.resolve_exception(dotted, mod)
        if cls is None:
            raise AnalysisError(f"cannot resolve exception class {dotted!r} in {mod.label}")
        return [cls]

    def raise_(self, st: State, cls, node, what="") -> Outcome:
        func, line = self.where(st, node)
        exc = ExcV(cls, f"{func}:{line}", what or unparse(node)[:80], st.stack)
        exc.expr = " ".join(unparse(node).split())[:100] if isinstance(node, ast.AST) else ""
        exc.func = func
        return ("raise", st, exc)

    # ----------------------------------------------------------------- running
    def run(self, func: FuncInfo, args: List[V], kwargs: Optional[Dict[str, V]] = None, st: Optional[State] = None, self_val: Optional[V] = None) -> List[Outcome]:
        st = st or self.new_state()
        outs = self.call_func(st, FuncV(func) if self_val is None else BoundV(self_val, func), args, kwargs or {}, func.node)
        return outs

    def new_state(self) -> State:
        return State()

    # ---------------------------------------------------------------- calling
    def bind_params(self, st: State, info: FuncInfo, args: List[V], kwargs: Dict[str, V], node) -> Optional[Dict[str, V]]:
        a = info.node.args
        env: Dict[str, V] = {}
        params = [p.arg for p in a.posonlyargs + a.args]
        defaults = [None] * (len(params) - len(a.defaults)) + list(a.defaults)
        args = list(args)
        kwargs = dict(kwargs)
        for i, name in enumerate(params):
            if i < len(args):
                env[name] = args[i]
            elif name in kwargs:
                env[name] = kwargs.pop(name)
            elif defaults[i] is not None:
                env[name] = self.const_default(defaults[i])
                if name in self.trace_defaults:
                    self.emit(st, "default", f"{info.qual}:{name}", node, args=(env[name],))
            else:
                return None
        extra = args[len(params) :]
        if a.vararg:
            env[a.vararg.arg] = TupleV(extra)
        elif extra:
            return None
        for kwo, dflt in zip(a.kwonlyargs, a.kw_defaults):
            if kwo.arg in kwargs:
                env[kwo.arg] = kwargs.pop(kwo.arg)
            elif dflt is not None:
                env[kwo.arg] = self.const_default(dflt)
                if kwo.arg in self.trace_defaults:
                    self.emit(st, "default", f"{info.qual}:{kwo.arg}", node, args=(env[kwo.arg],))
            else:
                return None
        if a.kwarg:
            env[a.kwarg.arg] = DictV({k: v for k, v in kwargs.items() if k != "**"}, closed="**" not in kwargs, label=f"kw@{info.qual}:{len(st.frames)}:{getattr(node, 'lineno', 0)}")
        elif kwargs:
            if set(kwargs) - {"**"}:
                return None
        return env

    def const_default(self, node: ast.expr) -> V:
        try:
            return Const(ast.literal_eval(node))
        except (ValueError, SyntaxError):
            return Unknown(label="default:" + unparse(node)[:30])

    def call_func(self, st: State, fn: V, args: List[V], kwargs: Dict[str, V], node) -> List[Outcome]:
        """Call a repo function value; returns outcomes of kind val/raise/cut."""
        self.tick()
        if isinstance(fn, BoundV):
            info, args = fn.info, [fn.recv] + list(args)
            closure = None
        else:
            info, closure = fn.info, fn.closure
        if info.qual in self.opaque_handlers:
            return self.opaque_handlers[info.qual](self, st, info, args, kwargs, node)
        if len(st.frames) >= MAX_DEPTH or any(f["__func__"] is info for f in st.frames[-6:]) and sum(1 for f in st.frames if f["__func__"] is info) >= 2:
            self.emit(st, "recursion", info.qual, node)
            return [("val", st, Unknown(label=f"rec:{info.qual}"))]
        if isinstance(info.node, ast.Lambda):
            env = self.bind_params(st, info, args, kwargs, node)
            if env is None:
                return [self.raise_(st, TypeError, node, f"bad call of lambda")]
            frame = {"__func__": info, "__closure__": closure, **env}
            st.frames = st.frames + (frame,)
            outs = []
            for kind, s, v in self.ev(info.node.body, st):
                s.frames = s.frames[:-1] if kind != "cut" else s.frames
                outs.append((kind, s, v))
            return outs
        env = self.bind_params(st, info, args, kwargs, node)
        if env is None:
            return [self.raise_(st, TypeError, node, f"arguments do not match signature of {info.qual}")]
        frame = {"__func__": info, "__closure__": closure, **env}
        depth = len(st.frames)
        # a pure helper called from inside a pure helper leaves no trace of its own: the outer helper's paths are
        # joined at its return, which needs them to carry the same events whatever internal route they took
        short = info.qual.rsplit(".", 1)[-1].split(":")[-1]
        quiet = depth > 0 and short.startswith("_") and not short.startswith("__") and info.qual not in self.PURE_FUNCS and self.is_pure_helper(info) and any(self.is_pure_helper(f["__func__"]) for f in st.frames)
        st.frames = st.frames + (frame,)
        func, line = self.where(st, node) if depth else ("<root>", 0)
        st.stack = st.stack + (f"{info.qual}",)
        if not quiet:
            self.emit(st, "enter", info.qual, node, args=args)
        outs: List[Outcome] = []
        for kind, s, v in self.exec_block(info.node.body, st):
            if kind == "cut":
                outs.append((kind, s, v))
                continue
            s.frames = s.frames[:depth]
            s.stack = s.stack[:-1]
            if kind == "next":
                if not quiet:
                    self.emit_exit(s, info, node, Const(None))
                outs.append(("val", s, Const(None)))
            elif kind == "return":
                if not quiet:
                    self.emit_exit(s, info, node, v)
                outs.append(("val", s, v))
            elif kind == "raise":
                outs.append((kind, s, v))
            else:
                raise AnalysisError(f"{kind} outside loop in {info.qual}")
        return self.dedupe(outs, merge_facts=self.is_pure_helper(info))

    PURE_MODULES = ("validation", "const", "util")
    PURE_FUNCS = ("message:Message.validate", "message:Message.__repr__", "sensor:ChildSensor.get_schema", "sensor:ChildSensor.validate", "sensor:Sensor.validate_child_state")

    MUTATING_CALLS = {"append", "appendleft", "pop", "popleft", "popitem", "update", "clear", "extend", "insert", "remove", "setdefault", "add_job", "send", "alert", "setattr", "write", "close", "start", "cancel", "set", "rename", "replace", "dump", "fsync", "flush", "sleep", "add_sensor", "add_child_sensor", "set_handler"}

    def is_pure_helper(self, info) -> bool:
        """Helpers without effects on gateway state: their internal case splits are joined at return.

        Either one of the listed pure modules / functions, or syntactically pure: no store to an
        attribute or subscript, no del, no call of a mutating method, no await / raise-free is not
        required (raising is fine), and every repo call inside it is itself to a pure helper.
        """
        if info.module.name in self.PURE_MODULES or info.module.name.startswith("const_") or info.qual in self.PURE_FUNCS:
            return True
        cached = self._pure_cache.get(info.qual)
        if cached is not None:
            return cached
        self._pure_cache[info.qual] = False  # recursion guard
        pure = True
        for n in ast.walk(info.node):
            if isinstance(n, (ast.Assign, ast.AugAssign, ast.AnnAssign)):
                targets = n.targets if isinstance(n, ast.Assign) else [n.target]
                for t in targets:
                    for tt in ast.walk(t):
                        if isinstance(tt, (ast.Attribute, ast.Subscript)) and isinstance(getattr(tt, "ctx", None), ast.Store):
                            pure = False
            elif isinstance(n, (ast.Delete, ast.Await, ast.Global, ast.Nonlocal, ast.With, ast.AsyncWith)):
                pure = False
            elif isinstance(n, ast.Call):
                f = n.func
                name = f.attr if isinstance(f, ast.Attribute) else (f.id if isinstance(f, ast.Name) else "")
                if name in self.MUTATING_CALLS:
                    pure = False
                elif isinstance(f, ast.Name) and self.p.resolve_global(info.module, name) and self.p.resolve_global(info.module, name)[0] == "class" and not self.p.resolve_global(info.module, name)[1].module.name.startswith("const"):
                    pure = False  # creates an object of a repo class (its constructor stores attributes)
                elif isinstance(f, ast.Attribute) and isinstance(f.value, ast.Call):
                    pure = False  # method call on a freshly created / returned object: not known to be effect free
                elif isinstance(f, ast.Name):
                    r = self.p.resolve_global(info.module, name)
                    if r and r[0] == "func" and r[1] is not info and not self.is_pure_helper(r[1]):
                        pure = False  # calls a repo function that has effects
                elif isinstance(f, ast.Attribute) and isinstance(f.value, ast.Name) and f.value.id == "self" and info.cls is not None:
                    m = self.p.find_method(info.cls.qual, name)
                    if isinstance(m, FuncInfo) and m is not info and not self.is_pure_helper(m):
                        pure = False
            if not pure:
                break
        self._pure_cache[info.qual] = pure
        return pure

    def emit_exit(self, s, info, node, value=None):
        func, line = (s.frames[-1]["__func__"].qual, getattr(node, "lineno", 0)) if s.frames else ("<root>", 0)
        if self.is_pure_helper(info):
            # the value a pure helper returned does not identify the path: keep it out of the signature
            s.emit(Event("exit", info.qual, None, (), None, func, line, s.stack, s.facts, value))
        else:
            s.emit(Event("exit", info.qual, None, (value,) if value is not None else (), None, func, line, s.stack, s.facts))

    def dedupe(self, outs: List[Outcome], merge_facts: bool = False) -> List[Outcome]:
        """Join outcomes that differ only in *unprotected* must-facts (facts about temporaries
        and message fields are intersected). Protected facts - those about long-lived gateway
        state and the path-identity facts (validated, dispatch, canonical) - are part of the
        key, also at the time of every event (they are hashed into the event trace)."""
        if len(outs) < 2:
            return outs
        groups: Dict[object, int] = {}
        res: List[Outcome] = []
        for kind, s, v in outs:
            fp = (
                kind,
                v.key() if isinstance(v, V) else v,
                frozenset((k, x.key()) for k, x in s.mem.items()),
                s.evhash,
                len(s.events),
                tuple(h.key() for h in s.handling),
                tuple(frozenset((k, x.key()) for k, x in f.items() if isinstance(x, V)) for f in s.frames),
                s.pfacts,
            )
            if fp in groups:
                i = groups[fp]
                k0, s0, v0 = res[i]
                if s0.facts != s.facts:
                    s0.facts = s0.facts & s.facts
                continue
            groups[fp] = len(res)
            res.append((kind, s, v))
        if len(res) > self.max_paths:
            raise Budget(f"more than {self.max_paths} paths")
        return res

    def call(self, st: State, fn: V, args: List[V], kwargs: Dict[str, V], node) -> List[Outcome]:
        """Call any callable abstract value."""
        if isinstance(fn, PartialV):
            kw = dict(fn.kwargs)
            kw.update(kwargs)
            return self.call(st, fn.fn, list(fn.args) + list(args), kw, node)
        if isinstance(fn, (FuncV, BoundV)):
            info = fn.info
            if info.is_async:
                return [("val", st, FutureV(fn, args, kwargs, "coro"))]
            if any(d.split(".")[-1] == "contextmanager" for d in info.decorators):
                return [("val", st, FutureV(fn, args, kwargs, "ctxmgr"))]
            if self.is_generator(info):
                # a generator function: nothing runs at the call; `for ... in` drives the body (see _for_generator)
                return [("val", st, FutureV(fn, args, kwargs, "gen"))]
            if isinstance(fn, FuncV) and not getattr(fn, "raw", False) and info.decorators:
                # repo-defined decorators (`@_guard` under the registry decorator): the name is bound to what the
                # decorator returned, so the call goes through the wrapper it builds around the raw function
                decs = []
                for d in info.decorators:
                    if "." not in d:
                        r = self.p.resolve_global(info.module, d)
                        if r and r[0] == "func":
                            decs.append(r[1])
                if decs:
                    cur: V = FuncV(info, fn.closure)
                    cur.raw = True
                    s_cur = st
                    ok = True
                    for dinfo in reversed(decs):
                        outs = self.call_func(s_cur, FuncV(dinfo), [cur], {}, node)
                        vals = [(s2, v2) for k2, s2, v2 in outs if k2 == "val"]
                        if len(outs) != 1 or len(vals) != 1 or not isinstance(vals[0][1], (FuncV, BoundV, PartialV)):
                            ok = False
                            break
                        s_cur, cur = vals[0]
                    if ok:
                        return self.call(s_cur, cur, args, kwargs, node)
                    raise AnalysisError(f"decorator of {info.qual} does not return a single callable")
            if info.qual in self.inline_skip:
                self.emit(st, "opaque", info.qual, node, args=([fn.recv] + list(args)) if isinstance(fn, BoundV) else args)
                return [("val", st, Unknown(label=f"opaque:{info.qual}:{getattr(node,'lineno',0)}"))]
            return self.call_func(st, fn, args, kwargs, node)
        if isinstance(fn, ClassV):
            return self.instantiate(st, fn.qual, args, kwargs, node)
        if isinstance(fn, EnumClsV):
            return self.enum_lookup(st, fn, args, node)
        if isinstance(fn, ExtV):
            return self.ext.call(self, st, fn, args, kwargs, node)
        if isinstance(fn, ExtObj):
            return self.ext.call_extobj(self, st, fn, args, kwargs, node)
        if isinstance(fn, Const) and fn.value is None:
            return [self.raise_(st, TypeError, node, "'NoneType' object is not callable")]
        if isinstance(fn, Const):
            return [self.raise_(st, TypeError, node, f"{fn.value!r} is not callable")]
        ty = getattr(fn, "ty", None)
        if ty == "usercb":
            return self.ext.call_user_callback(self, st, fn, args, kwargs, node)
        nn = self.is_none(st, fn)
        outs: List[Outcome] = []
        if nn is True:
            return [self.raise_(st, TypeError, node, "'NoneType' object is not callable")]
        if nn is None and getattr(fn, "nullable", False):
            outs.append(self.raise_(st.copy(), TypeError, node, f"{unparse(getattr(node,'func',node))} may be None"))
        self.emit(st, "call", "?callable", node, recv=fn, args=args, kwargs=kwargs)
        outs.append(("val", st, Unknown(label=f"res:{self.where(st,node)}")))
        return outs

    def instantiate(self, st: State, qual: str, args, kwargs, node) -> List[Outcome]:
        cls = self.p.classes[qual]
        oid = st.fresh("o")
        obj = Obj(f"{cls.name}#{oid}@{getattr(node,'lineno',0)}", qual)
        self.emit(st, "new", qual, node, recv=obj, args=args, kwargs=kwargs)
        init = self.p.find_method(qual, "__init__")
        if isinstance(init, FuncInfo):
            outs = []
            for kind, s, v in self.call_func(st, BoundV(obj, init), args, kwargs, node):
                outs.append((kind, s, obj if kind == "val" else v))
            return outs
        return [("val", st, obj)]

    def enum_lookup(self, st: State, ecls: EnumClsV, args, node) -> List[Outcome]:
        """EnumClass(value): ValueError unless the value is known to be a member."""
        if len(args) != 1:
            return [self.raise_(st, TypeError, node)]
        arg = args[0]
        names = tuple(self.enum_canonical_names(ecls.enum, ecls.version))
        outs: List[Outcome] = []
        if isinstance(arg, EnumMemV) and arg.enum == ecls.enum:
            return [("val", st, arg)]
        if isinstance(arg, Const):
            hit = [n for n in names if self.enum_value(ecls.enum, ecls.version, n) == arg.value]
            if hit:
                return [("val", st, EnumMemV(ecls.enum, ecls.version, (hit[0],), arg.key()))]
            return [self.raise_(st, ValueError, node, f"{arg.value!r} is not a valid {ecls.enum}")]
        # narrowing by equality facts established earlier on the path
        known = [f for f in st.facts if f[0] == "enumeq" and f[1] == arg.key() and f[2] == ecls.enum]
        if known:
            return [("val", st, EnumMemV(ecls.enum, ecls.version, (known[0][3],), arg.key()))]
        if not self.valid_member_fact(st, arg, ecls.enum):
            outs.append(self.raise_(st.copy(), ValueError, node, f"{unparse(node)}: value not known to be a member of {ecls.enum}"))
        outs.append(("val", st, EnumMemV(ecls.enum, ecls.version, names, arg.key())))
        return outs

    def valid_member_fact(self, st: State, arg: V, enum: str) -> bool:
        return ("member", arg.key(), enum) in st.facts

    # -------------------------------------------------------------- attribute
    def load_attr(self, st: State, base: V, name: str, node) -> List[Outcome]:
        self.tick()
        if name in self.trace_loads:
            self.emit(st, "load", name, node, recv=base)
        if isinstance(base, ModV):
            return [("val", st, self.module_attr(st, base, name, node))]
        if isinstance(base, ClassV):
            cls = self.p.classes[base.qual]
            m = self.p.find_method(base.qual, name)
            if isinstance(m, FuncInfo):
                if "classmethod" in m.decorators:
                    return [("val", st, BoundV(base, m))]
                return [("val", st, FuncV(m))]
            for c in self.p.mro(base.qual):
                if not c.startswith("ext:") and name in self.p.classes[c].class_attrs:
                    return self.ev(self.p.classes[c].class_attrs[name], st)
            return [("val", st, Unknown(label=f"{cls.name}.{name}"))]
        if isinstance(base, EnumClsV):
            if self.enum_has(base.enum, base.version, name):
                return [("val", st, EnumMemV(base.enum, base.version, (name,)))]
            return [self.raise_(st, AttributeError, node, f"{base.enum} has no member {name} in version {base.version or self.ctx.version}")]
        if isinstance(base, EnumMemV):
            if name == "name":
                if len(base.names) == 1:
                    return [("val", st, Const(base.names[0]))]
                outs = []
                for n in base.names:
                    s = st.copy()
                    if base.origin is not None:
                        s.add_fact(("enumeq", base.origin, base.enum, n))
                    outs.append(("val", s, Const(n)))
                return outs
            if name == "value":
                if len(base.names) == 1:
                    return [("val", st, Const(self.enum_value(base.enum, base.version, base.names[0])))]
                return [("val", st, Unknown("int", label=f"enumvalue:{base.key()}"))]
            m = self.enum_method(base, name)
            if m is not None:
                return [("val", st, BoundV(base, m))]
            return [("val", st, Unknown(label=f"enumattr:{name}"))]
        if isinstance(base, Const) and base.value is None:
            return [self.raise_(st, AttributeError, node, f"'NoneType' object has no attribute {name!r}")]
        if isinstance(base, (Const, TupleV, ListV, DictV)) or isinstance(base, ExtObj):
            return [("val", st, self.ext.ext_attr(self, st, base, name, node))]
        if isinstance(base, ExcV):
            return [("val", st, Unknown(label=f"exc.{name}"))]
        outs: List[Outcome] = []
        # possible None dereference
        nn = self.is_none(st, base)
        if nn is True:
            return [self.raise_(st, AttributeError, node, f"{unparse(node)}: receiver is None")]
        if nn is None and getattr(base, "nullable", False):
            outs.append(self.raise_(st.copy(), AttributeError, node, f"{unparse(node)}: receiver may be None"))
            st.add_fact(("notnone", base.key()))
        ty = self.ty_of(base)
        if isinstance(ty, tuple) and ty[0] == "cls" and ty[1] in self.p.classes:
            qual = ty[1]
            if name == "__dict__" and isinstance(base, Sym):
                # the instance dict of a symbolic repo object: the attributes its constructors assign, each with
                # the value the attribute has on this path (exact keys: __getstate__ / encoders iterate and edit it)
                names = self.ctor_attrs(qual)
                if names:
                    ents = {}
                    for a in names:
                        loc = (base.key(), "a", a)
                        at, nullable = self.attr_type(ty, a)
                        ents[a] = st.mem[loc] if loc in st.mem else Sym(("attr", base.key(), a), at, nullable)
                    return outs + [("val", st, DictV(ents, True, label=f"__dict__:{base.key()!r}"))]
            prop = self.p.find_prop(qual, name)
            if prop is not None and "get" in prop:
                return outs + self.call_func(st, BoundV(base, prop["get"]), [], {}, node)
            dp = self.dyn_prop(qual, name)
            if dp is not None:
                fget = dp.args[0] if dp.args else dp.kwargs.get("fget")
                if fget is None or (isinstance(fget, Const) and fget.value is None):
                    return outs + [self.raise_(st, AttributeError, node, f"unreadable attribute {name}")]
                return outs + self.call(st, fget, [base], {}, node)
            loc = (base.key(), "a", name)
            if loc in st.mem:
                return outs + [("val", st, st.mem[loc])]
            m = self.p.find_method(qual, name)
            if isinstance(m, FuncInfo):
                if "staticmethod" in m.decorators:
                    return outs + [("val", st, FuncV(m))]
                if "classmethod" in m.decorators:
                    return outs + [("val", st, BoundV(ClassV(qual), m))]
                return outs + [("val", st, BoundV(base, m))]
            if isinstance(m, tuple):
                # method inherited from an external base class
                at, nullable = self.attr_type(ty, name)
                if at is None:
                    return outs + [("val", st, ExtV(f"{m[1]}.{name}", base))]
            for c in self.p.mro(qual):
                if not c.startswith("ext:") and name in self.p.classes[c].class_attrs:
                    return outs + self.ev(self.p.classes[c].class_attrs[name], st)
            at, nullable = self.attr_type(ty, name)
            # alias: OTAFirmware._sensors / Persistence._sensors are Gateway.sensors
            bare = qual.split(":")[1]
            for c in self.p.mro(qual):
                b = c.split(":")[-1]
                if (b, name) in ALIAS_ATTRS and "GW" in st.roots:
                    gw = st.roots["GW"]
                    return outs + self.load_attr(st, gw, ALIAS_ATTRS[(b, name)], node)
            if at == "NoneType":
                return outs + [("val", st, Const(None))]
            if isinstance(base, Obj):
                return outs + [("val", st, Unknown(at, label=f"{base.oid}.{name}", nullable=nullable))]
            return outs + [("val", st, Sym(("attr", base.key(), name), at, nullable))]
        if isinstance(ty, str) and ty == "constmod":
            return outs + [("val", st, self.const_attr(st, base, name, node))]
        loc = (base.key(), "a", name)
        if loc in st.mem:
            return outs + [("val", st, st.mem[loc])]
        # builtin / external typed receivers: methods come from the external model
        return outs + [("val", st, self.ext.ext_attr(self, st, base, name, node))]

    def ctor_attrs(self, qual: str) -> List[str]:
        """Instance attributes assigned (`self.x = ...`) by the __init__ methods along the MRO of a repo class,
        in assignment order."""
        cache = self.__dict__.setdefault("_ctor_attrs", {})
        if qual not in cache:
            names: List[str] = []
            for c in reversed([c for c in self.p.mro(qual) if not c.startswith("ext:")]):
                init = self.p.classes[c].methods.get("__init__")
                if init is None:
                    continue
                selfname = init.node.args.args[0].arg if init.node.args.args else "self"
                from .rules.common import self_helper_bodies

                class _A:  # what self_helper_bodies needs of an analysis
                    p = self.p

                for n in (x for b in self_helper_bodies(_A, init) for x in ast.walk(b)):
                    tgts = n.targets if isinstance(n, ast.Assign) else [n.target] if isinstance(n, (ast.AnnAssign, ast.AugAssign)) else []
                    for t in tgts:
                        for tt in (t.elts if isinstance(t, ast.Tuple) else [t]):
                            if isinstance(tt, ast.Attribute) and isinstance(tt.value, ast.Name) and tt.value.id == selfname and tt.attr not in names:
                                names.append(tt.attr)
            cache[qual] = names
        return cache[qual]

    def dyn_prop(self, qual: str, name: str):
        """The property object a repo factory built at class creation (`x = _make_property(...)` in a class
        body), or None. The class-body call is evaluated once, in the module of the class."""
        cache = self.__dict__.setdefault("_dynprops", {})
        key = (qual, name)
        if key not in cache:
            val = None
            for c in self.p.mro(qual):
                if c.startswith("ext:"):
                    continue
                cinfo = self.p.classes[c]
                if name in cinfo.props or name in cinfo.methods:
                    break
                expr = cinfo.class_attrs.get(name)
                if expr is None:
                    continue
                anchor = next(iter(cinfo.methods.values()), None)
                if isinstance(expr, ast.Call) and anchor is not None:
                    s0 = self.new_state()
                    s0.frames = ({"__func__": anchor, "__closure__": None},)
                    try:
                        outs = self.ev(expr, s0)
                    except AnalysisError:
                        outs = []
                    if len(outs) == 1 and outs[0][0] == "val" and isinstance(outs[0][2], ExtObj) and outs[0][2].cls == "property":
                        val = outs[0][2]
                break
            cache[key] = val
        return cache[key]

    def enum_method(self, base: EnumMemV, name: str):
        ver = base.version or self.ctx.version
        modname = self.refl["consts"][ver]["enums"][base.enum]["defined_in"]
        mod = self.p.module_of_dotted(modname)
        if mod is None:
            return None
        res = self.p.resolve_global(mod, base.enum)
        if res and res[0] == "class":
            m = self.p.find_method(res[1].qual, name)
            if isinstance(m, FuncInfo):
                return m
        return None

    def const_module(self, version=None) -> ModV:
        return ModV(f"const:{version or self.ctx.version}")

    def const_attr(self, st, base, name, node) -> V:
        ver = None
        if isinstance(base, ModV) and base.name.startswith("const:"):
            ver = base.name.split(":", 1)[1]
            if ver == "?":
                ver = None
        if name in ("MessageType", "Presentation", "SetReq", "Internal", "Stream"):
            if ver is None and not (isinstance(base, ModV)):
                ver = self.ctx.version
            if ver is None:
                return Unknown(label=f"const?.{name}")
            return EnumClsV(name, ver)
        if name == "MAX_NODE_ID" and (ver or self.ctx.version):
            return Const(self.refl["consts"][ver or self.ctx.version]["MAX_NODE_ID"])
        if name == "get_handler_registry":
            return ExtV("const.get_handler_registry", base)
        if self.table_values and ver is not None and name in ("VALID_MESSAGE_TYPES", "VALID_PAYLOADS"):
            return self.table_value(ver, name)
        return Unknown(label=f"const.{name}")

    def table_value(self, ver: str, name: str) -> V:
        """Exact abstract value of a reflected const table (used by the C03 header-rule evaluation)."""
        c = self.refl["consts"][ver]
        if name == "VALID_MESSAGE_TYPES":
            entries, keyobjs = {}, {}
            for tval, rows in c["VALID_MESSAGE_TYPES"].items():
                t = int(tval)
                tname = next((n for n, v in c["enums"]["MessageType"]["canonical"] if v == t), None)
                entries[t] = ListV([EnumMemV(r[0], ver, (r[1],)) for r in rows], label=f"vmt:{ver}:{t}")
                keyobjs[t] = EnumMemV("MessageType", ver, (tname,)) if tname else Const(t)
            d = DictV(entries, True, label=f"VALID_MESSAGE_TYPES:{ver}")
            d.keyobjs = keyobjs
            return d
        entries = {}
        for tval, rows in c["VALID_PAYLOADS"].items():
            sub = {}
            keyobjs = {}
            for sval, row in rows.items():
                sub[int(sval)] = ExtObj(f"payloadrule:{ver}:{tval}:{sval}", "refl.validator", [Const(repr(row["d"]))])
                if row.get("key_cls") and row.get("key_name") and self.enum_has_safe(row["key_cls"], ver, row["key_name"], int(sval)):
                    keyobjs[int(sval)] = EnumMemV(row["key_cls"], ver, (row["key_name"],))
                else:
                    keyobjs[int(sval)] = Const(int(sval))  # key is a member of another version's enum
            dv = DictV(sub, True, label=f"VALID_PAYLOADS:{ver}:{tval}")
            dv.keyobjs = keyobjs
            entries[int(tval)] = dv
        return DictV(entries, True, label=f"VALID_PAYLOADS:{ver}")

    def module_attr(self, st, base: ModV, name, node) -> V:
        if base.name.startswith("const:"):
            return self.const_attr(st, base, name, node)
        if base.name.startswith("repo:"):
            mod = self.p.module_of_dotted(base.name[5:])
            if mod is not None:
                v = self.global_value(mod, name)
                if v is not None:
                    return v
            return Unknown(label=f"{base.name}.{name}")
        return self.ext.module_attr(base.name[4:], name)

    def store_attr(self, st: State, base: V, name: str, val: V, node) -> List[Outcome]:
        ty = self.ty_of(base)
        outs: List[Outcome] = []
        if isinstance(base, Const) and base.value is None:
            return [self.raise_(st, AttributeError, node, "store on None")]
        nn = self.is_none(st, base)
        if nn is None and getattr(base, "nullable", False):
            outs.append(self.raise_(st.copy(), AttributeError, node, f"{unparse(node)}: receiver may be None"))
            st.add_fact(("notnone", base.key()))
        if isinstance(ty, tuple) and ty[0] == "cls" and ty[1] in self.p.classes:
            prop = self.p.find_prop(ty[1], name)
            if prop is not None and "set" in prop:
                res = []
                for kind, s, v in self.call_func(st, BoundV(base, prop["set"]), [val], {}, node):
                    res.append(("next" if kind == "val" else kind, s, v))
                return outs + res
            dp = self.dyn_prop(ty[1], name) if prop is None else None
            if dp is not None:
                fset = dp.args[1] if len(dp.args) > 1 else dp.kwargs.get("fset")
                if fset is None or (isinstance(fset, Const) and fset.value is None):
                    return outs + [self.raise_(st, AttributeError, node, f"can't set attribute {name}")]
                return outs + [("next" if kind == "val" else kind, s, v) for kind, s, v in self.call(st, fset, [base, val], {}, node)]
        self.emit(st, "store", name, node, recv=base, args=(val,), with_facts=True)
        st.mem[(base.key(), "a", name)] = val
        return outs + [("next", st, None)]

    # ------------------------------------------------------------------- names
    def global_value(self, mod, name) -> Optional[V]:
        res = self.p.resolve_global(mod, name)
        if res is None:
            return None
        kind = res[0]
        if kind == "func":
            return FuncV(res[1])
        if kind == "class":
            c = res[1]
            if c.module.name.startswith("const_") and c.name in ("MessageType", "Presentation", "SetReq", "Internal", "Stream"):
                ver = self.version_of_const_module(c.module.dotted)
                return EnumClsV(c.name, ver)
            return ClassV(c.qual)
        if kind == "module":
            return ModV("repo:" + res[1])
        if kind == "ext":
            return self.ext.name_value(res[1])
        if kind == "assign":
            amod, expr = res[1], res[2]
            try:
                lit = ast.literal_eval(expr)
                if isinstance(lit, (dict, list, set)) and self.p.global_mutated(amod, name):
                    # run-time state, not a table: its content at a use is unknown
                    ty = ("dict", None, None) if isinstance(lit, dict) else type(lit).__name__
                    return Sym(("global", amod.label, name), ty)
                return Const(lit)
            except (ValueError, SyntaxError):
                pass
            if isinstance(expr, (ast.Tuple, ast.List, ast.Call)) and not self.p.global_mutated(amod, name):
                v = self.module_expr_value(amod, expr)
                if v is not None:
                    return v
            special = self.ext.global_assign(self, amod, name, expr)
            if special is not None:
                return special
            if isinstance(expr, ast.Call) and not self.p.global_mutated(amod, name):
                # `_COERCE_INT = vol.Coerce(int)`: an object built once at import - evaluated once, in its module
                cache = self.__dict__.setdefault("_modcalls", {})
                key = (amod.label, name)
                if key not in cache:
                    cache[key] = None
                    anchor = next((f for f in self.p.funcs.values() if f.module is amod and f.parent is None and not isinstance(f.node, ast.Lambda)), None)
                    if anchor is not None:
                        s0 = self.new_state()
                        s0.frames = ({"__func__": anchor, "__closure__": None},)
                        try:
                            outs = self.ev(expr, s0)
                        except (AnalysisError, Budget):
                            outs = []
                        if len(outs) == 1 and outs[0][0] == "val" and isinstance(outs[0][2], (ExtObj, Const, TupleV, FuncV, PartialV)):
                            cache[key] = outs[0][2]
                if cache[key] is not None:
                    return cache[key]
            return Sym(("global", amod.label, name), None)
        return None

    def module_expr_value(self, mod, expr, depth: int = 0) -> Optional[V]:
        """Value of a module-level table expression: nested tuples / lists of constants and global names."""
        if depth > 6:
            return None
        if isinstance(expr, ast.Constant):
            return Const(expr.value)
        if isinstance(expr, ast.Name):
            return self.global_value(mod, expr.id)
        if isinstance(expr, ast.Call) and isinstance(expr.func, ast.Name) and expr.func.id in ("frozenset", "set", "tuple", "list") and len(expr.args) == 1 and not expr.keywords:
            inner = self.module_expr_value(mod, expr.args[0], depth + 1)
            if isinstance(inner, Const) and isinstance(inner.value, (tuple, list, set, frozenset)):
                conv = {"frozenset": frozenset, "set": frozenset, "tuple": tuple, "list": list}[expr.func.id]
                return Const(conv(inner.value))
            return None
        if isinstance(expr, (ast.Tuple, ast.List)):
            items = []
            for e in expr.elts:
                v = self.module_expr_value(mod, e, depth + 1)
                if v is None:
                    return None
                items.append(v)
            try:
                return Const(ast.literal_eval(expr))
            except (ValueError, SyntaxError):
                pass
            return TupleV(items)
        return None

    def version_of_const_module(self, dotted: str) -> Optional[str]:
        for ver, mn in self.refl["const_versions"].items():
            if mn == dotted:
                return ver
        return None

    def lookup(self, st: State, name: str, node) -> V:
        fr = st.frames[-1]
        if name in fr:
            return fr[name]
        clo = fr.get("__closure__")
        while clo is not None:
            if name in clo:
                return clo[name]
            clo = clo.get("__closure__")
        # nested function definitions of enclosing functions that are not bound yet
        info = fr["__func__"]
        p = info
        while p is not None:
            q = f"{p.qual}.{name}"
            if q in self.p.funcs:
                return FuncV(self.p.funcs[q], fr if p is info else fr.get("__closure__"))
            p = p.parent
        v = self.global_value(info.module, name)
        if v is not None:
            return v
        if hasattr(builtins, name):
            return self.ext.name_value("builtins." + name)
        raise AnalysisError(f"unresolved name {name!r} in {info.qual}:{getattr(node,'lineno',0)}")

    # ------------------------------------------------------------- expressions
    def seq(self, outs: List[Outcome], fn) -> List[Outcome]:
        res: List[Outcome] = []
        for kind, s, v in outs:
            if kind == "val":
                res.extend(fn(s, v))
            else:
                res.append((kind, s, v))
        return res

    def ev_list(self, nodes: List[ast.expr], st: State) -> List[Tuple[str, State, object]]:
        """Evaluate expressions left to right; 'val' outcomes carry a list of values."""
        outs: List[Tuple[str, State, object]] = [("val", st, [])]
        for n in nodes:
            nxt = []
            for kind, s, vals in outs:
                if kind != "val":
                    nxt.append((kind, s, vals))
                    continue
                if isinstance(n, ast.Starred):
                    for k2, s2, v2 in self.ev(n.value, s):
                        if k2 != "val":
                            nxt.append((k2, s2, v2))
                        elif isinstance(v2, (TupleV,)) or (isinstance(v2, ListV) and v2.items is not None):
                            nxt.append(("val", s2, vals + list(v2.items)))
                        else:
                            nxt.append(("val", s2, vals + [Unknown(label="*star")]))
                    continue
                for k2, s2, v2 in self.ev(n, s):
                    if k2 == "val":
                        nxt.append(("val", s2, vals + [v2]))
                    else:
                        nxt.append((k2, s2, v2))
            outs = nxt
        return outs

    def ev(self, node: ast.expr, st: State) -> List[Outcome]:
        self.tick()
        meth = getattr(self, "ev_" + type(node).__name__, None)
        if meth is None:
            raise AnalysisError(f"unsupported expression {type(node).__name__} at {self.where(st,node)}: {unparse(node)[:60]}")
        return meth(node, st)

    def ev_Constant(self, node, st):
        return [("val", st, Const(node.value))]

    def ev_Name(self, node, st):
        return [("val", st, self.lookup(st, node.id, node))]

    def ev_Attribute(self, node, st):
        return self.seq(self.ev(node.value, st), lambda s, b: self.load_attr(s, b, node.attr, node))

    def ev_JoinedStr(self, node, st):
        parts = [v.value for v in node.values if isinstance(v, ast.FormattedValue)]
        outs = self.ev_list(parts, st)
        res = []
        for kind, s, vals in outs:
            if kind != "val":
                res.append((kind, s, vals))
                continue
            # constant folding when every interpolated value is a plain constant
            if all(isinstance(v, Const) and isinstance(v.value, (str, int)) and not isinstance(v.value, bool) for v in vals) and all(
                not isinstance(p, ast.FormattedValue) or (p.format_spec is None and p.conversion == -1) for p in node.values
            ):
                it = iter(vals)
                text = "".join(str(p.value) if isinstance(p, ast.Constant) else str(next(it).value) for p in node.values)
                res.append(("val", s, Const(text)))
                continue
            u = Unknown("str", label=f"fstr:{self.where(s,node)}:{node.col_offset}")
            lit = "".join(p.value for p in node.values if isinstance(p, ast.Constant) and isinstance(p.value, str))
            u.minsep = {ch: lit.count(ch) for ch in "/;," if lit.count(ch)}
            # the pieces in order (literal text or value), for rules that ask what a string starts / ends with
            it_vals = iter(vals)
            u.parts = [p.value if isinstance(p, ast.Constant) else next(it_vals) for p in node.values]
            res.append(("val", s, u))
        return res

    def ev_Tuple(self, node, st):
        return [(k, s, TupleV(v) if k == "val" else v) for k, s, v in self.ev_list(node.elts, st)]

    def site_label(self, st, node, prefix):
        f, l = self.where(st, node)
        return f"{prefix}@{f}:{l}:{getattr(node, 'col_offset', 0)}"

    def ev_List(self, node, st):
        return [(k, s, ListV(v, label=self.site_label(s, node, "l")) if k == "val" else v) for k, s, v in self.ev_list(node.elts, st)]

    def ev_Set(self, node, st):
        return [(k, s, ListV(v, label=self.site_label(s, node, "s")) if k == "val" else v) for k, s, v in self.ev_list(node.elts, st)]

    def ev_Dict(self, node, st):
        keys = [k for k in node.keys]
        if any(k is None for k in keys):
            # {literal entries, **spread}: later entries win; a key written literally is present whatever the spread holds
            res = []
            for kind, s, vals in self.ev_list([k for k in node.keys if k is not None] + list(node.values), st):
                if kind != "val":
                    res.append((kind, s, vals))
                    continue
                nk = sum(1 for k in node.keys if k is not None)
                kvals, vvals = list(vals[:nk]), list(vals[nk:])
                entries: Dict = {}
                closed = True
                ok = True
                ki = 0
                for k, v in zip(node.keys, vvals):
                    if k is None:
                        if isinstance(v, DictV):
                            if not v.closed:
                                closed = False
                                # an open spread may override any earlier key with an unknown value
                                for name in list(entries):
                                    if name not in v.entries:
                                        entries[name] = Unknown(label=f"maybe-overridden:{name}:{self.where(s,node)}")
                            entries.update(v.entries)
                        else:
                            ok = False
                    else:
                        kv = kvals[ki]
                        ki += 1
                        if isinstance(kv, Const):
                            entries[kv.value] = v
                        else:
                            ok = False
                res.append(("val", s, DictV(entries, closed=closed, label=self.site_label(s, node, "d")) if ok else Unknown("dict")))
            return res
        outs = self.ev_list(list(node.keys) + list(node.values), st)
        res = []
        n = len(node.keys)
        for kind, s, vals in outs:
            if kind != "val":
                res.append((kind, s, vals))
                continue
            entries = {}
            closed = True
            for k, v in zip(vals[:n], vals[n:]):
                if isinstance(k, Const):
                    entries[k.value] = v
                else:
                    closed = False
            res.append(("val", s, DictV(entries, closed, label=self.site_label(s, node, "d"))))
        return res

    def ev_BoolOp(self, node, st):
        is_and = isinstance(node.op, ast.And)

        def step(i, s):
            outs = []
            for kind, s1, v in self.ev(node.values[i], s):
                if kind != "val":
                    outs.append((kind, s1, v))
                    continue
                if i == len(node.values) - 1:
                    outs.append(("val", s1, v))
                    continue
                for s2, t in self.branch(s1, v):
                    if t == is_and:
                        outs.extend(step(i + 1, s2))
                    else:
                        outs.append(("val", s2, v))
            return outs

        return step(0, st)

    def ev_UnaryOp(self, node, st):
        def fn(s, v):
            if isinstance(node.op, ast.Not):
                t = self.truth(s, v)
                if t is not None:
                    return [("val", s, Const(not t))]
                return [("val", s, BoolV(("not", self.atom_of(v))))]
            if isinstance(v, Const) and isinstance(v.value, (int, float)):
                try:
                    return [("val", s, Const(-v.value if isinstance(node.op, ast.USub) else +v.value if isinstance(node.op, ast.UAdd) else ~v.value))]
                except TypeError:
                    pass
            return [("val", s, Unknown(v.ty, label=f"unary:{self.where(s,node)}"))]

        return self.seq(self.ev(node.operand, st), fn)

    def ev_BinOp(self, node, st):
        res = []
        for kind, s, vals in self.ev_list([node.left, node.right], st):
            if kind != "val":
                res.append((kind, s, vals))
                continue
            res.extend(self.ext.binop(self, s, node, vals[0], vals[1]))
        return res

    def ev_Compare(self, node, st):
        if len(node.ops) != 1:
            # a < b <= c: the conjunction of the pairwise comparisons, decided pair by pair (each path of the
            # result carries the facts of the comparisons it went through)
            res = []
            for kind, s, vals in self.ev_list([node.left] + node.comparators, st):
                if kind != "val":
                    res.append((kind, s, vals))
                    continue
                frontier = [s]
                for i, op in enumerate(node.ops):
                    nxt = []
                    for s1 in frontier:
                        r = self.compare(s1, op, vals[i], vals[i + 1], node)
                        for s2, t in self.branch(s1, r):
                            if t:
                                nxt.append(s2)
                            else:
                                res.append(("val", s2, Const(False)))
                    frontier = nxt
                for s1 in frontier:
                    res.append(("val", s1, Const(True)))
            return res
        op = node.ops[0]
        res = []
        for kind, s, vals in self.ev_list([node.left, node.comparators[0]], st):
            if kind != "val":
                res.append((kind, s, vals))
                continue
            a, b = vals
            res.append(("val", s, self.compare(s, op, a, b, node)))
        return res

    def compare(self, st, op, a: V, b: V, node) -> V:
        if isinstance(op, (ast.In, ast.NotIn)):
            neg = isinstance(op, ast.NotIn)
            known = None
            if isinstance(b, (TupleV, ListV)) and getattr(b, "items", None) is not None:
                eqs = [self.eq_known(st, a, i) for i in b.items]
                if any(e is True for e in eqs):
                    known = True
                elif all(e is False for e in eqs):
                    known = False
            if isinstance(b, DictV) and b.closed and isinstance(a, Const):
                known = a.value in b.entries
            if ("in", a.key(), b.key()) in st.facts:
                known = True
            elif getattr(a, "gt_all_keys_of", None) is not None and a.gt_all_keys_of == b.key():
                known = False  # arithmetic: a value above the maximum key is not a key (until it is inserted)
                st.add_fact(("notin", a.key(), b.key()))
            elif known is None and ("falsy", b.key()) in st.facts:
                known = False
                st.add_fact(("notin", a.key(), b.key()))
            if known is not None:
                return Const(known != neg)
            atom = ("in", a.key(), b.key())
            return BoolV(("not", atom) if neg else atom)
        if isinstance(op, (ast.Is, ast.IsNot)):
            neg = isinstance(op, ast.IsNot)
            if isinstance(b, Const) and b.value is None:
                nn = self.is_none(st, a)
                if nn is not None:
                    return Const(nn != neg)
                atom = ("isnone", a.key())
                return BoolV(("not", atom) if neg else atom)
            if isinstance(a, Const) and isinstance(b, Const):
                return Const((a.value is b.value) != neg)
            atom = ("is", a.key(), b.key())
            return BoolV(("not", atom) if neg else atom)
        if isinstance(op, (ast.Eq, ast.NotEq)):
            neg = isinstance(op, ast.NotEq)
            r = self.eq_known(st, a, b)
            if r is not None:
                return Const(r != neg)
            ka, kb = sorted([a.key(), b.key()], key=repr)
            atom = ("eq", ka, kb)
            return BoolV(("not", atom) if neg else atom)
        if isinstance(a, Const) and isinstance(b, Const):
            try:
                import operator

                fn = {ast.Lt: operator.lt, ast.LtE: operator.le, ast.Gt: operator.gt, ast.GtE: operator.ge}[type(op)]
                return Const(fn(a.value, b.value))
            except (KeyError, TypeError):
                pass
        floor = self.version_floor_compare(op, a, b)
        if floor is not None:
            return Const(floor)
        # key view of an exactly known dict against a constant set
        def keyset(v):
            if isinstance(v, ExtObj) and v.cls == "dict_keys" and v.args and isinstance(v.args[0], DictV) and v.args[0].closed:
                return frozenset(v.args[0].entries)
            if isinstance(v, Const) and isinstance(v.value, (set, frozenset)):
                return frozenset(v.value)
            return None

        ka, kb = keyset(a), keyset(b)
        if ka is not None and kb is not None and not (isinstance(a, Const) and isinstance(b, Const)):
            import operator

            fn = {ast.Lt: operator.lt, ast.LtE: operator.le, ast.Gt: operator.gt, ast.GtE: operator.ge}.get(type(op))
            if fn is not None:
                return Const(fn(ka, kb))
        return BoolV(("cmp", type(op).__name__, a.key(), b.key()))

    def _version_at_least(self, it, st, info, args, kwargs, node):
        """version_at_least(gateway.protocol_version, "<table version>") is decided by the context (A-FLOOR);
        the helper's body is checked structurally by C18-R4."""
        gwpv = ("attr", ("root", "GW"), "protocol_version")
        if len(args) == 2 and args[0].key() == gwpv and isinstance(args[1], Const) and args[1].value in self.refl["const_versions"]:
            def ver(s):
                return tuple(int(p) for p in s.split("."))
            return [("val", st, Const(ver(self.ctx.version) >= ver(args[1].value)))]
        return [("val", st, Unknown("bool", label=f"version_at_least({args[0].key() if args else None!r})"))]

    def version_floor_compare(self, op, a: V, b: V) -> Optional[bool]:
        """AwesomeVersion(gateway.protocol_version) <op> AwesomeVersion("<table version>").

        A-FLOOR: the gateway's const module is the highest table version not above its
        protocol version (get_const), so the comparison with a table version is decided by
        the context's table version.
        """
        def arg(v):
            if isinstance(v, ExtObj) and v.cls == "awesomeversion.AwesomeVersion" and v.args:
                return v.args[0]
            return None

        x, y = arg(a), arg(b)
        if x is None or y is None:
            return None
        gwpv = ("attr", ("root", "GW"), "protocol_version")
        import operator

        ops = {ast.Lt: operator.lt, ast.LtE: operator.le, ast.Gt: operator.gt, ast.GtE: operator.ge}
        if type(op) not in ops:
            return None

        def ver(s):
            try:
                return tuple(int(p) for p in s.split("."))
            except ValueError:
                return None

        tables = set(self.refl["const_versions"].keys())
        if x.key() == gwpv and isinstance(y, Const) and y.value in tables:
            return ops[type(op)](ver(self.ctx.version), ver(y.value))
        if y.key() == gwpv and isinstance(x, Const) and x.value in tables:
            return ops[type(op)](ver(x.value), ver(self.ctx.version))
        return None

    def enum_eq(self, a: EnumMemV, b: EnumMemV) -> bool:
        return self.enum_value(a.enum, a.version, a.names[0]) == self.enum_value(b.enum, b.version, b.names[0])

    def eq_known(self, st, a: V, b: V) -> Optional[bool]:
        def num(v):
            if isinstance(v, Const) and isinstance(v.value, (int, str, float, bool, type(None), bytes)):
                return ("c", v.value)
            if isinstance(v, EnumMemV) and len(v.names) == 1:
                return ("c", self.enum_value(v.enum, v.version, v.names[0]))
            return None

        na, nb = num(a), num(b)
        if na is not None and nb is not None:
            return na[1] == nb[1]
        # value narrowed by an enum-dispatch fact on this path
        for x, y in ((a, b), (b, a)):
            ny = num(y)
            if ny is None:
                continue
            for f in st.facts:
                if f[0] == "enumeq" and f[1] == x.key():
                    val = self.enum_value(f[2], None, f[3])
                    if val is not None:
                        return val == ny[1]
        if a.key() == b.key() and not isinstance(a, Unknown):
            return True
        return None

    def ev_IfExp(self, node, st):
        def fn(s, v):
            outs = []
            for s2, t in self.branch(s, v):
                outs.extend(self.ev(node.body if t else node.orelse, s2))
            return outs

        return self.seq(self.ev(node.test, st), fn)

    def ev_Subscript(self, node, st):
        if isinstance(node.slice, ast.Slice):
            parts = [x for x in (node.slice.lower, node.slice.upper, node.slice.step) if x is not None]
            res = []
            for kind, s, vals in self.ev_list([node.value] + parts, st):
                if kind != "val":
                    res.append((kind, s, vals))
                    continue
                base = vals[0]
                sv = self.ext.slice_value(self, s, base, node)
                # remember the abstract bounds of the slice (dataflow rules read them)
                bounds = {}
                idx = 1
                for nm in ("lower", "upper", "step"):
                    if getattr(node.slice, nm) is not None:
                        bounds[nm] = vals[idx]
                        idx += 1
                try:
                    sv.slice_of = base
                    sv.slice_bounds = bounds
                except AttributeError:
                    pass
                res.append(("val", s, sv))
            return res
        res = []
        for kind, s, vals in self.ev_list([node.value, node.slice], st):
            if kind != "val":
                res.append((kind, s, vals))
                continue
            res.extend(self.load_item(s, vals[0], vals[1], node))
        return res

    def load_item(self, st: State, base: V, key: V, node) -> List[Outcome]:
        self.tick()
        if isinstance(base, EnumClsV):
            if isinstance(key, Const) and isinstance(key.value, str):
                if self.enum_has(base.enum, base.version, key.value):
                    return [("val", st, EnumMemV(base.enum, base.version, (key.value,)))]
                return [self.raise_(st, KeyError, node, f"{base.enum}[{key.value!r}] not defined in version {base.version or self.ctx.version}")]
            return [self.raise_(st.copy(), KeyError, node), ("val", st, EnumMemV(base.enum, base.version, tuple(self.enum_canonical_names(base.enum, base.version))))]
        if isinstance(base, (TupleV,)) or (isinstance(base, ListV) and base.items is not None):
            if isinstance(key, Const) and isinstance(key.value, int):
                try:
                    return [("val", st, base.items[key.value])]
                except IndexError:
                    return [self.raise_(st, IndexError, node)]
            return [self.raise_(st.copy(), IndexError, node), ("val", st, Unknown(label=f"item:{self.where(st,node)}"))]
        if isinstance(base, DictV):
            if isinstance(key, Const) and key.value in base.entries:
                return [("val", st, base.entries[key.value])]
            if base.closed and isinstance(key, Const):
                return [self.raise_(st, KeyError, node)]
            return [self.raise_(st.copy(), KeyError, node), ("val", st, Unknown(label=f"item:{self.where(st,node)}"))]
        loc = (base.key(), "i", key.key())
        if loc in st.mem:
            return [("val", st, st.mem[loc])]
        ty = self.ty_of(base)
        outs: List[Outcome] = []
        nn = self.is_none(st, base)
        if nn is True or (nn is None and getattr(base, "nullable", False)):
            outs.append(self.raise_(st.copy(), TypeError, node, f"{unparse(node)}: receiver may be None"))
            if nn is True:
                return outs
        if isinstance(ty, tuple) and ty[0] == "dict":
            if ("in", key.key(), base.key()) not in st.facts:
                outs.append(self.raise_(st.copy(), KeyError, node, f"{unparse(node)}: key not known to be present"))
                st.add_fact(("in", key.key(), base.key()))
            vt = self.norm_ty(ty[2])
            outs.append(("val", st, Sym(("item", base.key(), key.key()), vt)))
            return outs
        return outs + self.ext.generic_item(self, st, base, key, node)

    def store_item(self, st: State, base: V, key: V, val: V, node) -> List[Outcome]:
        self.emit(st, "setitem", "setitem", node, recv=base, args=(key, val), with_facts=True)
        if isinstance(base, DictV):
            if isinstance(key, Const):
                base.entries[key.value] = val
            else:
                base.closed = False
            return [("next", st, None)]
        outs: List[Outcome] = []
        if self.ext.type_tag(self, base) == "list" and not self.ext._index_guarded(self, st, base, key):
            outs.append(self.raise_(st.copy(), IndexError, node, f"{unparse(node)[:50]}: index not known to be in range"))
        st.mem[(base.key(), "i", key.key())] = val
        st.add_fact(("in", key.key(), base.key()), ("truthy", base.key()))
        st.drop_facts(lambda f: f[0] == "notin" and f[1] == key.key() and f[2] == base.key() or f == ("falsy", base.key()))
        return outs + [("next", st, None)]

    def ev_Call(self, node: ast.Call, st):
        # all(<comprehension>) / any(<comprehension>) over an exactly known iterable with decidable elements
        if isinstance(node.func, ast.Name) and node.func.id in ("all", "any") and len(node.args) == 1 and not node.keywords and isinstance(node.args[0], (ast.GeneratorExp, ast.ListComp)) and node.func.id not in st.frames[-1]:
            ex = self._comp_exact(node.args[0], st.copy(), [node.args[0].elt])
            if ex is not None:
                s2, rows = ex
                truths = [self.truth(s2, r[0]) for r in rows]
                if all(t is not None for t in truths):
                    return [("val", s2, Const(all(truths) if node.func.id == "all" else any(truths)))]
            # undecided elements over a short, exactly known iterable: the and- / or-chain of the elements
            comp = node.args[0]
            if len(comp.generators) == 1 and not comp.generators[0].ifs and not comp.generators[0].is_async:
                gen = comp.generators[0]
                its = self.ev(gen.iter, st.copy())
                items = self._exact_items(its[0][2]) if len(its) == 1 and its[0][0] == "val" else None
                if items is not None and 0 < len(items) <= 6:
                    is_all = node.func.id == "all"

                    def chain(i, s):
                        if i == len(items):
                            return [("val", s, Const(is_all))]
                        r = self.assign_target(s, gen.target, items[i], gen.target)
                        if len(r) != 1 or r[0][0] != "next":
                            return None
                        outs = []
                        for kind, s1, v in self.ev(comp.elt, r[0][1]):
                            if kind != "val":
                                outs.append((kind, s1, v))
                                continue
                            for s2, t in self.branch(s1, v):
                                if t == is_all:
                                    sub = chain(i + 1, s2)
                                    if sub is None:
                                        return None
                                    outs.extend(sub)
                                else:
                                    outs.append(("val", s2, Const(not is_all)))
                        return outs

                    chained = chain(0, its[0][1])
                    if chained is not None:
                        return chained
        # super().method(...)
        outs_fn = self.ev_callee(node.func, st)
        res: List[Outcome] = []
        for kind, s, fn in outs_fn:
            if kind != "val":
                res.append((kind, s, fn))
                continue
            argnodes = list(node.args)
            kwnodes = [k.value for k in node.keywords]
            for k2, s2, vals in self.ev_list(argnodes + kwnodes, s):
                if k2 != "val":
                    res.append((k2, s2, vals))
                    continue
                # positional values (ev_list already flattened starred tuples)
                npos = len(vals) - len(kwnodes)
                pos = vals[:npos]
                kwargs: Dict[str, V] = {}
                for kw, v in zip(node.keywords, vals[npos:]):
                    if kw.arg is None:
                        if isinstance(v, DictV):
                            for kk, vv in v.entries.items():
                                kwargs[kk] = vv
                            if not v.closed:
                                kwargs["**"] = v
                        else:
                            kwargs["**"] = v
                    else:
                        kwargs[kw.arg] = v
                res.extend(self.call(s2, fn, pos, kwargs, node))
        return res

    def ev_callee(self, func: ast.expr, st) -> List[Outcome]:
        if (
            isinstance(func, ast.Attribute)
            and isinstance(func.value, ast.Call)
            and isinstance(func.value.func, ast.Name)
            and func.value.func.id == "super"
        ):
            fr = st.frames[-1]
            info = fr["__func__"]
            # walk up to the method that owns the frame (nested defs inherit self from closure)
            owner = info
            while owner.cls is None and owner.parent is not None:
                owner = owner.parent
            selfname = owner.node.args.args[0].arg if owner.node.args.args else "self"
            selfv = self.lookup(st, selfname, func)
            sty = self.ty_of(selfv)
            if not (isinstance(sty, tuple) and sty[0] == "cls") or owner.cls is None:
                raise AnalysisError(f"super() outside a typed method in {info.qual}")
            m = self.p.find_method(sty[1], func.attr, after=owner.cls.qual)
            if isinstance(m, FuncInfo):
                return [("val", st, BoundV(selfv, m))]
            if isinstance(m, tuple):
                return [("val", st, ExtV(f"{m[1]}.{func.attr}", selfv))]
            return [("val", st, ExtV(f"object.{func.attr}", selfv))]
        return self.ev(func, st)

    def ev_Lambda(self, node, st):
        fr = st.frames[-1]
        info = FuncInfo(f"{fr['__func__'].qual}.<lambda:{node.lineno}>", "<lambda>", node, fr["__func__"].module, None, fr["__func__"])
        return [("val", st, FuncV(info, fr))]

    def ev_Await(self, node, st):
        def fn(s, v):
            outs: List[Outcome] = []
            import asyncio

            if isinstance(v, V) and ("cancelled", v.key()) in s.facts:
                # awaiting a task whose cancel() was just requested re-raises CancelledError in the awaiter
                return [self.raise_(s, asyncio.CancelledError, node, "awaiting a task that was just cancelled")]
            outs.append(self.raise_(s.copy(), asyncio.CancelledError, node, "await may be cancelled"))
            if isinstance(v, FutureV):
                self.emit(s, "await", v.kind, node, recv=v.fn, args=v.args)
                if isinstance(v.fn, (FuncV, BoundV)) and v.kind == "coro":
                    outs.extend(self.call_func(s, v.fn, list(v.args), v.kwargs, node))
                else:
                    outs.extend(self.call(s, v.fn, list(v.args), v.kwargs, node))
                return outs
            self.emit(s, "await", "?", node, recv=v)
            outs.append(("val", s, Unknown(label=f"await:{self.where(s,node)}")))
            return outs

        return self.seq(self.ev(node.value, st), fn)

    def _exact_items(self, itv):
        """Elements of an exactly known iterable, or None."""
        if isinstance(itv, TupleV) or (isinstance(itv, ListV) and itv.items is not None):
            return list(itv.items)
        if isinstance(itv, DictV) and itv.closed:
            return [getattr(itv, "keyobjs", {}).get(k, Const(k)) for k in itv.entries]
        if isinstance(itv, Const) and isinstance(itv.value, (tuple, list)):
            return [Const(x) for x in itv.value]
        if isinstance(itv, ExtObj) and itv.cls in ("dict_items", "dict_keys", "dict_values") and itv.args and isinstance(itv.args[0], DictV) and itv.args[0].closed:
            d = itv.args[0]
            ko = getattr(d, "keyobjs", {})
            if itv.cls == "dict_keys":
                return [ko.get(k, Const(k)) for k in d.entries]
            if itv.cls == "dict_values":
                return list(d.entries.values())
            return [TupleV([ko.get(k, Const(k)), v]) for k, v in d.entries.items()]
        return None

    def _comp_exact(self, node, st, elts, _gi: int = 0, _rows=None):
        """Comprehension over exactly known iterables: element-wise evaluation (no forks allowed)."""
        rows = [] if _rows is None else _rows
        gen = node.generators[_gi]
        outs = self.ev(gen.iter, st)
        if len(outs) != 1 or outs[0][0] != "val":
            return None
        _k, s, itv = outs[0]
        items = self._exact_items(itv)
        if items is None or len(items) > 80:
            return None
        for item in items:
            r = self.assign_target(s, gen.target, item, gen.target)
            if len(r) != 1 or r[0][0] != "next":
                return None
            s = r[0][1]
            keep = True
            for cond in gen.ifs:
                c = self.ev(cond, s)
                if len(c) != 1 or c[0][0] != "val":
                    return None
                s = c[0][1]
                t = self.truth(s, c[0][2])
                if t is None:
                    return None
                keep = keep and t
            if not keep:
                continue
            if _gi + 1 < len(node.generators):
                sub = self._comp_exact(node, s, elts, _gi + 1, rows)
                if sub is None:
                    return None
                s = sub[0]
                continue
            e = self.ev_list(elts, s)
            if len(e) != 1 or e[0][0] != "val":
                return None
            s = e[0][1]
            rows.append(e[0][2])
        return s, rows

    def _comp(self, node, st, elts):
        fr = st.frames[-1]
        saved = {}
        outs: List[Tuple[str, State, object]] = [("val", st, None)]
        names = []
        for gen in node.generators:
            nxt = []
            for kind, s, _ in outs:
                if kind != "val":
                    nxt.append((kind, s, _))
                    continue
                for k2, s2, it in self.ev(gen.iter, s):
                    if k2 != "val":
                        nxt.append((k2, s2, it))
                        continue
                    elem = self.ext.iter_elem(self, s2, it, gen.iter, 0)
                    for k3, s3, _x in self.assign_target(s2, gen.target, elem, gen.target):
                        if k3 != "next":
                            nxt.append((k3, s3, _x))
                            continue
                        cur = [("val", s3, None)]
                        for cond in gen.ifs:
                            c2 = []
                            for k4, s4, _y in cur:
                                if k4 != "val":
                                    c2.append((k4, s4, _y))
                                    continue
                                for k5, s5, cv in self.ev(cond, s4):
                                    if k5 != "val":
                                        c2.append((k5, s5, cv))
                                    else:
                                        # both outcomes of the filter are possible; keep one state, no refinement
                                        c2.append(("val", s5, None))
                            cur = c2
                        nxt.extend(cur)
            outs = nxt
        res = []
        for kind, s, _ in outs:
            if kind != "val":
                res.append((kind, s, _))
                continue
            for k2, s2, vals in self.ev_list(elts, s):
                res.append((k2, s2, vals))
        return res

    def _small_exact_iter(self, node, st) -> bool:
        """Is the (single) iterable of the comprehension a short constant table (module-level tuple of names)?"""
        if len(node.generators) != 1 or not isinstance(node.generators[0].iter, ast.Name):
            return False
        v = None
        try:
            v = self.lookup(st, node.generators[0].iter.id, node)
        except AnalysisError:
            return False
        return isinstance(v, Const) and isinstance(v.value, (tuple, list)) and len(v.value) <= 12

    def _comp_exact_raising(self, node, st, elt):
        """One generator, no filter, exactly known short iterable: element-wise evaluation where an element may
        also raise (`[int(getattr(self, n)) for n in FIELDS]`): the raising outcomes are outcomes of the whole
        comprehension, the single normal outcome of each element continues. None if anything else forks."""
        if len(node.generators) != 1 or node.generators[0].ifs:
            return None
        gen = node.generators[0]
        outs = self.ev(gen.iter, st)
        if len(outs) != 1 or outs[0][0] != "val":
            return None
        s = outs[0][1]
        items = self._exact_items(outs[0][2])
        if items is None or len(items) > 12:
            return None
        raises, rows = [], []
        for item in items:
            r = self.assign_target(s, gen.target, item, gen.target)
            if len(r) != 1 or r[0][0] != "next":
                return None
            vals = []
            for k, s2, v in self.ev(elt, r[0][1]):
                if k == "val":
                    vals.append((s2, v))
                elif k == "raise":
                    raises.append((k, s2, v))
                else:
                    return None
            if len(vals) != 1:
                return None
            s, v = vals[0]
            rows.append(v)
        return raises, s, rows

    def ev_ListComp(self, node, st):
        if self.table_values or self._small_exact_iter(node, st):
            ex = self._comp_exact(node, st.copy(), [node.elt])
            if ex is not None:
                s, rows = ex
                return [("val", s, ListV([r[0] for r in rows], label=self.site_label(s, node, "lc")))]
            ex2 = self._comp_exact_raising(node, st.copy(), node.elt)
            if ex2 is not None:
                raises, s, rows = ex2
                return raises + [("val", s, ListV(rows, label=self.site_label(s, node, "lc")))]
        return [(k, s, ListV(None, elem=v[0], label=self.site_label(s, node, "lc")) if k == "val" else v) for k, s, v in self._comp(node, st, [node.elt])]

    ev_SetComp = ev_ListComp
    ev_GeneratorExp = ev_ListComp

    def ev_DictComp(self, node, st):
        # exact when the iterable is exactly known and every key is a constant (table-driven projections)
        ex = self._comp_exact(node, st.copy(), [node.key, node.value])
        if ex is not None:
            s, rows = ex
            if rows and all(isinstance(r[0], Const) and isinstance(r[0].value, (str, int)) for r in rows):
                return [("val", s, DictV({r[0].value: r[1] for r in rows}, closed=True, label=self.site_label(s, node, "dc")))]
        return [(k, s, Unknown("dict", label=f"dictcomp:{self.where(s,node)}") if k == "val" else v) for k, s, v in self._comp(node, st, [node.key, node.value])]

    def ev_Starred(self, node, st):
        return self.ev(node.value, st)

    def ev_NamedExpr(self, node, st):
        def fn(s, v):
            s.frames[-1][node.target.id] = v
            return [("val", s, v)]

        return self.seq(self.ev(node.value, st), fn)

    def ev_FormattedValue(self, node, st):
        return self.ev(node.value, st)

    # --------------------------------------------------------------- statements
    def exec_block(self, stmts: List[ast.stmt], st: State) -> List[Outcome]:
        outs: List[Outcome] = [("next", st, None)]
        for stmt in stmts:
            nxt: List[Outcome] = []
            progressed = False
            for kind, s, v in outs:
                if kind != "next":
                    nxt.append((kind, s, v))
                    continue
                progressed = True
                nxt.extend(self.exec_stmt(stmt, s))
            outs = self.dedupe(nxt) if len(nxt) > 8 else nxt
            if not progressed:
                break
        return outs

    def exec_stmt(self, node: ast.stmt, st: State) -> List[Outcome]:
        self.tick()
        meth = getattr(self, "st_" + type(node).__name__, None)
        if meth is None:
            raise AnalysisError(f"unsupported statement {type(node).__name__} at {self.where(st,node)}")
        return meth(node, st)

    def st_Expr(self, node, st):
        return [("next" if k == "val" else k, s, None if k == "val" else v) for k, s, v in self.ev(node.value, st)]

    def st_Pass(self, node, st):
        return [("next", st, None)]

    def st_Return(self, node, st):
        if node.value is None:
            return [("return", st, Const(None))]
        return [("return" if k == "val" else k, s, v) for k, s, v in self.ev(node.value, st)]

    def st_Break(self, node, st):
        return [("break", st, None)]

    def st_Continue(self, node, st):
        return [("continue", st, None)]

    def st_Global(self, node, st):
        return [("next", st, None)]

    st_Nonlocal = st_Global
    st_Import = st_Global
    st_ImportFrom = st_Global

    def st_FunctionDef(self, node, st):
        fr = st.frames[-1]
        q = f"{fr['__func__'].qual}.{node.name}"
        if q in self.p.funcs:
            fr[node.name] = FuncV(self.p.funcs[q], fr)
        else:
            fr[node.name] = Unknown("callable", label=q)
        return [("next", st, None)]

    st_AsyncFunctionDef = st_FunctionDef

    def st_Assert(self, node, st):
        return [("next", st, None)]

    def st_Delete(self, node, st):
        res = []
        for tgt in node.targets:
            if isinstance(tgt, ast.Subscript) and isinstance(tgt.slice, ast.Slice):
                # del x[a:b]: a range of the container is removed
                for kind, s, vals in self.ev_list([tgt.value], st):
                    if kind == "val":
                        self.emit(s, "delitem", "delslice", node, recv=vals[0], args=())
                        s.drop_facts(lambda f: f[0] in ("in", "truthy") and f[-1] == vals[0].key())
                        res.append(("next", s, None))
                    else:
                        res.append((kind, s, vals))
            elif isinstance(tgt, ast.Subscript):
                for kind, s, vals in self.ev_list([tgt.value, tgt.slice], st):
                    if kind == "val":
                        self.emit(s, "delitem", "delitem", node, recv=vals[0], args=(vals[1],))
                        s.drop_facts(lambda f: f[0] == "in" and f[2] == vals[0].key())
                        res.append(("next", s, None))
                    else:
                        res.append((kind, s, vals))
            else:
                res.append(("next", st, None))
        return res

    def st_Assign(self, node, st):
        def fn(s, v):
            outs = [("next", s, None)]
            for tgt in node.targets:
                nxt = []
                for kind, s2, x in outs:
                    if kind != "next":
                        nxt.append((kind, s2, x))
                    else:
                        nxt.extend(self.assign_target(s2, tgt, v, node))
                outs = nxt
            return outs

        return self.seq(self.ev(node.value, st), fn)

    def st_AnnAssign(self, node, st):
        if node.value is None:
            return [("next", st, None)]
        return self.seq(self.ev(node.value, st), lambda s, v: self.assign_target(s, node.target, v, node))

    def st_AugAssign(self, node, st):
        load = ast.copy_location(ast.BinOp(left=self._as_load(node.target), op=node.op, right=node.value), node)
        ast.fix_missing_locations(load)
        return self.seq(self.ev(load, st), lambda s, v: self.assign_target(s, node.target, v, node))

    def _as_load(self, tgt):
        import copy

        t = copy.deepcopy(tgt)
        for n in ast.walk(t):
            if hasattr(n, "ctx"):
                n.ctx = ast.Load()
        return t

    def assign_target(self, st: State, tgt, val: V, node) -> List[Outcome]:
        if isinstance(tgt, ast.Name):
            st.frames[-1][tgt.id] = val
            return [("next", st, None)]
        if isinstance(tgt, ast.Attribute):
            res = []
            for kind, s, b in self.ev(tgt.value, st):
                if kind != "val":
                    res.append((kind, s, b))
                else:
                    res.extend(self.store_attr(s, b, tgt.attr, val, tgt))
            return res
        if isinstance(tgt, ast.Subscript):
            res = []
            for kind, s, vals in self.ev_list([tgt.value, tgt.slice], st):
                if kind != "val":
                    res.append((kind, s, vals))
                else:
                    res.extend(self.store_item(s, vals[0], vals[1], val, tgt))
            return res
        if isinstance(tgt, (ast.Tuple, ast.List)) and sum(isinstance(e, ast.Starred) for e in tgt.elts) == 1:
            return self._assign_starred(st, tgt, val, node)
        if isinstance(tgt, (ast.Tuple, ast.List)):
            n = len(tgt.elts)
            outs: List[Outcome] = []
            items = None
            if isinstance(val, Const) and isinstance(val.value, (tuple, list)):
                val = TupleV([Const(x) for x in val.value])
            if isinstance(val, TupleV) or (isinstance(val, ListV) and val.items is not None):
                if len(val.items) != n:
                    return [self.raise_(st, ValueError, node, f"cannot unpack {len(val.items)} values into {n} targets")]
                items = list(val.items)
            else:
                arity = self.ext.known_arity(self, st, val)
                if arity is not None and arity != n:
                    return [self.raise_(st, ValueError, node, f"cannot unpack {arity} values into {n} targets")]
                if arity is None:
                    outs.append(self.raise_(st.copy(), ValueError, node, f"unpacking {unparse(node)[:50]}: arity of the value is not known to be {n}"))
                    if self.is_none(st, val) is not False and getattr(val, "nullable", False):
                        outs.append(self.raise_(st.copy(), TypeError, node, "unpacking a value that may be None"))
                elem = getattr(val, "elem", None)
                items = [self.ext.unpack_elem(self, st, val, i, elem, node) for i in range(n)]
            cur: List[Outcome] = [("next", st, None)]
            for t, v in zip(tgt.elts, items):
                nxt = []
                for kind, s, x in cur:
                    if kind != "next":
                        nxt.append((kind, s, x))
                    else:
                        nxt.extend(self.assign_target(s, t, v, node))
                cur = nxt
            return outs + cur
        if isinstance(tgt, ast.Starred):
            return self.assign_target(st, tgt.value, Unknown("list"), node)
        raise AnalysisError(f"unsupported assignment target {type(tgt).__name__}")

    def _assign_starred(self, st: State, tgt, val: V, node) -> List[Outcome]:
        """`a, *rest, y, z = seq`: the fixed targets get seq[0..a-1] and the last b elements, the starred one the
        list in between - the same values the equivalent slices `seq[:a]`, `seq[a:-b]`, `seq[-b:]` give."""
        k = next(i for i, e in enumerate(tgt.elts) if isinstance(e, ast.Starred))
        a, b = k, len(tgt.elts) - k - 1
        outs: List[Outcome] = []
        if isinstance(val, Const) and isinstance(val.value, (tuple, list)):
            val = TupleV([Const(x) for x in val.value])
        if isinstance(val, TupleV) or (isinstance(val, ListV) and val.items is not None):
            if len(val.items) < a + b:
                return [self.raise_(st, ValueError, node, f"not enough values to unpack (expected at least {a + b}, got {len(val.items)})")]
            its = list(val.items)
            head, mid, tail = its[:a], ListV(its[a : len(its) - b], label=f"star:{self.where(st, node)}"), its[len(its) - b :]
        else:
            if self.ext.min_len(self, st, val) < a + b:
                outs.append(self.raise_(st.copy(), ValueError, node, f"unpacking {unparse(node)[:50]}: the value is not known to have at least {a + b} elements"))
            elem = getattr(val, "elem", None)
            site = self.where(st, node)
            head = [self.ext.unpack_elem(self, st, val, i, elem, node) for i in range(a)]
            mid = ListV(None, elem=elem, label=f"slice:{site}:{val.key()!r}:star")
            mid.slice_of = val
            mid.slice_bounds = {**({"lower": Const(a)} if a else {}), **({"upper": Const(-b)} if b else {})}
            tail = []
            if b:
                last = ListV(None, elem=elem, label=f"slice:{site}:{val.key()!r}:tail")
                last.slice_of = val
                last.slice_bounds = {"lower": Const(-b)}
                last.exactlen = b
                last.minlen = b
                tail = [self.ext.unpack_elem(self, st, last, i, elem, node) for i in range(b)]
        targets = list(tgt.elts[:k]) + [tgt.elts[k].value] + list(tgt.elts[k + 1 :])
        cur: List[Outcome] = [("next", st, None)]
        for t, v in zip(targets, head + [mid] + tail):
            nxt = []
            for kind, s2, x in cur:
                if kind != "next":
                    nxt.append((kind, s2, x))
                else:
                    nxt.extend(self.assign_target(s2, t, v, node))
            cur = nxt
        return outs + cur

    def st_If(self, node, st):
        def fn(s, v):
            outs = []
            for s2, t in self.branch(s, v):
                outs.extend(self.exec_block(node.body if t else node.orelse, s2))
            return outs

        res = []
        for kind, s, v in self.ev(node.test, st):
            if kind == "val":
                res.extend(fn(s, v))
            else:
                res.append((kind, s, v))
        return res

    def unroll(self) -> int:
        """Iterations explored per loop: LOOP_UNROLL at the outermost level, 1 when nested."""
        if self.loop_depth <= 1:
            return int(os.environ.get("VERIF_UNROLL", LOOP_UNROLL))
        return int(os.environ.get("VERIF_UNROLL_NESTED", 1))

    def st_While(self, node, st):
        self.loop_depth += 1
        try:
            return self._st_While(node, st)
        finally:
            self.loop_depth -= 1

    def st_For(self, node, st):
        self.loop_depth += 1
        try:
            return self._st_For(node, st)
        finally:
            self.loop_depth -= 1

    def _st_While(self, node, st):
        unroll = self.unroll()
        results: List[Outcome] = []
        frontier: List[State] = [st]
        for it in range(unroll + 1):
            nxt_frontier: List[State] = []
            for s0 in frontier:
                for kind, s, v in self.ev(node.test, s0):
                    if kind != "val":
                        results.append((kind, s, v))
                        continue
                    for s2, t in self.branch(s, v):
                        if not t:
                            results.extend(self.exec_block(node.orelse, s2) if node.orelse else [("next", s2, None)])
                            continue
                        if it == unroll:
                            self.emit(s2, "loopcut", "while", node)
                            if isinstance(v, Const):
                                results.append(("cut", s2, None))
                            else:
                                # assume the loop terminates: leave with the condition false
                                s3 = self.assume(s2.copy(), v, False)
                                results.append(("next", s3 if s3 is not None else s2, None))
                            continue
                        for k3, s3, v3 in self.exec_block(node.body, s2):
                            if k3 in ("next", "continue"):
                                nxt_frontier.append(s3)
                            elif k3 == "break":
                                results.append(("next", s3, None))
                            else:
                                results.append((k3, s3, v3))
            frontier = [s for _, s, _ in self.dedupe([("next", s, None) for s in nxt_frontier])]
            if not frontier:
                break
        return self.dedupe(results)

    def _st_For(self, node, st):
        unroll = self.unroll()
        results: List[Outcome] = []
        for kind, s, itv in self.ev(node.iter, st):
            if kind != "val":
                results.append((kind, s, itv))
                continue
            if isinstance(itv, FutureV) and itv.kind == "gen":
                results.extend(self._for_generator(node, s, itv))
                continue
            if self.trace_iters and isinstance(itv, V) and rooted(itv.args[0].key() if isinstance(itv, ExtObj) and itv.cls.startswith("dict_") and itv.args else itv.key()):
                # iteration over long-lived state: recorded for the "no iteration over what another thread grows" rule
                self.emit(s, "iter", "for", node, recv=itv)
            exact = None
            if isinstance(itv, TupleV) or (isinstance(itv, ListV) and itv.items is not None):
                exact = list(itv.items)
            elif isinstance(itv, DictV) and itv.closed:
                exact = [getattr(itv, "keyobjs", {}).get(k, Const(k)) for k in itv.entries]
            elif isinstance(itv, ExtObj) and itv.cls == "dict_items" and isinstance(itv.args[0], DictV) and itv.args[0].closed:
                exact = [TupleV([Const(k), v]) for k, v in itv.args[0].entries.items()]
            elif isinstance(itv, Const) and isinstance(itv.value, (tuple, list)):
                exact = [Const(x) for x in itv.value]
            elif isinstance(itv, Const) and isinstance(itv.value, dict):
                exact = [Const(x) for x in itv.value]
            elif isinstance(itv, ExtObj) and itv.cls in ("dict_items", "dict_keys", "dict_values") and itv.args and isinstance(itv.args[0], Const) and isinstance(itv.args[0].value, dict):
                d = itv.args[0].value
                exact = [TupleV([Const(k), Const(v)]) for k, v in d.items()] if itv.cls == "dict_items" else [Const(k) for k in d] if itv.cls == "dict_keys" else [Const(v) for v in d.values()]
            if exact is None:
                exact = self._exact_items(itv)
            if exact is not None and len(exact) <= 8:
                frontier = [s]
                for item in exact:
                    nxt = []
                    for s0 in frontier:
                        for k2, s2, x in self.assign_target(s0, node.target, item, node):
                            if k2 != "next":
                                results.append((k2, s2, x))
                                continue
                            for k3, s3, v3 in self.exec_block(node.body, s2):
                                if k3 in ("next", "continue"):
                                    nxt.append(s3)
                                elif k3 == "break":
                                    results.append(("next", s3, None))
                                else:
                                    results.append((k3, s3, v3))
                    frontier = [x for _, x, _ in self.dedupe([("next", f, None) for f in nxt])]
                for s0 in frontier:
                    results.extend(self.exec_block(node.orelse, s0) if node.orelse else [("next", s0, None)])
                continue
            frontier = [s]
            self.ext.iter_start(self, s, itv, node)
            for it in range(unroll + 1):
                nxt = []
                for s0 in frontier:
                    # the iterable may be exhausted here
                    s_exit = s0.copy()
                    results.extend(self.exec_block(node.orelse, s_exit) if node.orelse else [("next", s_exit, None)])
                    if it == unroll:
                        continue
                    elem = self.ext.iter_elem(self, s0, itv, node.iter, it)
                    for k2, s2, x in self.assign_target(s0, node.target, elem, node):
                        if k2 != "next":
                            results.append((k2, s2, x))
                            continue
                        for k3, s3, v3 in self.exec_block(node.body, s2):
                            if k3 in ("next", "continue"):
                                nxt.append(s3)
                            elif k3 == "break":
                                results.append(("next", s3, None))
                            else:
                                results.append((k3, s3, v3))
                frontier = [x for _, x, _ in self.dedupe([("next", f, None) for f in nxt])]
                if not frontier:
                    break
        return self.dedupe(results)

    st_AsyncFor = st_For

    def is_generator(self, info) -> bool:
        cache = self.__dict__.setdefault("_gen_cache", {})
        if info.qual not in cache:
            found = False
            todo = [info.node.body] if isinstance(info.node, ast.Lambda) else list(info.node.body)
            while todo and not found:
                n = todo.pop()
                if isinstance(n, (ast.FunctionDef, ast.AsyncFunctionDef, ast.Lambda, ast.ClassDef)):
                    continue
                if isinstance(n, (ast.Yield, ast.YieldFrom)):
                    found = True
                todo.extend(ast.iter_child_nodes(n))
            cache[info.qual] = found
        return cache[info.qual]

    def _for_generator(self, node, st, gen: FutureV):
        """`for x in genfunc(...): BODY` for a repo generator function: the generator body is interpreted and
        BODY runs, in the caller's frame, at every `yield` (ev_Yield). Leaving BODY by break / return / an
        exception closes the generator: GeneratorExit is raised at the yield, as CPython does on release."""
        hook = {"mode": "for", "node": node, "target": node.target, "depth": len(st.frames), "stack": len(st.stack), "id": id(node) ^ len(st.events)}
        self.yield_stack.append(hook)
        try:
            outs = self.call_func(st, gen.fn, list(gen.args), gen.kwargs, node)
        finally:
            self.yield_stack.pop()
        res = []
        for kind, s, v in outs:
            pend = [n for n in s.notes if n[0] == "ctl" and n[1] == hook["id"]]
            if pend:
                s.notes = tuple(n for n in s.notes if not (n[0] == "ctl" and n[1] == hook["id"]))
            if kind == "raise" and pend and v.cls is GeneratorExit:
                k2, v2 = pend[-1][2], pend[-1][3]
                res.append(("next", s, None) if k2 == "break" else (k2, s, v2))
            elif kind == "val":
                res.extend(self.exec_block(node.orelse, s) if node.orelse else [("next", s, None)])
            else:
                res.append((kind, s, v))
        return self.dedupe(res)

    def _with_generator_cm(self, node, st, item, cm: FutureV):
        """`with cm(...) as x: BODY` for a repo @contextmanager generator: the generator body is interpreted
        and BODY runs, in the caller's frame, where it yields (ev_Yield)."""
        hook = {"node": node, "target": item.optional_vars, "depth": len(st.frames), "stack": len(st.stack), "id": id(node) ^ len(st.events)}
        self.yield_stack.append(hook)
        try:
            outs = self.call_func(st, cm.fn, list(cm.args), cm.kwargs, node)
        finally:
            self.yield_stack.pop()
        res = []
        for kind, s, v in outs:
            pend = [n for n in s.notes if n[0] == "ctl" and n[1] == hook["id"]]
            if pend:
                s.notes = tuple(n for n in s.notes if not (n[0] == "ctl" and n[1] == hook["id"]))
            if kind == "val":
                if pend:
                    res.append((pend[-1][2], s, pend[-1][3]))
                else:
                    res.append(("next", s, None))
            else:
                res.append((kind, s, v))
        return res

    def ev_Yield(self, node, st):
        if not self.yield_stack:
            raise AnalysisError(f"unsupported expression Yield at {self.where(st, node)}: {unparse(node)[:60]}")
        hook = self.yield_stack[-1]
        res: List[Outcome] = []
        vals = self.ev(node.value, st) if node.value is not None else [("val", st, Const(None))]
        for kind, s, v in vals:
            if kind != "val":
                res.append((kind, s, v))
                continue
            gen_frames = s.frames[hook["depth"]:]
            gen_stack = s.stack[hook["stack"]:]
            s.frames = s.frames[: hook["depth"]]
            s.stack = s.stack[: hook["stack"]]
            wnode = hook["node"]
            is_for = hook.get("mode") == "for"
            if not is_for:
                self.emit(s, "with_enter", "with", wnode, recv=v)
            starts = self.assign_target(s, hook["target"], v, wnode) if hook["target"] is not None else [("next", s, None)]
            # the with body runs outside the generator: an inner `with` of the body has its own hook
            saved = self.yield_stack
            self.yield_stack = []
            try:
                body_outs = []
                for k0, s0, x0 in starts:
                    if k0 != "next":
                        body_outs.append((k0, s0, x0))
                    else:
                        body_outs.extend(self.exec_block(wnode.body, s0))
            finally:
                self.yield_stack = saved
            for k2, s2, v2 in body_outs:
                if k2 == "cut":
                    res.append((k2, s2, v2))
                    continue
                if not is_for:
                    self.emit(s2, "with_exit", "with", wnode, extra=k2)
                s2.frames = s2.frames[: hook["depth"]] + tuple(dict(f) for f in gen_frames)
                s2.stack = s2.stack[: hook["stack"]] + gen_stack
                if is_for:
                    if k2 in ("next", "continue"):
                        res.append(("val", s2, Const(None)))
                    else:
                        s2.notes = s2.notes + (("ctl", hook["id"], k2, v2),)
                        res.append(self.raise_(s2, GeneratorExit, node, "the loop over the generator was left: the generator is closed"))
                    continue
                if k2 == "next":
                    res.append(("val", s2, Const(None)))
                elif k2 == "raise":
                    res.append(("raise", s2, v2))
                else:
                    # return / break / continue out of the body: the generator is resumed normally (__exit__ without
                    # an exception); the pending control transfer happens when the with statement is left
                    s2.notes = s2.notes + (("ctl", hook["id"], k2, v2),)
                    res.append(("val", s2, Const(None)))
        return res

    def st_With(self, node, st):
        pre = None
        if len(node.items) == 1 and isinstance(node.items[0].context_expr, ast.Call) and unparse(node.items[0].context_expr.func).split(".")[-1] == "suppress":
            pass
        elif len(node.items) == 1:
            item = node.items[0]
            pre = self.ev(item.context_expr, st)
            if any(k == "val" and isinstance(v, FutureV) and v.kind == "ctxmgr" for k, s, v in pre):
                res = []
                for k, s, v in pre:
                    if k != "val":
                        res.append((k, s, v))
                    elif isinstance(v, FutureV) and v.kind == "ctxmgr":
                        res.extend(self._with_generator_cm(node, s, item, v))
                    else:
                        raise AnalysisError(f"mixed context manager values at {self.where(s, node)}")
                return res
        if pre is None and len(node.items) == 1:
            item = node.items[0]
            if isinstance(item.context_expr, ast.Call) and unparse(item.context_expr.func).split(".")[-1] == "suppress":
                # contextlib.suppress(E, ...): exceptions of these classes raised in the body end the block normally
                classes = [self.exc_class(st, a)[0] for a in item.context_expr.args]
                res = []
                for k2, s2, v2 in self.exec_block(node.body, st):
                    if k2 == "raise" and any(issubclass(v2.cls, c) for c in classes):
                        self.emit(s2, "catch", v2.cls.__name__, node)
                        res.append(("next", s2, None))
                    else:
                        res.append((k2, s2, v2))
                return res
        outs: List[Outcome] = [("next", st, None)]
        for item in node.items:
            nxt = []
            for kind, s, x in outs:
                if kind != "next":
                    nxt.append((kind, s, x))
                    continue
                for k2, s2, v in (pre if pre is not None else self.ev(item.context_expr, s)):
                    if k2 != "val":
                        nxt.append((k2, s2, v))
                        continue
                    self.emit(s2, "with_enter", "with", node, recv=v)
                    if item.optional_vars is not None:
                        nxt.extend(self.assign_target(s2, item.optional_vars, v, node))
                    else:
                        nxt.append(("next", s2, None))
            outs = nxt
        res = []
        for kind, s, x in outs:
            if kind != "next":
                res.append((kind, s, x))
                continue
            for k2, s2, v2 in self.exec_block(node.body, s):
                self.emit(s2, "with_exit", "with", node, extra=k2)
                res.append((k2, s2, v2))
        return res

    st_AsyncWith = st_With

    def st_Raise(self, node, st):
        if node.exc is None:
            if st.handling:
                exc = st.handling[-1]
                return [("raise", st, exc)]
            return [self.raise_(st, RuntimeError, node, "bare raise outside handler")]
        target = node.exc
        res = []
        if isinstance(target, ast.Call):
            # evaluate the arguments (may themselves raise), then build the exception
            for kind, s, vals in self.ev_list(list(target.args), st):
                if kind != "val":
                    res.append((kind, s, vals))
                    continue
                cls = self.exc_class(s, target.func)[0]
                res.append(self.raise_(s, cls, node, "explicit raise"))
            return res
        try:
            cls = self.exc_class(st, target)[0]
            return [self.raise_(st, cls, node, "explicit raise")]
        except AnalysisError:
            pass
        for kind, s, v in self.ev(target, st):
            if kind != "val":
                res.append((kind, s, v))
            elif isinstance(v, ExcV):
                res.append(("raise", s, v))
            else:
                res.append(self.raise_(s, Exception, node, "raise of unknown value"))
        return res

    def st_Try(self, node: ast.Try, st):
        res: List[Outcome] = []
        body_outs = self.exec_block(node.body, st)
        after: List[Outcome] = []
        for kind, s, v in body_outs:
            if kind == "raise":
                after.extend(self.dispatch_handlers(node, s, v))
            elif kind == "next" and node.orelse:
                after.extend(self.exec_block(node.orelse, s))
            else:
                after.append((kind, s, v))
        if not node.finalbody:
            return self.dedupe(after)
        for kind, s, v in after:
            if kind == "cut":
                res.append((kind, s, v))
                continue
            for k2, s2, v2 in self.exec_block(node.finalbody, s):
                if k2 == "next":
                    res.append((kind, s2, v))
                else:
                    res.append((k2, s2, v2))
        return self.dedupe(res)

    def dispatch_handlers(self, node: ast.Try, st: State, exc: ExcV) -> List[Outcome]:
        """Match a raised exception against the handlers of one try statement."""
        res: List[Outcome] = []
        remaining = True
        for h in node.handlers:
            if h.type is None:
                classes = [BaseException]
            else:
                classes = self.exc_class(st, h.type)
            full = any(issubclass(exc.cls, c) for c in classes)
            partial = [c for c in classes if issubclass(c, exc.cls) and c is not exc.cls]
            if not full and not partial:
                continue
            for narrowed in ([exc.cls] if full else partial):
                s = st.copy() if (not full or partial) else st
                caught = ExcV(narrowed, exc.site, exc.what, exc.chain)
                self.emit(s, "catch", narrowed.__name__, h, extra=exc.site)
                if h.name:
                    s.frames[-1][h.name] = caught
                s.handling = s.handling + (caught,)
                for k2, s2, v2 in self.exec_block(h.body, s):
                    if k2 != "cut":
                        s2.handling = s2.handling[:-1]
                    res.append((k2, s2, v2))
            if full:
                remaining = False
                break
        if remaining:
            res.append(("raise", st, exc))
        return res

    st_TryStar = st_Try
