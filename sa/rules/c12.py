"""C12 - Saving replaces the persistence file atomically.

R1 the main file is never opened for writing: the only path written is the temp name, which
   differs from the main and the backup name.
R2 durability before visibility: in each _save_* the order on the same handle is
   dump -> flush -> fsync(fileno) inside the `with`.
R3 order of the directory operations on every normal path of save_sensors: everything that
   moves or removes the main file follows the completed temp write; a move temp -> main
   exists; if the main file is moved aside to the backup, the backup's removal follows the
   move temp -> main and both are under the same `exists` condition; the dirty flag is cleared
   once and before the state is read (alert() marks it again from the pump thread while the
   file is written - D15); on every path where a file operation failed it is set again and
   the error propagates; a skipped save (clean state / location not writable) leaves it alone.
R4 the loader complements the writer: the backup is tried exactly when the main load failed,
   and it is promoted by rename before it is read.
"""
from __future__ import annotations

import ast
import os

from ..engine import Analysis, describe_path
from ..frontend import AnalysisError, unparse
from ..report import RuleResult
from ..values import Const, Sym, V
from . import common, persist

PROP = "C12"


def save_worker(analysis: Analysis, spec) -> dict:
    ext, ctxspec = spec
    ctx = analysis.context(*ctxspec)
    it = analysis.new_interp(ctx)
    persist.install_dispatch(analysis, it, ext)
    st, gw, p = persist.persistence_state(analysis, it)
    st.add_fact(("truthy", ("attr", p.key(), "need_save")))
    outs = analysis.run_root(it, "persistence:Persistence.save_sensors", [], p, st)
    main_keys = set()
    rows = []
    for out in outs:
        kind, s, v = out
        fe = persist.file_events(s)
        # names: fname = realpath(persistence_file)
        fname = None
        for e in s.events:
            pass
        opens = [e for e in fe if e["name"] == "builtins.open"]
        renames = [e for e in fe if e["name"] in ("os.rename", "os.replace", "shutil.move")]
        removes = [e for e in fe if e["name"] in ("os.remove", "os.unlink")]
        clears = [e for e in fe if e["name"] == "store need_save" and e["val"] is False]
        # why a path without a write was skipped, and lock discipline
        nskey = ("attr", p.key(), "need_save")
        falsy = [f[1] for f in s.facts if f[0] == "falsy"]
        reason = "clean" if nskey in falsy else ("denied" if any("os.access(" in repr(k) for k in falsy) else None)
        acc = [repr(e.args[0].key()) for e in s.events if e.kind == "call" and e.name == "os.access" and e.args and isinstance(e.args[0], V)]
        acq = sum(1 for e in s.events if e.kind in ("call", "unmodelled") and e.name.endswith(".acquire"))
        rel = sum(1 for e in s.events if e.kind in ("call", "unmodelled") and e.name.endswith(".release"))
        state_updates = [f"{e.func}:{e.line}" for e in s.events if e.kind == "update" and isinstance(e.recv, V) and "sensors" in repr(e.recv.key())]
        catches = [(i, e.name, e.func) for i, e in enumerate(s.events) if e.kind == "catch"]
        rows.append({"skip_reason": reason, "access_args": acc, "acquires": acq, "releases": rel, "state_updates": state_updates, "catches": catches, "kind": kind, "exc": v.cls.__name__ if kind == "raise" else None, "exc_site": v.site if kind == "raise" else None, "fe": [{k: (repr(x) if k in ("args", "recv", "kwargs") else x) for k, x in e.items() if k not in ("facts", "argv")} for e in fe], "raw": fe, "witness": describe_path(out, 26)})
    return {"ext": ext, "ctx": ctx.name, "rows": rows}


def analyse_save_rows(res: RuleResult, summ) -> None:
    ext = summ["ext"]
    normal = 0
    failing = 0
    bak_key = ("attr", ("root", "P"), "persistence_bak")
    pf_key = ("attr", ("root", "P"), "persistence_file")
    for r in summ["rows"]:
        fe = r["raw"]
        opens = [e for e in fe if e["name"] == "builtins.open"]
        wr_opens = []
        for e in opens:
            mode = e["argv"][1] if len(e["argv"]) > 1 else e.get("kwargv", {}).get("mode")
            m = mode.value if isinstance(mode, Const) else "r"
            if any(ch in str(m) for ch in "wax+"):
                wr_opens.append(e)
        # is the written file empty when the dump starts?  'w' / 'x' modes truncate or create; a descriptor
        # opened with os.open does only if O_TRUNC or O_EXCL is among its flags
        not_empty = []
        exclusive = []
        for e in wr_opens:
            mode = e["argv"][1] if len(e["argv"]) > 1 else e.get("kwargv", {}).get("mode")
            m = str(mode.value) if isinstance(mode, Const) else "?"
            removed_first = any(x["name"] in ("os.remove", "os.unlink") and x["args"] and x["args"][0] == e["args"][0] and x["i"] < e["i"] for x in fe)
            if e.get("via") == "os.fdopen":
                fl = e.get("flags")
                if fl is None or not (fl & os.O_TRUNC):
                    not_empty.append(f"os.open flags {fl} without O_TRUNC")
                if fl is not None and (fl & os.O_EXCL) and not removed_first:
                    exclusive.append("O_EXCL")
            elif "x" in m:
                if not removed_first:
                    exclusive.append(f"mode {m!r}")
            elif "w" not in m:
                not_empty.append(f"mode {m!r}")
        dumps = [e for e in fe if e["name"] in ("pickle.dump", "json.dump")]
        flushes = [e for e in fe if e["name"] == "file.flush"]
        fsyncs = [e for e in fe if e["name"] == "os.fsync"]
        wexits = [e for e in fe if e["name"] == "with_exit"]
        renames = [e for e in fe if e["name"] in ("os.rename", "os.replace", "shutil.move")]
        removes = [e for e in fe if e["name"] in ("os.remove", "os.unlink")]
        clears = [e for e in fe if e["name"] == "store need_save" and e["val"] is False]
        flag_stores = [e for e in fe if e["name"] == "store need_save"]
        final_flag = flag_stores[-1]["val"] if flag_stores else None  # None: untouched, i.e. still set
        if r["kind"] == "raise" and (r.get("acquires", 0) or r.get("releases", 0)):
            ok_l = r["releases"] == r["acquires"]
            res.add("C12-R3", f"save_sensors[{ext}] / a lock taken by the save is released on every exit, also when a file operation fails", ok_l, "mysensors/persistence.py", f"{r['acquires']} acquire / {r['releases']} release" if ok_l else f"{r['acquires']} acquire but {r['releases']} release on a path that fails with {r['exc']}: the lock stays held and every later save (scheduled or final) is skipped", r["witness"] if not ok_l else None)
        if r["kind"] == "raise":
            failing += 1
            ok = final_flag in (None, True)
            res.add("C12-R3", f"save_sensors[{ext}] / a failing file operation leaves the state marked unsaved", ok, "mysensors/persistence.py", f"{r['exc']} propagates, need_save " + ("untouched" if final_flag is None else "set again before the exception leaves") if ok else "the dirty flag is cleared (and not set again) although a file operation failed: the retry and the final save at stop() skip", r["witness"] if not ok else None)
            # ... and leaves a loadable previous copy: the backup may be removed only after the new main file
            # really is in place (a removal in a finally / handler after the failed move-in deletes the only copy)
            rm_bak_f = [e for e in removes if e["args"] and e["args"][0] == bak_key]
            if rm_bak_f:
                failed_at = r["exc_site"]
                done = [e for e in renames if len(e["args"]) > 1 and e["args"][0] != bak_key and e["args"][1] != bak_key and e["i"] < rm_bak_f[0]["i"] and f"{e['func']}:{e['line']}" != failed_at]
                aside_f = [e for e in renames if len(e["args"]) > 1 and e["args"][1] == bak_key]
                ok_keep = bool(done) or not aside_f
                res.add("C12-R3", f"save_sensors[{ext}] / a failed save never removes the backup before the new main file is in place", ok_keep, "mysensors/persistence.py", "on failing paths the backup is only removed after a completed move-in" if ok_keep else f"on the path where {failed_at} fails, the old file has been moved aside to the backup and the backup is then removed: no loadable copy is left", r["witness"] if not ok_keep else None)
            continue
        # a lock taken on the way is released on every exit (a failing save that keeps it makes every later save skip)
        if r.get("acquires", 0) or r.get("releases", 0):
            wrote = bool(wr_opens or renames)
            ok_l = r["releases"] == r["acquires"] if wrote else r["releases"] <= r["acquires"]
            res.add("C12-R3", f"save_sensors[{ext}] / a lock taken by the save is released on every exit, also when a file operation fails", ok_l, "mysensors/persistence.py", f"{r['acquires']} acquire / {r['releases']} release" if ok_l else f"{r['acquires']} acquire but {r['releases']} release on a path that {'fails with ' + str(r['exc']) if r['kind'] == 'raise' else 'writes'}: the lock stays held and every later save (scheduled or final) is skipped", r["witness"] if not ok_l else None)
        if r["kind"] != "raise" and not wr_opens and not renames:
            # early return paths (permission denied / nothing to save): must not clear the flag
            ok = not clears
            res.add("C12-R3", f"save_sensors[{ext}] / a skipped save does not clear the dirty flag", ok, "mysensors/persistence.py", "early return", r["witness"] if not ok else None)
            ok_r = r.get("skip_reason") in ("clean", "denied")
            res.add("C12-R3", f"save_sensors[{ext}] / a save is skipped only when the state is clean or the location is not writable", ok_r, "mysensors/persistence.py", f"skipped because: {r.get('skip_reason')}" if ok_r else "a path returns without writing although the state is dirty and the location writable (e.g. because another save is in progress): the final save of stop() can be skipped and the last reports are lost", r["witness"] if not ok_r else None)
            continue
        normal += 1
        # the directory whose writability is tested comes from an absolute path: dirname() of a bare file name
        # is "" and os.access("") is False - every save would be refused
        for a in r.get("access_args", []):
            if "os.path.dirname(" in a:
                ok_abs = "os.path.realpath(" in a or "os.path.abspath(" in a
                res.add("C12-R1", f"save_sensors[{ext}] / the directory tested for writability is taken from an absolute path", ok_abs, "mysensors/persistence.py", "dirname(realpath(persistence_file))" if ok_abs else f"os.access({a[:110]}) - for a persistence file given as a bare file name (the default) the directory is '' and every save is refused as 'permission denied'", r["witness"] if not ok_abs else None)
        res.add("C12-R3", f"save_sensors[{ext}] / saving does not modify the live state", not r.get("state_updates"), "mysensors/persistence.py", "no update of the sensors map on a save path" if not r.get("state_updates") else f"the sensors map is updated at {r['state_updates'][0]} during a save: live Sensor objects are replaced by re-loaded copies (sleep state, hold queues and reboot flags of all nodes are reset by every save)", r["witness"] if r.get("state_updates") else None)
        # a failed write is never followed by the move-in: what replaces the good file was written completely
        first_w = min([e["i"] for e in wr_opens] or [10**9])
        swallowed = [(n, f) for i, n, f in r.get("catches", []) if i > first_w and f.startswith("persistence:")]
        res.add("C12-R2", f"save_sensors[{ext}] / an error while the temp file is written is not swallowed (the save fails, the good file stays)", not swallowed, "mysensors/persistence.py", "no handler between the write and the move-in on a completing path" if not swallowed else f"{swallowed[0][0]} raised while writing is caught in {swallowed[0][1]} and the save goes on: a partly written temp file replaces the good file, the backup is removed and the state is marked saved", r["witness"] if swallowed else None)
        # fname: target of the rename whose source is the written temp name
        tmp = wr_opens[0]["args"][0] if wr_opens else None
        ok1 = len(wr_opens) == 1 and tmp is not None
        res.add("C12-R1", f"save_sensors[{ext}] / exactly one file is opened for writing", ok1, "mysensors/persistence.py", f"{len(wr_opens)} write opens", r["witness"] if not ok1 else None)
        res.add("C12-R1", f"save_sensors[{ext}] / the temp file is written from empty (truncating open)", not not_empty, "mysensors/persistence.py", "open mode truncates" if not not_empty else f"the written file is opened without truncation ({'; '.join(not_empty)}): a longer leftover temp file keeps its tail behind the new content", r["witness"] if not_empty else None)
        res.add("C12-R1", f"save_sensors[{ext}] / a leftover temp file of an interrupted save does not block the next save", not exclusive, "mysensors/persistence.py", "the temp file is overwritten" if not exclusive else f"the temp file is created exclusively ({'; '.join(exclusive)}) and nothing removes a leftover one first: after one interrupted save every later save fails with FileExistsError", r["witness"] if exclusive else None)
        moves_in = [e for e in renames if e["args"] and e["args"][0] == tmp]
        ok_move = len(moves_in) == 1
        res.add("C12-R3", f"save_sensors[{ext}] / the temp file is moved onto the main file exactly once", ok_move, "mysensors/persistence.py", f"{len(moves_in)} moves of the temp file", r["witness"] if not ok_move else None)
        if not ok_move or not ok1:
            continue
        main = moves_in[0]["args"][1]
        ok_names = tmp != main and tmp != bak_key and tmp != pf_key and isinstance(tmp, tuple) and "fstr" in repr(tmp) or (tmp != main and "tmp" in repr(tmp))
        res.add("C12-R1", f"save_sensors[{ext}] / the written path is the temp name, not the main or backup file", bool(ok_names), "mysensors/persistence.py", "temp name derived from the main name", r["witness"] if not ok_names else None)
        # R2 durability order on the same handle
        h = None
        for e in fe:
            if e["name"] == "with_enter":
                h = e["recv"]
                break
        # the exit that closes the file: the with_exit matching the first with_enter of the handle (a generator
        # context manager around the open() contributes an inner enter / exit pair of its own)
        depth = 0
        started = False
        for e in fe:
            if e["name"] == "with_enter":
                if not started and e["recv"] == h:
                    started = True
                    depth = 1
                elif started:
                    depth += 1
            elif e["name"] == "with_exit" and started:
                depth -= 1
                if depth == 0:
                    wexits = [e]
                    break
        ok_dump = len(dumps) == 1 and len(dumps[0]["args"]) > 1 and dumps[0]["args"][1] == h
        ok_order = ok_dump and flushes and fsyncs and wexits and dumps[0]["i"] < flushes[0]["i"] < fsyncs[0]["i"] < wexits[0]["i"] and flushes[0]["recv"] == h and "fileno" in repr(fsyncs[0]["args"][0]) and repr(h) in repr(fsyncs[0]["args"][0])
        res.add("C12-R2", f"_save_{ext} / dump -> flush -> fsync(fileno) on the same handle inside the with block", bool(ok_order), "mysensors/persistence.py", "durable before visible" if ok_order else f"dump {len(dumps)}, flush {len(flushes)}, fsync {len(fsyncs)} - order or handle mismatch", r["witness"] if not ok_order else None)
        for d in dumps:
            ea = d.get("kwargv", {}).get("ensure_ascii")
            if d["name"] == "json.dump":
                okea = ea is None or not (isinstance(ea, Const) and ea.value is False)
                res.add("C12-R2", f"_save_{ext} / every string can be written whatever it contains (ASCII-escaped JSON)", okea, "mysensors/persistence.py", "json.dump escapes non-ASCII" if okea else "ensure_ascii=False writes characters raw: a payload with a lone surrogate (accepted from the wire) makes every save raise UnicodeEncodeError, while pickle saves it", r["witness"] if not okea else None)
        ok_data = ok_dump and "_sensors" in repr(dumps[0]["args"][0]) or ok_dump and "sensors" in repr(dumps[0]["args"][0])
        res.add("C12-R2", f"_save_{ext} / the sensor map is what is dumped", bool(ok_data), "mysensors/persistence.py", "")
        write_done = wexits[0]["i"] if wexits else 10**9
        touching_main = [e for e in renames + removes if main in e["args"]]
        ok_after = all(e["i"] > write_done for e in touching_main + [e for e in renames + removes])
        res.add("C12-R3", f"save_sensors[{ext}] / no directory operation before the temp file is completely written and synced", ok_after, "mysensors/persistence.py", "temp write dominates every rename/remove", r["witness"] if not ok_after else None)
        aside = [e for e in renames if e["args"] and e["args"][0] == main]
        for e in aside:
            ok_b = len(e["args"]) > 1 and e["args"][1] == bak_key and e["i"] < moves_in[0]["i"]
            res.add("C12-R3", f"save_sensors[{ext}] / the old main file is moved aside to the backup before the new one is moved in", ok_b, "mysensors/persistence.py", "rename(main, bak) < rename(tmp, main)", r["witness"] if not ok_b else None)
        rm_bak = [e for e in removes if e["args"] and e["args"][0] == bak_key]
        rm_other = [e for e in removes if e not in rm_bak]
        res.add("C12-R3", f"save_sensors[{ext}] / nothing but the backup is removed", not rm_other, "mysensors/persistence.py", f"removes {[repr(e['args']) for e in rm_other]}" if rm_other else "", r["witness"] if rm_other else None)
        if aside:
            ok_rm = len(rm_bak) == 1 and rm_bak[0]["i"] > moves_in[0]["i"]
            res.add("C12-R3", f"save_sensors[{ext}] / the backup is removed only after the new main file is in place", ok_rm, "mysensors/persistence.py", "remove(bak) follows rename(tmp, main)" if ok_rm else f"{len(rm_bak)} removals of the backup / wrong order", r["witness"] if not ok_rm else None)
        else:
            res.add("C12-R3", f"save_sensors[{ext}] / no backup removal when nothing was moved aside", not rm_bak, "mysensors/persistence.py", "both backup operations are under the same `exists` condition", r["witness"] if rm_bak else None)
        # the flag is cleared exactly once, and before the state is read: alert() runs on another thread (the pump)
        # and marks the state again while the file is being written - a clearing store after the dump has begun
        # wipes that mark, and the report is lost at stop() (lost update on the dirty flag)
        first_read = min([e["i"] for e in dumps + wr_opens] or [0])
        ok_clear = len(clears) == 1 and clears[0]["i"] < first_read
        res.add("C12-R3", f"save_sensors[{ext}] / the dirty flag is cleared once, before the state is read (a report handled during the write marks it again)", ok_clear, "mysensors/persistence.py", "need_save = False precedes the dump; failing paths set it again" if ok_clear else (f"{len(clears)} clearing stores" if len(clears) != 1 else "need_save = False is stored after the dump has begun: a report handled by the pump thread while the file is written (alert sets the flag) is marked as saved although the file does not contain it - the final save at stop() is skipped and the report is lost"), r["witness"] if not ok_clear else None)
    if normal < 1:
        res.add("C12-R3", f"save_sensors[{ext}] / a dirty state is written", False, "mysensors/persistence.py", "no path of save_sensors writes the temp file and moves it into place")
    if failing < 4:
        raise AnalysisError(f"C12: only {failing} failing save paths for {ext}")


def _mode_values(analysis: Analysis, mod, fn: str, mexpr, _depth: int = 0):
    """(mode, function that chose it) pairs for the mode expression of an open() call in `fn`: a constant, or a
    parameter of a private helper resolved at each of the helper's call sites (one level per step, depth <= 3)."""
    if mexpr is None:
        return [("r", fn)]
    if isinstance(mexpr, ast.Constant):
        return [(mexpr.value, fn)]
    info = analysis.p.funcs.get(fn)
    short = fn.split(".")[-1].split(":")[-1]
    if isinstance(mexpr, ast.Name) and info is not None and _depth < 3 and short.startswith("_") and not short.startswith("__"):
        params = [a.arg for a in info.node.args.posonlyargs + info.node.args.args]
        kwonly = [a.arg for a in info.node.args.kwonlyargs]
        if mexpr.id in params or mexpr.id in kwonly:
            out = []
            is_method = info.cls is not None and "staticmethod" not in info.decorators
            for m2 in common.core_modules(analysis):
                for c in ast.walk(m2.tree):
                    if not (isinstance(c, ast.Call) and ((isinstance(c.func, ast.Name) and c.func.id == short) or (isinstance(c.func, ast.Attribute) and c.func.attr == short))):
                        continue
                    caller = common.func_of_node(analysis, m2, c)
                    arg = next((k.value for k in c.keywords if k.arg == mexpr.id), None)
                    if arg is None and mexpr.id in params:
                        idx = params.index(mexpr.id) - (1 if is_method and isinstance(c.func, ast.Attribute) else 0)
                        if 0 <= idx < len(c.args) and not any(isinstance(a, ast.Starred) for a in c.args[: idx + 1]):
                            arg = c.args[idx]
                    if arg is None:
                        defaults = info.node.args.defaults
                        di = params.index(mexpr.id) - (len(params) - len(defaults)) if mexpr.id in params else -1
                        arg = defaults[di] if 0 <= di < len(defaults) else None
                    out.extend(_mode_values(analysis, m2, caller, arg, _depth + 1) if arg is not None else [("?", caller)])
            if out:
                return out
    return [("?", fn)]


def open_modes(analysis: Analysis, res: RuleResult) -> None:
    mod = analysis.p.modules["persistence"]
    n = 0
    for node in ast.walk(mod.tree):
        if isinstance(node, ast.Call) and (isinstance(node.func, ast.Name) and node.func.id == "open" or unparse(node.func) == "os.fdopen"):
            n += 1
            fn = common.func_of_node(analysis, mod, node)
            mexpr = node.args[1] if len(node.args) > 1 else next((k.value for k in node.keywords if k.arg == "mode"), None)
            savers = {q for q in analysis.p.funcs if q.split(".")[-1].startswith("_save_")}
            for mode, owner in _mode_values(analysis, mod, fn, mexpr):
                writing = any(ch in str(mode) for ch in "wax+?")
                ok = (writing and common.owned_by(analysis, owner, savers)) or (not writing)
                via = "" if owner == fn else f" (mode passed by {owner})"
                res.add("C12-R1", f"{fn} / open mode {mode!r}{via}", ok, common.where(analysis, mod, node), "write modes only in the _save_* helpers, which receive the temp name" if ok else "a file is opened for writing outside the _save_* helpers")
    if n < 2:
        raise AnalysisError(f"C12-R1: only {n} open() calls found in persistence.py")
    # _save_* helpers are only reached through save_sensors -> _perform_file_action(tmp, "save")
    info = analysis.p.func("persistence:Persistence.save_sensors")
    calls = [c for c in common.calls_in(info.node, "_perform_file_action")]
    ok = len(calls) == 1 and len(calls[0].args) == 2 and isinstance(calls[0].args[1], ast.Constant) and calls[0].args[1].value == "save" and unparse(calls[0].args[0]) not in ("self.persistence_file", "self.persistence_bak")
    res.add("C12-R1", "persistence:Persistence.save_sensors / the save helper is called once, not with the main or backup name (which name it gets is judged on the paths)", ok, common.where(analysis, info, info.node), unparse(calls[0]) if calls else "no call")
    for fn in analysis.p.funcs.values():
        if fn.module is mod:
            for c in common.calls_in(fn.node):
                txt = unparse(c.func)
                if txt.endswith("._save_json") or txt.endswith("._save_pickle"):
                    res.add("C12-R1", f"{fn.qual} / direct call of a save helper", False, common.where(analysis, fn, c), "a _save_* helper is called directly (possibly with the main file name)")


def load_worker(analysis: Analysis, spec) -> dict:
    ext, ctxspec = spec
    ctx = analysis.context(*ctxspec)
    it = analysis.new_interp(ctx)
    persist.install_dispatch(analysis, it, ext)
    st, gw, p = persist.persistence_state(analysis, it)
    outs = analysis.run_root(it, "persistence:Persistence.safe_load_sensors", [], p, st)
    rows = []
    bak_key = ("attr", p.key(), "persistence_bak")
    pf_key = ("attr", p.key(), "persistence_file")
    for out in outs:
        kind, s, v = out
        loads = []
        for i, e in enumerate(s.events):
            if e.kind == "enter" and e.name == "persistence:Persistence._load_sensors":
                path = e.args[1] if len(e.args) > 1 else Const(None)
                loads.append({"i": i, "bak": isinstance(path, V) and path.key() == bak_key, "ok": None, "raised": None})
            if e.kind == "exit" and e.name == "persistence:Persistence._load_sensors" and loads:
                rv = e.args[0] if e.args else None
                loads[-1]["ok"] = isinstance(rv, Const) and rv.value is True
        catches = [(i, e.name) for i, e in enumerate(s.events) if e.kind == "catch" and e.func.startswith("persistence:Persistence.") and not any(e.func.endswith(f"._load_{x}") for x in persist.EXTS)]
        fe = persist.file_events(s)
        decodes = [e for e in fe if e["name"] in ("pickle.load", "json.load")]
        updates = [e for e in fe if e["name"] == "update"]
        renames = [e for e in fe if e["name"] == "os.rename"]
        removes = [e for e in fe if e["name"] == "os.remove"]
        LOAD_OPS = {"os.path.isfile", "os.path.exists", "os.access", "os.rename", "os.replace", "builtins.open", "os.remove", "os.unlink", "pickle.load", "json.load", "with_enter", "with_exit", "update", "os.path.realpath", "os.path.splitext", "os.path.dirname", "os.path.basename", "os.path.join", "os.path.getsize", "file.read", "file.close"}
        other_ops = sorted({e["name"] for e in fe if e["name"] not in LOAD_OPS})
        tests = [(e["i"], e["name"], e["args"][0] if e["args"] else None) for e in fe if e["name"] in ("os.path.isfile", "os.path.exists", "os.access")]
        rows.append({"tests": tests, "kind": kind, "other_ops": other_ops, "exc": v.cls.__name__ if kind == "raise" else None, "exc_what": v.what if kind == "raise" else None, "loads": loads, "catches": catches, "decodes": [(e["i"], e["name"]) for e in decodes], "updates": [(e["i"], repr(e["args"])) for e in updates], "renames": [(e["i"], e["args"]) for e in renames], "removes": [(e["i"], e["args"]) for e in removes], "witness": describe_path(out, 26), "bak_key": bak_key, "pf_key": pf_key})
    return {"ext": ext, "ctx": ctx.name, "rows": rows}


def analyse_load_rows_c12(res: RuleResult, summ) -> None:
    ext = summ["ext"]
    n_fallback = 0
    for r in summ["rows"]:
        loads = r["loads"]
        main_attempts = [l for l in loads if not l["bak"]]
        bak_attempts = [l for l in loads if l["bak"]]
        # start-up loading performs the reviewed file operations only: any further one is a new way for start-up to
        # fail with an OSError that nothing here handles
        res.add("C12-R4", f"safe_load_sensors[{ext}] / loading performs no file operation beyond test, promote, read and remove", not r.get("other_ops"), "mysensors/persistence.py", "isfile / access / rename / open / load / remove only" if not r.get("other_ops") else f"the load path also calls {r['other_ops']}: its OSError (e.g. os.open('') for a bare file name) escapes safe_load_sensors and start-up although the files themselves are usable", r["witness"] if r.get("other_ops") else None)
        # no path gives up without even trying the main file (the backup is consulted from there)
        if not loads:
            res.add("C12-R4", f"safe_load_sensors[{ext}] / every start attempts to load (main, then backup)", False, "mysensors/persistence.py", "a path returns without calling _load_sensors at all (e.g. when the main file does not exist): a backup left by an interrupted save is never looked at", r["witness"])
            continue
        # the backup is the only other copy: nothing may remove or move it before the backup attempt begins
        first_bak_i = bak_attempts[0]["i"] if bak_attempts else 10**9
        early = [(i, a) for i, a in r["removes"] + r["renames"] if a and r["bak_key"] in a and i < first_bak_i]
        res.add("C12-R4", f"safe_load_sensors[{ext}] / the backup is left alone until the main file has failed to load", not early, "mysensors/persistence.py", "no file operation on the backup during the main attempt" if not early else "the backup is removed / moved while the main file is being tried, before it has proved loadable: a damaged main file then leaves nothing to fall back to", r["witness"] if early else None)
        # each attempt tests the file it is about to load, not the other one
        for k, l in enumerate(loads):
            end = loads[k + 1]["i"] if k + 1 < len(loads) else 10**9
            want = r["bak_key"] if l["bak"] else r["pf_key"]
            wrong = [(n, a) for i, n, a in r.get("tests", []) if l["i"] < i < end and a != want]
            which = "backup" if l["bak"] else "main"
            res.add("C12-R4", f"safe_load_sensors[{ext}] / the {which} attempt tests the existence and readability of the {which} file", not wrong, "mysensors/persistence.py", "isfile / access on the file that is loaded" if not wrong else f"{wrong[0][0]}({wrong[0][1]!r}) during the {which} attempt: the test looks at the other file - an intact backup is ignored when the main file is missing, and a missing backup is renamed (FileNotFoundError out of start-up) when the main file is damaged", r["witness"] if wrong else None)
        if r["kind"] == "raise":
            continue  # C13
        main_ok = main_attempts and main_attempts[0]["ok"] is True
        first_bak = bak_attempts[0]["i"] if bak_attempts else 10**9
        main_applied = any(ui < first_bak for ui, _a in r["updates"])
        if main_applied and bak_attempts:
            res.add("C12-R4", f"safe_load_sensors[{ext}] / the backup is not touched when the main file loaded", False, "mysensors/persistence.py", "the main file was decoded and applied, yet the (possibly stale) backup is loaded on top: mixed state", r["witness"])
            continue
        if main_ok:
            ok = not bak_attempts
            res.add("C12-R4", f"safe_load_sensors[{ext}] / the backup is not touched when the main file loaded", ok, "mysensors/persistence.py", "", r["witness"] if not ok else None)
        else:
            n_fallback += 1
            ok = len(bak_attempts) == 1 and bak_attempts[0]["i"] > main_attempts[0]["i"]
            res.add("C12-R4", f"safe_load_sensors[{ext}] / the backup is tried when the main file is missing or damaged", ok, "mysensors/persistence.py", "one backup attempt after the failed main attempt" if ok else f"{len(bak_attempts)} backup attempts", r["witness"] if not ok else None)
            if r["decodes"] and bak_attempts:
                # a decode during the backup attempt must be preceded by the promotion rename(bak, main)
                dec_after = [i for i, _n in r["decodes"] if i > bak_attempts[0]["i"]]
                prom = [i for i, a in r["renames"] if a and a[0] == r["bak_key"] and a[1] == r["pf_key"] and i > bak_attempts[0]["i"]]
                if dec_after:
                    ok_p = bool(prom) and min(prom) < min(dec_after)
                    res.add("C12-R4", f"safe_load_sensors[{ext}] / the backup is promoted to the main name before it is read", ok_p, "mysensors/persistence.py", "rename(bak, main) precedes the load", r["witness"] if not ok_p else None)
    if n_fallback < 2:
        raise AnalysisError(f"C12-R4: only {n_fallback} fallback paths for {ext}")


def run(analysis: Analysis, tier: str) -> RuleResult:
    res = RuleResult(PROP)
    res.explanation = [
        "Temp-write / fsync / move-aside / move-in / drop-old protocol decided on every abstract path (normal and exceptional, one exceptional path per file operation that can fail) of save_sensors for both file formats: R1 only the temp name is opened for writing; R2 dump -> flush -> fsync on the same handle inside the with block; R3 ordering of the directory operations relative to the completed temp write and to each other, backup operations under one condition, the dirty flag cleared once before the state is read (a report handled during the write marks it again), set again on every failing path while the error propagates, a skipped save only for a clean state or an unwritable location;",
        "R4 every path of safe_load_sensors: the backup is tried exactly when the main load failed and is promoted by rename before it is read.",
        "Under this protocol, after a crash at any point either the main file (old or new, complete) or the backup (old, complete) exists. File-system semantics (directory fsync, rename over an existing target on Windows) are assumed.",
    ]
    persist.check_dispatch_shape(analysis)
    open_modes(analysis, res)
    last = analysis.versions[-1]
    for summ in common.pmap(analysis, save_worker, [(e, (last, "serial", "sync")) for e in persist.EXTS]):
        analyse_save_rows(res, summ)
    for summ in common.pmap(analysis, load_worker, [(e, (last, "serial", "sync")) for e in persist.EXTS]):
        analyse_load_rows_c12(res, summ)
    res.units = {"formats": list(persist.EXTS), "source_digest": analysis.p.digest()}
    res.not_decided = ["durability of renames without a directory fsync", "rename over an existing target on Windows"]
    res.assumptions = ["POSIX rename atomicity", "sa/extmodel.py: each file operation may raise OSError"]
    res.trusted = ["sa/extmodel.py"]
    return res
