"""Shared set-up for the persistence rules (C11-C15): roots on a Persistence object per file format."""
from __future__ import annotations

import ast
from typing import Dict, List, Optional, Tuple

from ..engine import Analysis
from ..frontend import AnalysisError, FuncInfo, unparse
from ..interp import Interp
from ..values import BoundV, Const, ExtObj, Sym, Unknown, V

EXTS = ("json", "pickle")
PFA = "persistence:Persistence._perform_file_action"


def check_dispatch_shape(analysis: Analysis) -> None:
    """_perform_file_action must be the name-pattern dispatch `getattr(self, f"_{action}_{ext}")(filename)`."""
    info = analysis.p.func(PFA)
    params = [a.arg for a in info.node.args.args]
    if params[:3] != ["self", "filename", "action"]:
        raise AnalysisError(f"{PFA}: unexpected signature {params}")
    fname_p, action_p = params[1], params[2]
    pattern_ok = False
    call_ok = False
    fn_var = None
    derived = {}  # local name -> expression it was assigned from
    for n in ast.walk(info.node):
        if isinstance(n, ast.Assign) and len(n.targets) == 1 and isinstance(n.targets[0], ast.Name):
            derived[n.targets[0].id] = n.value

    def from_extension(expr, depth=0) -> bool:
        """Does the expression derive from os.path.splitext(<filename>)[1] (possibly sliced / via locals)?"""
        txt = unparse(expr)
        # the extension of the file at hand, or of the configured main file (temp and promoted backup share it)
        if "splitext" in txt and (fname_p in txt or "self.persistence_file" in txt):
            return True
        if depth > 4:
            return False
        for nm in [x.id for x in ast.walk(expr) if isinstance(x, ast.Name)]:
            if nm in derived and from_extension(derived[nm], depth + 1):
                return True
        return False

    for n in ast.walk(info.node):
        if isinstance(n, ast.Assign) and isinstance(n.value, ast.Call) and unparse(n.value.func) == "getattr" and len(n.value.args) >= 2 and isinstance(n.value.args[1], ast.JoinedStr):
            js = n.value.args[1]
            lits = [p.value for p in js.values if isinstance(p, ast.Constant)]
            vals = [p.value for p in js.values if isinstance(p, ast.FormattedValue)]
            if lits == ["_", "_"] and len(vals) == 2 and unparse(vals[0]) == action_p and from_extension(vals[1]) and unparse(n.value.args[0]) == "self":
                pattern_ok = True
                fn_var = n.targets[0].id if isinstance(n.targets[0], ast.Name) else None
    if fn_var:
        for n in ast.walk(info.node):
            if isinstance(n, ast.Call) and isinstance(n.func, ast.Name) and n.func.id == fn_var and len(n.args) == 1 and unparse(n.args[0]) == fname_p:
                call_ok = True
    if not (pattern_ok and call_ok):
        raise AnalysisError(f"{PFA}: dispatch `getattr(self, f'_{{action}}_{{ext}}')(filename)` not recognised")


def install_dispatch(analysis: Analysis, it: Interp, ext: str) -> None:
    """Resolve the dynamic dispatch of _perform_file_action for file extension `ext`."""

    def handler(itp, st, info, args, kwargs, node):
        self_v, filename, action = args[0], args[1], args[2]
        if not (isinstance(action, Const) and isinstance(action.value, str)):
            raise AnalysisError(f"{PFA}: action argument is not a constant at {itp.where(st, node)}")
        ty = itp.ty_of(self_v)
        m = analysis.p.find_method(ty[1], f"_{action.value}_{ext}") if isinstance(ty, tuple) else None
        if not isinstance(m, FuncInfo):
            return [itp.raise_(st, Exception, node, f"Unsupported file type {ext}")]
        itp.emit(st, "dispatch", m.qual, node, args=[filename])
        return itp.call_func(st, BoundV(self_v, m), [filename], {}, node)

    it.opaque_handlers[PFA] = handler


def persistence_state(analysis: Analysis, it: Interp):
    st, gw = analysis.gateway_state(it)
    p = Sym(("root", "P"), ("cls", "persistence:Persistence"))
    return st, gw, p


def file_events(s) -> List[dict]:
    """File-system relevant events of a path, in order."""
    out = []
    for i, e in enumerate(s.events):
        if e.kind == "call" and e.name == "os.fdopen" and e.args and isinstance(e.args[0], ExtObj) and e.args[0].cls == "fd" and e.args[0].args:
            # os.fdopen(os.open(path, flags, perm), mode): an open of `path`; truncation is decided by the flags
            fd = e.args[0]
            flags = fd.args[1] if len(fd.args) > 1 else fd.kwargs.get("flags")
            argv = [fd.args[0]] + list(e.args[1:])
            if len(argv) < 2 and "mode" in e.kwargs:
                argv.append(e.kwargs["mode"])
            out.append({"i": i, "name": "builtins.open", "via": "os.fdopen", "flags": flags.value if isinstance(flags, Const) and isinstance(flags.value, int) else None, "args": [a.key() if isinstance(a, V) else a for a in argv], "recv": None, "kwargs": {}, "func": e.func, "line": e.line, "facts": e.facts, "argv": argv})
            continue
        if e.kind == "call" and e.name == "os.open":
            continue
        if e.kind == "call" and (e.name.startswith("os.") or e.name in ("builtins.open", "pickle.dump", "json.dump", "pickle.load", "json.load", "shutil.move") or e.name.startswith("file.")):
            out.append({"i": i, "name": e.name, "args": [a.key() if isinstance(a, V) else a for a in e.args], "recv": e.recv.key() if isinstance(e.recv, V) else None, "kwargs": {k: (v.key() if isinstance(v, V) else v) for k, v in e.kwargs.items()}, "func": e.func, "line": e.line, "facts": e.facts, "argv": list(e.args), "kwargv": dict(e.kwargs)})
        elif e.kind in ("with_enter", "with_exit"):
            out.append({"i": i, "name": e.kind, "recv": e.recv.key() if isinstance(e.recv, V) else None, "extra": e.extra, "func": e.func, "line": e.line, "args": [], "facts": e.facts})
        elif e.kind == "store" and e.name == "need_save":
            out.append({"i": i, "name": "store need_save", "val": e.args[0].value if e.args and isinstance(e.args[0], Const) else "?", "func": e.func, "line": e.line, "args": [], "facts": e.facts})
        elif e.kind == "update":
            out.append({"i": i, "name": "update", "recv": e.recv.key() if isinstance(e.recv, V) else None, "args": [a.key() for a in e.args], "func": e.func, "line": e.line, "facts": e.facts, "argv": list(e.args)})
    return out
