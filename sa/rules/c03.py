"""C03 - Inbound validation conforms to the per-version serial API.

R1 table totality, R2 monotone growth, R3 payload-rule conformance against the reviewed
reference table (normal forms), R3b body rules of the named function validators, R4 header
rules by exact abstract evaluation of Message.validate over (command x sub-type class x
child class), R5 function validators are total up to vol.Invalid/ValueError, R6 interface of
the const modules.
"""
from __future__ import annotations

import ast
import json
import os
from typing import Dict, List, Optional

from .. import descr
from ..engine import Analysis, describe_path
from ..extmodel import VOL_INVALID
from ..frontend import AnalysisError, unparse
from ..report import RuleResult
from ..values import Const, DictV, EnumMemV, ExtObj, ExtV, ListV, ModV, Sym, TupleV, V  # noqa: F401
from . import common

PROP = "C03"
SPEC = os.path.join(os.path.dirname(os.path.dirname(os.path.abspath(__file__))), "spec", "c03_payload_rules.json")
ENUMS = ["MessageType", "Presentation", "SetReq", "Internal", "Stream"]
TYPE_ENUM = {"presentation": "Presentation", "set": "SetReq", "req": "SetReq", "internal": "Internal", "stream": "Stream"}
CONST_NAMES = ["MessageType", "Presentation", "SetReq", "Internal", "Stream", "VALID_MESSAGE_TYPES", "VALID_PAYLOADS", "VALID_SETREQ", "VALID_TYPES", "MAX_NODE_ID", "get_handler_registry"]


def vkey(v: str):
    return tuple(int(x) for x in v.split("."))


# ------------------------------------------------------------------------------- R1 / R2
def totality(analysis: Analysis, res: RuleResult) -> None:
    refl = analysis.refl
    rows_total = 0
    for ver in sorted(refl["consts"], key=vkey):
        c = refl["consts"][ver]
        mod = c["module"]
        for e in ENUMS:
            res.add("C03-R1", f"{ver}: enum {e} defined", e in c.get("enums", {}), mod, f"{len(c['enums'].get(e, {}).get('canonical', []))} members")
        if not all(e in c.get("enums", {}) for e in ENUMS):
            continue
        mt = c["enums"]["MessageType"]["canonical"]
        vmt = c.get("VALID_MESSAGE_TYPES", {})
        vp = c.get("VALID_PAYLOADS", {})
        res.add("C03-R1", f"{ver}: the five commands are defined", sorted(v for _n, v in mt) == [0, 1, 2, 3, 4], mod, f"MessageType members {mt}")
        for tname, tval in mt:
            enum = TYPE_ENUM.get(tname)
            rows = vmt.get(str(tval))
            okk = rows is not None
            res.add("C03-R1", f"{ver}: VALID_MESSAGE_TYPES[{tname}] exists", okk, mod, "sub-type list present" if okk else "command has no sub-type list: every frame of this command is rejected")
            if not okk or enum is None:
                continue
            want = sorted({v for _n, v in c["enums"][enum]["canonical"]})
            got = sorted({r[2] for r in rows})
            res.add("C03-R1", f"{ver}: VALID_MESSAGE_TYPES[{tname}] = members of {enum}", want == got and all(r[0] == enum for r in rows), mod, f"{len(got)} sub-types" if want == got else f"defined members {want} but listed {got}")
            prow = vp.get(str(tval))
            res.add("C03-R1", f"{ver}: VALID_PAYLOADS[{tname}] exists", prow is not None, mod, "")
            if prow is None:
                continue
            extra = sorted(int(k) for k in prow if int(k) not in set(want))
            # extra rows are latent only: whether an undefined sub-type is accepted is decided by the
            # sub-type validator that Message.validate builds (C03-R4), so this is a note, not a violation
            if extra:
                res.extra.setdefault("notes", []).append(f"{ver}: payload rules exist for sub-type values {extra} of {tname} that {enum} does not define (table shared with another version)")
            for sval in want:
                okp = str(sval) in prow
                rows_total += 1
                sname = next((n for n, v in c["enums"][enum]["canonical"] if v == sval), sval)
                res.add("C03-R1", f"{ver}: payload rule for {tname}/{sname}", okp, mod, descr.show(descr.norm(prow[str(sval)]["d"])) if okp else "no payload rule: Message.validate silently falls back to 'payload must be empty'")
        # child schemas
        vt = c.get("VALID_TYPES", {})
        vs = c.get("VALID_SETREQ", {})
        pres = c["enums"]["Presentation"]["canonical"]
        for pname, pval in pres:
            okt = str(pval) in vt
            res.add("C03-R1", f"{ver}: child schema (VALID_TYPES) for {pname}", okt, mod, "" if okt else "ChildSensor.get_schema raises KeyError for this presentation type")
            if okt:
                missing = [m[1] for m in vt[str(pval)]["v"] if str(m[2]) not in vs]
                res.add("C03-R1", f"{ver}: value rules (VALID_SETREQ) for the value types of {pname}", not missing, mod, "" if not missing else f"no VALID_SETREQ rule for {missing}")
        has_custom = any(n == "S_CUSTOM" for n, _v in c["enums"]["Presentation"]["members"])
        res.add("C03-R1", f"{ver}: S_CUSTOM presentation type exists", has_custom, mod, "used unconditionally by ChildSensor.get_schema")
        res.add("C03-R2", f"{ver}: MAX_NODE_ID is 254", c.get("MAX_NODE_ID") == 254, mod, f"MAX_NODE_ID = {c.get('MAX_NODE_ID')}")
    versions = sorted(refl["consts"], key=vkey)
    for a, b in zip(versions, versions[1:]):
        for e in ENUMS:
            try:
                va = {v for _n, v in refl["consts"][a]["enums"][e]["members"]}
                vb = {v for _n, v in refl["consts"][b]["enums"][e]["members"]}
            except KeyError:
                continue
            lost = sorted(va - vb)
            res.add("C03-R2", f"{a}->{b}: sub-type values of {e} only grow", not lost, refl["consts"][b]["module"], f"{len(va)} -> {len(vb)} values" if not lost else f"values {lost} defined in {a} are gone in {b}")
    res.extra["payload_rows"] = rows_total


# ------------------------------------------------------------------------------------ R3
def conformance(analysis: Analysis, res: RuleResult) -> None:
    with open(SPEC, encoding="utf-8") as fh:
        spec = json.load(fh)
    refl = analysis.refl
    n = 0
    for ver in sorted(refl["consts"], key=vkey):
        c = refl["consts"][ver]
        mod = c["module"]
        ref = spec["payload"].get(ver)
        if ref is None:
            res.add("C03-R3", f"{ver}: version known to the reference table", False, mod, "no reference rows for this version")
            continue
        got = {t: {s: descr.norm(row["d"]) for s, row in rows.items()} for t, rows in c.get("VALID_PAYLOADS", {}).items()}
        for t in sorted(set(ref) | set(got), key=int):
            for s in sorted(set(ref.get(t, {})) | set(got.get(t, {})), key=int):
                r, g = ref.get(t, {}).get(s), got.get(t, {}).get(s)
                n += 1
                key_name = c["VALID_PAYLOADS"].get(t, {}).get(s, {}).get("key_name") or s
                if r is None:
                    # a new row is fine as long as R1 holds; it is not in the reference
                    res.add("C03-R3", f"{ver}: payload rule {t}/{key_name}", True, mod, f"row not in the reference table (new sub-type): {descr.show(g)}")
                    continue
                res.add("C03-R3", f"{ver}: payload rule {t}/{key_name}", r == g, mod, descr.show(g) if r == g else f"rule is {descr.show(g)}, the serial API (reference table) says {descr.show(r)}")
        gs = {s: descr.norm(row["d"]) for s, row in c.get("VALID_SETREQ", {}).items()}
        for s, r in spec["setreq"].get(ver, {}).items():
            g = gs.get(s)
            n += 1
            name = c["VALID_SETREQ"].get(s, {}).get("key_name") or s
            res.add("C03-R3", f"{ver}: child value rule {name}", r == g, mod, descr.show(g) if r == g else f"rule is {descr.show(g)}, reference says {descr.show(r)}")
        gt = {p: sorted(m[2] for m in row["v"]) for p, row in c.get("VALID_TYPES", {}).items()}
        for pval, r in spec["types"].get(ver, {}).items():
            g = gt.get(pval)
            n += 1
            name = c["VALID_TYPES"].get(pval, {}).get("key_name") or pval
            res.add("C03-R3", f"{ver}: value types of presentation type {name}", r == g, mod, f"{g}" if r == g else f"value types {g}, reference says {r}")
        for e, vals in spec["enums"].get(ver, {}).items():
            g = sorted({v for _n, v in c["enums"].get(e, {}).get("members", [])})
            missing = sorted(set(vals) - set(g))
            n += 1
            res.add("C03-R3", f"{ver}: defined values of {e}", not missing, mod, f"{len(g)} values" if not missing else f"values {missing} of the serial API are not defined")
    res.extra["reference_rows_compared"] = n


# ----------------------------------------------------------------------------------- R3b
def _func(analysis, qual):
    return analysis.p.func(qual)


def _raises_invalid(node) -> bool:
    for n in ast.walk(node):
        if isinstance(n, ast.Raise) and n.exc is not None and "Invalid" in unparse(n.exc):
            return True
    return False


def validator_worker(analysis: Analysis, qual: str) -> dict:
    """All abstract paths of a function validator applied to a symbolic string."""
    ctx = analysis.context(analysis.versions[-1], "serial", "sync")
    it = analysis.new_interp(ctx)
    st = it.new_state()
    value = Sym(("root", "value"), "str")
    outs = analysis.run_root(it, qual, [value], None, st)
    lenkey = ("u", f"len({value.key()!r})")
    rows = []
    for out in outs:
        kind, s, v = out
        len_eq = None
        for f in s.facts:
            if f[0] == "atom" and f[1][0] == "cmp" and f[1][2] == lenkey and f[1][3][0] == "c":
                op, n, truth = f[1][1], f[1][3][2], f[2]
                if (op == "NotEq" and not truth) or (op == "Eq" and truth):
                    len_eq = n
            if f[0] == "atom" and f[1][0] == "eq" and lenkey in (f[1][1], f[1][2]) and f[2] is True:
                other = f[1][2] if f[1][1] == lenkey else f[1][1]
                if other[0] == "c":
                    len_eq = other[2]
        unhex = [e for e in s.events if e.kind == "call" and e.name == "binascii.unhexlify" and e.args and e.args[0].key() == value.key()]
        splits = [e for e in s.events if e.kind == "call" and e.name == "str.split" and isinstance(e.recv, V) and e.recv.key() == value.key() and e.args and isinstance(e.args[0], Const)]
        floats = 0
        for e in s.events:
            if e.kind == "call" and e.name == "vol.validate" and isinstance(e.recv, ExtObj) and e.recv.cls == "vol.Coerce" and e.recv.args and isinstance(e.recv.args[0], ExtV) and e.recv.args[0].name == "builtins.float":
                if e.args and "unpack" in getattr(e.args[0], "label", ""):
                    floats += 1
        rows.append({"kind": kind, "exc": v.cls.__name__ if kind == "raise" else None, "exc_mod": v.cls.__module__ if kind == "raise" else None, "what": v.what if kind == "raise" else None, "ret_is_value": kind == "val" and isinstance(v, V) and v.key() == value.key(), "len_eq": len_eq, "unhex": len(unhex), "split_sep": splits[0].args[0].value if splits else None, "floats": floats, "unpacked": max([0] + [int(getattr(e.args[0], "label", "unpack-1:")[6]) + 1 for e in s.events if e.kind == "call" and e.name == "vol.validate" and e.args and getattr(e.args[0], "label", "").startswith("unpack")]), "witness": describe_path(out)})
    return {"qual": qual, "rows": rows}


def validator_bodies(analysis: Analysis, res: RuleResult) -> None:
    """R3b: the named function validators, judged on all their abstract paths (robust to helper extraction)."""
    quals = ["const_15:validate_hex", "const_15:validate_v_rgb", "const_15:validate_v_rgbw", "const_20:validate_gps"]
    sums = {s["qual"]: s for s in common.pmap(analysis, validator_worker, quals)}
    for qual, length in (("const_15:validate_hex", None), ("const_15:validate_v_rgb", 6), ("const_15:validate_v_rgbw", 8)):
        info = analysis.p.func(qual)
        w = common.where(analysis, info, info.node)
        rows = sums[qual]["rows"]
        acc = [r for r in rows if r["kind"] == "val"]
        if not acc:
            res.add("C03-R3b", f"{qual}: accepts well-formed values", False, w, "no accepting path")
            continue
        ok_hex = all(r["unhex"] >= 1 and r["ret_is_value"] for r in acc)
        res.add("C03-R3b", f"{qual}: a value is accepted only after binascii.unhexlify(value) succeeded, and returned unchanged", ok_hex, w, "hex check on every accepting path" if ok_hex else "some accepting path does not run the hex check on the value", next((r["witness"] for r in acc if not (r["unhex"] >= 1 and r["ret_is_value"])), None))
        if length is not None:
            ok_len = all(r["len_eq"] == length for r in acc)
            res.add("C03-R3b", f"{qual}: rejects every length other than {length}", ok_len, w, f"every accepting path has len(value) == {length}" if ok_len else f"accepting path with length facts {[r['len_eq'] for r in acc]}", next((r["witness"] for r in acc if r["len_eq"] != length), None))
        bad = [r for r in rows if r["kind"] == "raise" and r["exc"] not in ("Invalid", "MultipleInvalid")]
        res.add("C03-R3b", f"{qual}: failures become vol.Invalid", not bad, w, "" if not bad else f"{bad[0]['exc']}: {bad[0]['what']}", bad[0]["witness"] if bad else None)
    qual = "const_20:validate_gps"
    info = analysis.p.func(qual)
    w = common.where(analysis, info, info.node)
    rows = sums[qual]["rows"]
    acc = [r for r in rows if r["kind"] == "val"]
    ok = bool(acc) and all(r["split_sep"] == "," and r["floats"] == 3 and r["ret_is_value"] for r in acc)
    res.add("C03-R3b", f"{qual}: exactly three comma separated fields, each checked as float", ok, w, "split(',') into three, three Coerce(float) checks on every accepting path" if ok else f"accepting paths: {[(r['split_sep'], r['floats']) for r in acc]}", next((r["witness"] for r in acc if not (r["split_sep"] == "," and r["floats"] == 3)), None))
    bad = [r for r in rows if r["kind"] == "raise" and r["exc"] not in ("Invalid", "MultipleInvalid")]
    res.add("C03-R3b", f"{qual}: wrong field count / non-float become vol.Invalid", not bad, w, "" if not bad else f"{bad[0]['exc']}: {bad[0]['what']}", bad[0]["witness"] if bad else None)
    is_version_floor(analysis, res, "C03-R3b")


def is_version_floor(analysis: Analysis, res: RuleResult, rule: str) -> None:
    """is_version rejects what sorts below 1.4 - and what AwesomeVersion cannot compare - by the raw
    AwesomeVersion comparison `AwesomeVersion("1.4") > AwesomeVersion(value)` (shared by C03-R3b and C18-R3)."""
    info = _func(analysis, "validation:is_version")
    floor = None
    for n in ast.walk(info.node):
        if isinstance(n, ast.If) and isinstance(n.test, ast.Compare) and len(n.test.ops) == 1:
            def av_const(e):
                """`AwesomeVersion("1.4")` or `AwesomeVersion(NAME)` with NAME a module-level string constant."""
                if isinstance(e, ast.Call) and unparse(e.func).split(".")[-1] == "AwesomeVersion" and len(e.args) == 1:
                    a = e.args[0]
                    if isinstance(a, ast.Name) and isinstance(info.module.assigns.get(a.id), ast.Constant):
                        a = info.module.assigns[a.id]
                    if isinstance(a, ast.Constant) and isinstance(a.value, str):
                        return a.value
                return None

            def av_value(e):
                return isinstance(e, ast.Call) and unparse(e.func).split(".")[-1] == "AwesomeVersion" and len(e.args) == 1 and av_const(e) is None

            le, re_ = n.test.left, n.test.comparators[0]
            op = type(n.test.ops[0]).__name__
            raises = any(isinstance(x, ast.Raise) for x in ast.walk(n))
            for const_side, val_side, ops in ((le, re_, ("Gt",)), (re_, le, ("Lt",))):
                if av_const(const_side) is not None and av_value(val_side) and op in ops and raises:
                    floor = av_const(const_side)
    res.add(rule, "validation:is_version: rejects versions below 1.4", floor == "1.4", common.where(analysis, info, info.node), f"lower bound {floor!r}")


# ------------------------------------------------------------------------------------ R4
def _to_desc(v) -> dict:
    if isinstance(v, ExtObj):
        if v.cls == "refl.validator":
            return ast.literal_eval(v.args[0].value)
        if v.cls == "vol.validator" and getattr(v, "built", None) is not None:
            return _to_desc(v.built)  # a module-level validator object: described by how it was built
        short = v.cls.split(".", 1)[1] if v.cls.startswith("vol.") else v.cls
        if short in ("All", "Any"):
            return {"k": short, "v": [_to_desc(a) for a in v.args]}
        if short == "Coerce":
            a = v.args[0] if v.args else None
            name = a.name.split(".")[-1] if isinstance(a, ExtV) else "?"
            return {"k": "Coerce", "type": name}
        if short == "Range":
            def num(x):
                if isinstance(x, Const):
                    return x.value
                if isinstance(x, EnumMemV):
                    return "?"
                return "?"
            return {"k": "Range", "min": num(v.kwargs.get("min", v.args[0] if v.args else Const(None))), "max": num(v.kwargs.get("max", v.args[1] if len(v.args) > 1 else Const(None))), "min_included": True, "max_included": True}
        if short == "In":
            c = v.args[0] if v.args else None
            items = None
            if isinstance(c, (ListV, TupleV)) and getattr(c, "items", None) is not None:
                items = []
                for i in c.items:
                    if isinstance(i, Const):
                        items.append({"k": "const", "v": i.value})
                    elif isinstance(i, EnumMemV) and len(i.names) == 1:
                        items.append({"k": "enumref", "v": (i.enum, i.version, i.names[0])})
                    else:
                        items = None
                        break
            return {"k": "In", "items": items}
        return {"k": "other", "cls": v.cls}
    if isinstance(v, Const):
        return {"k": "lit", "v": v.value, "t": type(v.value).__name__}
    if isinstance(v, ExtV) and v.name.startswith("builtins."):
        return {"k": "type", "name": v.name[9:]}
    return {"k": "other", "cls": repr(v.key())[:60]}


def accepts_int(n, x: int) -> Optional[bool]:
    """Does normal form n accept the integer x (header fields are ints after decode)?"""
    k = n[0]
    if k == "INT":
        return True
    if k == "INT_RANGE":
        lo, hi = n[1], n[2]
        return (lo is None or x >= lo) and (hi is None or x <= hi)
    if k == "RANGE":
        lo, hi = n[1], n[2]
        return (lo is None or (x >= lo if n[3] else x > lo)) and (hi is None or (x <= hi if n[4] else x < hi))
    if k == "IN":
        return n[1] != "?" and x in n[1]
    if k == "ALL":
        r = [accepts_int(m, x) for m in n[1]]
        return None if None in r else all(r)
    if k == "ANY":
        r = [accepts_int(m, x) for m in n[1]]
        return None if None in r else any(r)
    if k in ("LIT",):
        return n[1] == x
    return None


def header_worker(analysis: Analysis, ver: str) -> List[dict]:
    refl = analysis.refl
    c = refl["consts"][ver]
    ctx = analysis.context(ver, "serial", "sync")
    out = []
    mt = {n: v for n, v in c["enums"]["MessageType"]["canonical"]}
    internal, stream, pres = mt.get("internal"), mt.get("stream"), mt.get("presentation")
    idreq = {v for n, v in c["enums"]["Internal"]["members"] if n in ("I_ID_REQUEST", "I_ID_RESPONSE")}
    other_internal = next(v for _n, v in c["enums"]["Internal"]["canonical"] if v not in idreq)
    info = analysis.p.func("message:Message.validate")
    domain = list(range(-2, 301))
    defined_types = sorted(mt.values())
    for t in defined_types + [max(defined_types) + 1]:
        # the id-exchange sub-type numbers are tried under every command: they are exempt for `internal` only
        subs = sorted(set(idreq) | {0, other_internal}) + [9999]
        for sub in subs:
            for child in (255, 0, 7):
                it = analysis.new_interp(ctx)
                it.table_values = True
                it.opaque_handlers["const:get_const"] = lambda _it, st, _info, args, kwargs, node, _v=ver: [("val", st, ModV("const:" + _v))]
                st = it.new_state()
                m = Sym(("root", "M"), ("cls", "message:Message"))
                for name, val in (("node_id", 0), ("child_id", child), ("type", t), ("ack", 0), ("sub_type", sub), ("payload", ""), ("gateway", None)):
                    st.mem[(m.key(), "a", name)] = Const(val)
                outs = analysis.run_root(it, info.qual, [Const(ver)], m, st)
                attrs = None
                case = f"type={t} sub_type={sub} child_id={child}"
                # a verdict taken from a schema cached in module-level state is judged through the cache key (R4m)
                for kind, s, v in outs:
                    built = False
                    for e in s.events:
                        if e.kind == "call" and e.name == "vol.validate":
                            built = True
                        if e.kind == "setitem" and isinstance(e.recv, V) and e.recv.key()[0] == "global" and len(e.args) == 2:
                            out.append({"memo": "store", "glob": ":".join(e.recv.key()[1:]), "key": repr(e.args[0].key()), "case": case, "schema": e.args[1]})
                    if not built:
                        hit = [e for e in s.events if e.kind == "call" and e.name.startswith("?") and isinstance(e.recv, V) and "'global'" in repr(e.recv.key())]
                        out.append({"memo": "hit" if hit else "none", "glob": repr(hit[0].recv.key()) if hit else "", "case": case, "where": f"{hit[0].func}:{hit[0].line}" if hit else info.qual})
                for kind, s, v in outs:
                    for e in s.events:
                        if e.kind == "call" and e.name == "vol.validate":
                            stack = [e.recv]
                            while stack and attrs is None:
                                x = stack.pop()
                                if isinstance(x, DictV) and "node_id" in x.entries:
                                    attrs = x
                                elif isinstance(x, ExtObj):
                                    stack.extend(x.args)
                                    stack.extend(x.kwargs.values())
                escapes = sorted({f"{v.cls.__name__} at {v.site}: {v.what}" for kind, s, v in outs if kind == "raise" and not issubclass(v.cls, VOL_INVALID)})
                if escapes:
                    out.append({"case": case, "field": "*", "ok": False, "detail": f"Message.validate raises {escapes[0][:140]} for this header instead of rejecting it with vol.Invalid: the caller only handles vol.Invalid"})
                    if attrs is None:
                        continue
                if attrs is None:
                    out.append({"case": case, "field": "*", "ok": None, "detail": "schema(self) call with an attribute dict not found in Message.validate"})
                    continue
                forms = {}
                for name in ("node_id", "child_id", "type", "ack", "sub_type", "payload"):
                    if name not in attrs.entries:
                        forms[name] = None
                        continue
                    d = _to_desc(attrs.entries[name])
                    # enum references -> values
                    def fix(x):
                        if isinstance(x, dict):
                            if x.get("k") == "In" and x.get("items"):
                                x = dict(x)
                                x["items"] = [{"k": "const", "v": (it.enum_value(*i["v"]) if i["k"] == "enumref" else i["v"])} for i in x["items"]]
                            if "v" in x and isinstance(x["v"], list):
                                x = dict(x)
                                x["v"] = [fix(y) for y in x["v"]]
                        return x
                    forms[name] = descr.norm(fix(d))
                for r in out:
                    if r.get("memo") == "store" and r["case"] == case and "schema" in r:
                        r.pop("schema")
                        r["forms"] = repr(sorted((k, repr(v)) for k, v in forms.items()))
                # expected acceptance sets from the statement
                if t == internal and sub in idreq:
                    child_ok = set(domain)
                elif t in (internal, stream):
                    child_ok = {255}
                else:
                    child_ok = set(range(0, 256))
                type_ok = {pres, internal, stream} if child == 255 else set(defined_types)
                enum = TYPE_ENUM.get(next((n for n, v in mt.items() if v == t), ""), None)
                sub_ok = {v for _n, v in c["enums"][enum]["members"]} if enum else set()
                expect = {"node_id": set(range(0, 256)), "child_id": child_ok, "type": type_ok, "ack": {0, 1}, "sub_type": sub_ok}
                for fld, want in expect.items():
                    form = forms.get(fld)
                    if form is None:
                        out.append({"case": case, "field": fld, "ok": False, "detail": f"no validator for {fld} in the schema"})
                        continue
                    dom = domain + ([sub, 9999] if fld == "sub_type" else [])
                    acc = set()
                    unknown = False
                    for x in dom:
                        r = accepts_int(form, x)
                        if r is None:
                            unknown = True
                            break
                        if r:
                            acc.add(x)
                    if unknown:
                        out.append({"case": case, "field": fld, "ok": None, "detail": f"validator {descr.show(form)} is not in the integer descriptor algebra"})
                        continue
                    wantd = {x for x in want if x in dom}
                    ok = acc == wantd
                    detail = f"accepts exactly {_fmt(acc)}" if ok else f"accepts {_fmt(acc)}, the serial API says {_fmt(wantd)} (validator {descr.show(form)})"
                    out.append({"case": case, "field": fld, "ok": ok, "detail": detail})
                # payload rule selected from the table row of (type, sub_type)
                row = c.get("VALID_PAYLOADS", {}).get(str(t), {}).get(str(sub))
                want_p = descr.norm(row["d"]) if row else ["EMPTY"]
                okp = forms.get("payload") == want_p
                out.append({"case": case, "field": "payload", "ok": okp, "detail": f"payload rule {descr.show(forms.get('payload'))}" + ("" if okp else f", table row says {descr.show(want_p)}")})
    return out


def _fmt(s) -> str:
    xs = sorted(s)
    if not xs:
        return "{}"
    runs, start, prev = [], xs[0], xs[0]
    for x in xs[1:]:
        if x != prev + 1:
            runs.append((start, prev))
            start = x
        prev = x
    runs.append((start, prev))
    return "{" + ",".join(str(a) if a == b else f"{a}..{b}" for a, b in runs[:6]) + ("..." if len(runs) > 6 else "") + "}"


def header_rules(analysis: Analysis, res: RuleResult) -> None:
    versions = sorted(analysis.refl["consts"], key=vkey)
    results = common.pmap(analysis, header_worker, versions)
    n = 0
    memo: Dict[tuple, Dict[str, list]] = {}
    hits = []
    for ver, rows in zip(versions, results):
        for r in rows:
            if "memo" in r:
                if r["memo"] == "store":
                    memo.setdefault((r["glob"], r["key"]), {}).setdefault(r.get("forms", "?"), []).append(f"{ver}: {r['case']}")
                elif r["memo"] == "hit":
                    hits.append((ver, r))
                else:
                    res.add("C03-R4", f"{ver}: every path of Message.validate applies a schema when {r['case']}", False, "mysensors/message.py", f"a path through {r['where']} returns without applying a schema built from the message")
                continue
            n += 1
            if r["ok"] is None:
                raise AnalysisError(f"C03-R4 {ver} {r['case']} {r['field']}: {r['detail']}")
            res.add("C03-R4", f"{ver}: {r['field']} rule when {r['case']}", r["ok"], "mysensors/message.py", r["detail"])
    res.extra["header_cases"] = n
    if memo or hits:
        # R4m: a memoised schema is the right one only if the cache key determines it
        for (glob, key), forms in sorted(memo.items()):
            ok = len(forms) == 1
            cases = [c[0] for c in forms.values()]
            res.add("C03-R4m", f"cache {glob} key {key} determines the schema", ok, "mysensors/message.py", f"{sum(len(c) for c in forms.values())} cases build the same schema" if ok else f"the same cache key is filled with different schemas by `{cases[0]}` and `{cases[1]}`: whichever line comes first decides the verdict of the other")
        if hits and not memo:
            ver, r = hits[0]
            res.add("C03-R4m", f"{ver}: cached schema used when {r['case']}", False, "mysensors/message.py", f"{r['where']} applies a schema taken from module-level state {r['glob']} that no analysed path of Message.validate fills")


# ------------------------------------------------------------------------------------ R5
def validators_total(analysis: Analysis, res: RuleResult) -> None:
    ctx = analysis.context(analysis.versions[-1], "serial", "sync")
    for qual in ("validation:is_version", "const_15:validate_hex", "const_15:validate_v_rgb", "const_15:validate_v_rgbw", "const_20:validate_gps", "validation:safe_is_version", "validation:is_battery_level", "validation:is_heartbeat"):
        info = analysis.p.func(qual)
        it = analysis.new_interp(ctx)
        st = it.new_state()
        outs = analysis.run_root(it, qual, [Sym(("root", "value"), "str")], None, st)
        allowed = (VOL_INVALID, ValueError) if not qual.startswith("validation:safe") and "battery" not in qual and "heartbeat" not in qual else ()
        bad = [o for o in outs if o[0] == "raise" and not (allowed and issubclass(o[2].cls, allowed))]
        res.add("C03-R5", f"{qual}: total up to vol.Invalid" if allowed else f"{qual}: total (falls back, never raises)", not bad, common.where(analysis, info, info.node), f"{len(outs)} paths" if not bad else f"{bad[0][2].cls.__name__} can escape: {bad[0][2].what}", describe_path(bad[0]) if bad else None)


# ------------------------------------------------------------------------------------ R6
def interface(analysis: Analysis, res: RuleResult) -> None:
    refl = analysis.refl
    used = set(CONST_NAMES)
    # names read from expressions that denote a const module
    for mod in common.core_modules(analysis):
        for n in ast.walk(mod.tree):
            if isinstance(n, ast.Attribute):
                base = unparse(n.value)
                if base.endswith(".const") or base.endswith("._const") or base == "const":
                    if n.attr[0].isupper() or n.attr == "get_handler_registry":
                        used.add(n.attr)
    for ver in sorted(refl["consts"], key=vkey):
        c = refl["consts"][ver]
        names = set(c.get("names", []))
        for name in sorted(used):
            res.add("C03-R6", f"{ver}: const module defines {name}", name in names, c["module"], "" if name in names else f"{c['module']} has no attribute {name}, read by the package")
        reg = c.get("registry")
        res.add("C03-R6", f"{ver}: handler registry resolved", bool(reg), c["module"], f"{c.get('registry_name')} with {len(reg or {})} handlers")
        if reg:
            mt = [n for n, _v in c["enums"]["MessageType"]["canonical"]]
            missing = [n for n in mt if n not in reg]
            res.add("C03-R6", f"{ver}: a handler for each command", not missing, c["module"], "" if not missing else f"no handler registered for {missing}")
            unknown = [k for k in reg if not any(k in [n for n, _ in c["enums"][e]["members"]] for e in ENUMS)]
            res.add("C03-R6", f"{ver}: every registry key names a defined member", not unknown, c["module"], "" if not unknown else f"registry keys {unknown} name no member of this version: the handlers are unreachable")


TABLE_MUTATORS = {"append", "extend", "insert", "pop", "remove", "clear", "update", "setdefault", "sort", "reverse", "popitem", "add", "discard", "__setitem__", "__delitem__"}


def tables_not_mutated(analysis: Analysis, res, rule: str) -> None:
    """The reflected per-version tables are what the package uses at run time only if no function changes them
    after import. Def-use inside every function: a value reached from a const module's upper-case attribute by
    subscripting / `.get` (or a local bound to one) must not be the receiver of a mutating method, the base of
    an item store / delete, or the target of `+=` (a list `+=` extends in place). Copies (`list(...)`, `dict(...)`,
    comprehensions, `+`) are fresh objects."""
    n_reads = 0
    for info in analysis.p.funcs.values():
        if info.module.name.startswith("cli"):
            continue
        fn = info.node
        if isinstance(fn, ast.Lambda):
            continue
        tainted = set()

        def const_base(e) -> bool:
            t = unparse(e)
            return t == "const" or t.endswith(".const") or t.endswith("_const") or t.startswith("get_const(")

        def is_table(e) -> bool:
            if isinstance(e, ast.Attribute) and e.attr.isupper() and const_base(e.value):
                return True
            if isinstance(e, ast.Subscript):
                return is_table(e.value)
            if isinstance(e, ast.Call) and isinstance(e.func, ast.Attribute) and e.func.attr == "get":
                return is_table(e.func.value)
            return isinstance(e, ast.Name) and e.id in tainted

        for _round in range(3):
            for n in ast.walk(fn):
                if isinstance(n, ast.Assign) and len(n.targets) == 1 and isinstance(n.targets[0], ast.Name) and is_table(n.value):
                    tainted.add(n.targets[0].id)
        for n in ast.walk(fn):
            if isinstance(n, ast.Attribute) and n.attr.isupper() and const_base(n.value):
                n_reads += 1
            bad = None
            if isinstance(n, ast.Call) and isinstance(n.func, ast.Attribute) and n.func.attr in TABLE_MUTATORS and is_table(n.func.value):
                bad = unparse(n)[:70]
            elif isinstance(n, (ast.Assign, ast.AugAssign, ast.Delete)):
                tgts = n.targets if isinstance(n, (ast.Assign, ast.Delete)) else [n.target]
                for t in tgts:
                    if isinstance(t, ast.Subscript) and is_table(t.value):
                        bad = unparse(n)[:70]
                    if isinstance(n, ast.AugAssign) and is_table(t):
                        bad = unparse(n)[:70]
            if bad:
                res.add(rule, f"{info.qual} / {bad}", False, common.where(analysis, info, n), "a per-version table (or a list / dict taken from it) is changed at run time: later validations - also those of other protocol versions sharing the object - use a different table than the reviewed one")
    if n_reads < 4:
        raise AnalysisError(f"{rule}: only {n_reads} reads of const tables found in functions (anchor vanished)")
    res.add(rule, "no function mutates a per-version table or an object taken from it", True, "mysensors/", f"{n_reads} table reads in functions, none flows into a mutating operation")


def run(analysis: Analysis, tier: str) -> RuleResult:
    res = RuleResult(PROP)
    res.explanation = [
        "Exhaustive table rules over the reflected per-version const modules:",
        "R1 every command has its sub-type list, every defined sub-type a payload rule, every presentation type a child schema whose value types have rules;",
        "R2 defined values only grow with the version; R3 every payload / child-value rule, normalised to an acceptance normal form, equals the reviewed reference table (sa/spec/c03_payload_rules.json);",
        "R3b body rules of the named function validators; R4 the header validators built by Message.validate, obtained by exact abstract evaluation for every (version, command, sub-type class, child class), accept exactly the integer sets of the statement over -2..300;",
        "R5 function validators raise nothing but vol.Invalid/ValueError; R6 every const module offers the interface the package reads.",
    ]
    totality(analysis, res)
    conformance(analysis, res)
    tables_not_mutated(analysis, res, "C03-R2")
    # "accepted exactly when ...": the decoder must not reject lines of its own accord (shared with C02-R1)
    from .c02 import decode_provenance

    for construct, ok, where_, detail in decode_provenance(analysis, ";"):
        if "rejected only" in construct or "int() only" in construct or "ValueError only" in construct:
            res.add("C03-R7", construct, ok, where_, detail)
    validator_bodies(analysis, res)
    header_rules(analysis, res)
    validators_total(analysis, res)
    interface(analysis, res)
    res.need("C03-R1", 800, "table rows")
    res.need("C03-R3", 800, "reference rows")
    res.need("C03-R4", 300, "header cases")
    res.exhaustive = True
    res.not_decided = ["the language accepted by int()/float() themselves (e.g. 'nan', '1_0')"]
    res.trusted = ["reflection of const tables (import only, no validator invoked)", "sa/spec/c03_payload_rules.json (reviewed reading of the serial API)", "sa/descr.py normal form"]
    res.units = {"versions": analysis.versions, "source_digest": analysis.p.digest()}
    return res
