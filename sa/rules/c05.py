"""C05 - Every reply is the prescribed one, well-formed and correctly addressed (reply construction).

R1 for each dispatched (command, sub-type) the result of the handler on every abstract path has
   one of the shapes the statement prescribes (None / modified copy of the request with exactly
   the prescribed fields replaced / the inbound message itself for presentation, which the router
   drops); everything else is silent.
R2 addressing: replies are copies of the request (node id inherited); the only node_id override
   is the broadcast constant 255 of the discover request; the presentation request of is_sensor
   is addressed to the node that was looked up, child 255, built only for >= 2.0 and only when
   the lookup failed.
R3 validity by construction: the (command, sub-type) of every constructed reply is defined in
   the version, and a constant payload is accepted by that version's payload rule.
R4 every outbound string is Message.encode() of such a message (or a held one) - C07-R1 / C01-INV.
R5 the value carried by a value-request reply is maintained correctly: a reported value clears
   the pending desired value of the same (child, value type), the lookup answers the pending
   desired value before the reported one, and a desired value is stored only after the gateway's
   own command constructor validated it for the configured version (shared with C08-R3/R4/R5).
"""
from __future__ import annotations

from typing import Dict, List, Optional

from .. import descr
from ..engine import Analysis
from ..frontend import AnalysisError
from ..report import RuleResult
from . import common, pathsum
from .c14 import specs_for

PROP = "C05"


def vnum(v: str):
    return tuple(int(x) for x in v.split("."))


def accepts_str(n, s: str) -> Optional[bool]:
    k = n[0]
    if k == "ANY_STR":
        return True
    if k == "EMPTY":
        return s == ""
    if k == "LIT":
        return s == n[1]
    if k == "IN":
        return s in n[1] if n[1] != "?" else None
    if k == "INT":
        try:
            int(s)
            return True
        except ValueError:
            return False
    if k in ("INT_RANGE", "FLOAT_RANGE"):
        try:
            x = int(s) if k == "INT_RANGE" else float(s)
        except ValueError:
            return False
        return (n[1] is None or x >= n[1]) and (n[2] is None or x <= n[2])
    if k == "ANY":
        r = [accepts_str(m, s) for m in n[1]]
        return True if True in r else (None if None in r else False)
    return None


def shape_ok(rec, version: str, refl) -> Optional[str]:
    """None if the handler result on this path is prescribed, else a description of the deviation."""
    t, sub = rec["type"], rec["sub"]
    hr = rec["handler_ret"]
    kind = hr["kind"]
    over = hr.get("overrides", {})
    new = vnum(version) >= (2, 0)

    def is_copy(expected: Dict[str, object]) -> Optional[str]:
        if kind != "copy" or hr.get("copy_of") != "inbound":
            return f"reply is {kind} (copy of {hr.get('copy_of')}), expected a modified copy of the request"
        if set(over) != set(expected):
            return f"replaces fields {sorted(over)}, the protocol prescribes {sorted(expected)}"
        for fld, want in expected.items():
            got = over[fld]
            if callable(want):
                if not want(got):
                    return f"field {fld} = {got}"
            elif got != want:
                return f"field {fld} = {got}, prescribed {want}"
        return None

    if kind == "none":
        return None
    if t == "presentation":
        return None if kind == "inbound" else f"presentation handler returns {kind}"
    if t == "req":
        return is_copy({"type": "enum:MessageType.set", "payload": lambda g: g.startswith("sym:GW.sensors[*].children[*].values") or ("new_state" in g and "values" in g)})
    if t == "set":
        err = is_copy({"child_id": "const:255", "type": "enum:MessageType.internal", "ack": "const:0", "sub_type": "enum:Internal.I_REBOOT", "payload": "const:''"})
        if err:
            return err
        if "truthy:GW.sensors[*].reboot" not in rec["final_facts"]:
            return "a reboot request is sent although the node's reboot flag is not known to be set on this path"
        return None
    if t == "internal":
        if sub == "I_CONFIG":
            metric = "truthy:GW.metric" in rec["final_facts"]
            imperial = "falsy:GW.metric" in rec["final_facts"]
            return is_copy({"ack": "const:0", "payload": lambda g: (g == "const:'M'" and metric) or (g == "const:'I'" and imperial)})
        if sub == "I_TIME":
            return is_copy({"ack": "const:0", "payload": lambda g: g.startswith("val:('u', 'timegm")})
        if sub == "I_ID_REQUEST":
            ins = [m for m in rec["muts"] if m["cat"] == "node-insert"]
            key = ins[0]["key"] if ins else None
            return is_copy({"ack": "const:0", "sub_type": "enum:Internal.I_ID_RESPONSE", "payload": lambda g: key is not None and g == key})
        if sub == "I_GATEWAY_READY":
            if not new:
                return f"gateway-ready is answered ({kind}) before version 2.0"
            return is_copy({"node_id": "const:255", "ack": "const:0", "sub_type": lambda g: g in ("enum:Internal.I_DISCOVER", "enum:Internal.I_DISCOVER_REQUEST"), "payload": "const:''"})
        return f"internal/{sub} is answered with a {kind} reply; the protocol prescribes silence"
    if t == "stream":
        if sub == "ST_FIRMWARE_CONFIG_REQUEST":
            return is_copy({"sub_type": "enum:Stream.ST_FIRMWARE_CONFIG_RESPONSE", "payload": lambda g: True})
        if sub == "ST_FIRMWARE_REQUEST":
            return is_copy({"sub_type": "enum:Stream.ST_FIRMWARE_RESPONSE", "payload": lambda g: True})
        return f"stream/{sub} is answered; the protocol prescribes silence"
    return f"unexpected reply {kind} for {t}/{sub}"


def worker(analysis: Analysis, spec) -> dict:
    recs = pathsum.logic_records(analysis, spec)
    version = spec[0]
    refl = analysis.refl
    c = refl["consts"][version]
    rows = []
    pres_req = []
    for r in recs:
        if r["kind"] == "raise" and r["witness"] and ("Gateway.is_sensor" in r["witness"][-1] or "_request_presentation" in r["witness"][-1]) and "I_PRESENTATION" in r["witness"][-1]:
            pres_req.append({"facts": [], "job": "I_PRESENTATION (undefined in this version)", "handler": "?", "fields": None, "n_lookups": 1, "n_reqs": 1, "witness": r["witness"], "undefined": True})
        if r["kind"] != "val":
            continue
        if not r["validated"]:
            continue
        handler = r["handlers"][-1] if r["handlers"] else "?"
        top = r["handlers"][0] if r["handlers"] else "?"
        err = shape_ok(r, version, refl)
        rows.append({"handler": handler, "top": top, "type": r["type"], "sub": r["sub"], "err": err, "replies": r["handler_ret"]["kind"] != "none", "ret_none": r.get("ret_none"), "kind": r["handler_ret"]["kind"], "over": r["handler_ret"].get("overrides", {}), "witness": r["witness"] if err else None, "facts_metric": None})
        # is_sensor presentation requests: add_job sinks from is_sensor
        n_lookups = sum(1 for c in r["calls"] if c == "__init__:Gateway.is_sensor")
        reqs = [s for s in r["sinks"] if s["kind"] == "add_job" and "__init__:Gateway.is_sensor" in s["stack"]]
        for s in reqs:
            pres_req.append({"facts": s["facts"], "job": s["job"], "handler": handler, "fields": s.get("fields"), "n_lookups": n_lookups, "n_reqs": len(reqs), "witness": r["witness"]})
        # reboot reply only under the reboot flag; config M/I by metric: checked on facts
    return {"ctx": "/".join(spec), "version": version, "rows": rows, "pres_req": pres_req, "n": len(recs)}


def run(analysis: Analysis, tier: str) -> RuleResult:
    res = RuleResult(PROP)
    res.explanation = [
        "Reply construction decided on every abstract path of Gateway.logic per version / family / flavour: R1 the handler result for each dispatched (command, sub-type) has the prescribed shape (None, or a copy of the request with exactly the prescribed fields replaced by the prescribed values: set+value for req, M/I for config, timegm for time, id response carrying the id reserved on this very path, broadcast discover for gateway-ready >= 2.0, reboot under the reboot flag, firmware responses), all other inputs are silent;",
        "R2 addressing (copies inherit the node id; only override is broadcast 255; the presentation request of is_sensor goes to the looked-up node, child 255, once, >= 2.0 only); R3 the (command, sub-type) of each constructed reply is defined in the version and constant payloads satisfy that version's payload rule.",
        "R5 (shared with C08): the stored / desired values a req reply copies are maintained by confirmation, looked up desired-first, and desired values are validated by the gateway's command constructor before they are stored.",
        "Which value is 'latest' over a history and the clock are not decided.",
    ]
    specs = specs_for(analysis, tier)
    sums = common.pmap(analysis, worker, specs)
    res.contexts = ["/".join(s) for s in specs]
    n_rows = 0
    n_pres_req = 0
    replying = set()
    for s in sums:
        ver = s["version"]
        c = analysis.refl["consts"][ver]
        for r in s["rows"]:
            n_rows += 1
            what = f"{r['type']}/{r['sub']}" if r["sub"] else f"{r['type']}"
            key = f"{r['top']} -> {r['handler']} / reply shape for {what}"
            res.add("C05-R1", key, r["err"] is None, "mysensors/handler.py", f"{r['kind']} {sorted(r['over'])}" if r["err"] is None else r["err"], r["witness"], context=s["ctx"])
            if r["replies"] and r["kind"] == "copy":
                replying.add((r["type"], r["sub"]))
                # R2: node id override only broadcast
                if "node_id" in r["over"]:
                    ok = r["over"]["node_id"] == "const:255" and r["sub"] == "I_GATEWAY_READY"
                    res.add("C05-R2", f"{r['handler']} / node id override is the broadcast id of the discover request", ok, "mysensors/handler.py", f"node_id = {r['over']['node_id']}", context=s["ctx"])
                else:
                    res.add("C05-R2", f"{r['handler']} / reply inherits the request's node id", True, "mysensors/handler.py", "copy of the request, node_id not replaced", context=s["ctx"])
                # R3: reply (type, sub_type) defined and constant payload valid in this version
                tname = r["over"].get("type", f"enum:MessageType.{r['type']}").split(".")[-1]
                subname = r["over"].get("sub_type")
                mt = {n: v for n, v in c["enums"]["MessageType"]["members"]}
                tval = mt.get(tname)
                if subname and subname.startswith("enum:"):
                    enum, member = subname[5:].split(".")
                    sval = {n: v for n, v in c["enums"][enum]["members"]}.get(member)
                    okd = sval is not None
                    res.add("C05-R3", f"{r['handler']} / reply sub-type {member} is defined in {ver}", okd, c["module"], "" if okd else f"{member} is not a member of {enum} in version {ver}", context=s["ctx"])
                    pay = r["over"].get("payload")
                    if okd and pay and pay.startswith("const:"):
                        import ast as _ast

                        pv = _ast.literal_eval(pay[6:])
                        row = c["VALID_PAYLOADS"].get(str(tval), {}).get(str(sval))
                        if row is None:
                            res.add("C05-R3", f"{r['handler']} / constant payload {pv!r} of {member} is valid in {ver}", False, c["module"], "no payload rule for the reply's sub-type", context=s["ctx"])
                        else:
                            acc = accepts_str(descr.norm(row["d"]), str(pv))
                            if acc is None:
                                raise AnalysisError(f"C05-R3: payload rule {descr.norm(row['d'])} not in the string descriptor algebra")
                            res.add("C05-R3", f"{r['handler']} / constant payload {pv!r} of {member} is valid in {ver}", acc, c["module"], f"rule {descr.show(descr.norm(row['d']))}", context=s["ctx"])
        for pr in s["pres_req"]:
            okv = vnum(ver) >= (2, 0)
            res.add("C05-R2", f"{ver}: presentation requests are sent only from version 2.0", okv, "mysensors/__init__.py", f"is_sensor enqueued {pr['job']}", context=s["ctx"])
            n_pres_req += 1
            if pr.get("undefined"):
                continue
            f = pr["fields"] or {}
            okf = f.get("node_id") == "inbound.node_id" and f.get("child_id") == "const:255" and f.get("type") == "enum:MessageType.internal" and f.get("sub_type") == "enum:Internal.I_PRESENTATION" and f.get("payload") == "const:''"
            res.add("C05-R2", "__init__:Gateway.is_sensor / the presentation request is I_PRESENTATION to the node that was looked up, child 255, empty payload", okf, "mysensors/__init__.py", f"fields {f}", pr["witness"] if not okf else None, context=s["ctx"])
            okn = pr["n_reqs"] <= pr["n_lookups"]
            res.add("C05-R2", "__init__:Gateway.is_sensor / one presentation request per failed lookup", okn, "mysensors/__init__.py", f"{pr['n_reqs']} request(s) for {pr['n_lookups']} lookup(s) on the path", pr["witness"] if not okn else None, context=s["ctx"])
            ok1 = pr["n_reqs"] <= 1
            res.add("C05-R2", "Gateway.logic / an inbound message triggers at most one presentation request", ok1, "mysensors/__init__.py", "one request per message" if ok1 else f"{pr['n_reqs']} presentation requests are enqueued for one inbound message (the lookup with its side effect runs more than once)", pr["witness"] if not ok1 else None, context=s["ctx"])
        if vnum(ver) >= (2, 0):
            res.add("C05-R2", f"{ver}: a failed lookup requests a new presentation", bool(s["pres_req"]), "mysensors/__init__.py", "is_sensor enqueues I_PRESENTATION for an unknown node or child", context=s["ctx"])
    # R5: the value a req reply carries is maintained correctly and only validated values are stored
    from . import c08

    c08.confirmation_rule(analysis, res, "C05-R5")
    c08.lookup_rule(analysis, res, "C05-R5", "C05-R5")
    c08.accept_rule(analysis, res, "C05-R5")
    from . import c03

    class _L:
        extra = res.extra

        @staticmethod
        def add(rule, *a, **kw):
            res.add("C05-L:" + rule, *a, **kw)

    c03.header_rules(analysis, _L)
    # a withheld reply is still "the reply the protocol prescribes": nothing may silently drop or reorder it
    c08.queue_access(analysis, res, "C05-R5")
    # "everything else with silence": the echo the presentation handler returns is discarded by the router (C07-R2)
    from . import c07

    c07.presentation_dropped(analysis, res, "C05-R1")
    need = {("req", None), ("set", None), ("internal", "I_CONFIG"), ("internal", "I_TIME"), ("internal", "I_ID_REQUEST"), ("internal", "I_GATEWAY_READY"), ("stream", "ST_FIRMWARE_CONFIG_REQUEST"), ("stream", "ST_FIRMWARE_REQUEST")}
    missing = need - replying
    for t, sub in sorted(missing, key=str):
        res.add("C05-R1", f"a reply is constructed for {t}/{sub}", False, "mysensors/handler.py", "no abstract path answers this request although the protocol prescribes a reply")
    for t, sub in sorted(need - missing, key=str):
        res.add("C05-R1", f"a reply is constructed for {t}/{sub}", True, "mysensors/handler.py", "some path answers the request")
    if n_rows < 300:
        raise AnalysisError(f"C05-R1: only {n_rows} validated paths examined")
    res.units = {"contexts": len(specs), "validated_paths": n_rows, "replying_kinds": sorted(f"{t}/{s}" for t, s in replying), "source_digest": analysis.p.digest()}
    res.not_decided = ["which value is latest as a function of the history", "the clock"]
    res.trusted = ["sa/descr.py", "reflection of payload rules"]
    return res
