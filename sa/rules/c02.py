"""C02 - Wire codec: structural agreement of encoder, decoder, constructor and copy().

Only the layout clause is decided (a necessary condition of the round trip): value-level
round-trip equality over all integer spellings and Unicode payloads is not a static fact.
"""
from __future__ import annotations

import ast
from typing import List, Optional, Tuple

from ..engine import Analysis
from ..frontend import AnalysisError, unparse
from ..report import RuleResult
from . import common

PROP = "C02"
FIELDS = ["node_id", "child_id", "type", "ack", "sub_type", "payload"]


def _strip(expr: ast.expr, selfname: str, env=None, _depth: int = 0) -> Optional[Tuple[str, List[str]]]:
    """`int(self.x)` / `str(self.x)` / `self.x` -> ("x", [wrappers])."""
    wrappers = []
    while isinstance(expr, ast.Call):
        if isinstance(expr.func, ast.Attribute) and not (isinstance(expr.func.value, ast.Name) and expr.func.value.id in ("vol", "builtins")) and _strip(expr.func.value, selfname, env, _depth + 1 if _depth else 1) is not None and _depth < 3:
            # a method applied to the (wrapped) field: `str(self.payload).translate(T)`, `.strip()` - a transformation
            wrappers.append("method:" + expr.func.attr)
            expr = expr.func.value
            continue
        if isinstance(expr.func, (ast.Name, ast.Attribute)) and len(expr.args) == 1 and not expr.keywords:
            wrappers.append(unparse(expr.func))
            expr = expr.args[0]
            continue
        break
    if isinstance(expr, ast.Attribute) and isinstance(expr.value, ast.Name) and expr.value.id == selfname:
        return expr.attr, wrappers
    if isinstance(expr, ast.Name) and env is not None and expr.id in env and _depth < 3:
        # a local bound once to a (wrapped) field: `payload = str(self.payload)`
        inner = _strip(env[expr.id], selfname, env, _depth + 1)
        if inner is not None:
            return inner[0], wrappers + inner[1]
    return None


def _seq_fields(node: ast.expr, selfname: str, env) -> Optional[List[Tuple[str, List[str]]]]:
    """Field list of a list/tuple literal, or of a comprehension mapping str()/identity over one."""
    if isinstance(node, ast.Name) and node.id in env:
        return _seq_fields(env[node.id], selfname, env)
    if isinstance(node, ast.Call) and isinstance(node.func, ast.Attribute) and isinstance(node.func.value, ast.Name) and node.func.value.id == selfname and not node.args and not node.keywords and env is not None and ("__method__:" + node.func.attr) in env:
        # self._header(): a private method whose only return is a sequence of fields
        return _seq_fields(env["__method__:" + node.func.attr], selfname, env)
    if isinstance(node, (ast.List, ast.Tuple)):
        out = []
        for e in node.elts:
            if isinstance(e, ast.Starred):
                inner = _seq_fields(e.value, selfname, env)
                if inner is None:
                    return None
                out.extend(inner)
                continue
            f = _strip(e, selfname, env)
            if f is None:
                return None
            out.append(f)
        return out
    if isinstance(node, ast.BinOp) and isinstance(node.op, ast.Add):
        left, right = _seq_fields(node.left, selfname, env), _seq_fields(node.right, selfname, env)
        return None if left is None or right is None else left + right
    if isinstance(node, (ast.ListComp, ast.GeneratorExp)) and len(node.generators) == 1 and not node.generators[0].ifs and isinstance(node.generators[0].target, ast.Name):
        # [wrap(getattr(self, name)) for name in <tuple of constant attribute names>]
        gen = node.generators[0]
        it = gen.iter
        if isinstance(it, ast.Name) and it.id in env:
            it = env[it.id]
        if isinstance(it, (ast.Tuple, ast.List)) and it.elts and all(isinstance(e, ast.Constant) and isinstance(e.value, str) for e in it.elts):
            elt = node.elt
            wr = []
            while isinstance(elt, ast.Call) and isinstance(elt.func, (ast.Name, ast.Attribute)) and len(elt.args) == 1 and not elt.keywords and unparse(elt.func) != "getattr":
                wr.append(unparse(elt.func))
                elt = elt.args[0]
            if isinstance(elt, ast.Call) and unparse(elt.func) == "getattr" and len(elt.args) == 2 and isinstance(elt.args[0], ast.Name) and elt.args[0].id == selfname and isinstance(elt.args[1], ast.Name) and elt.args[1].id == gen.target.id:
                return [(e.value, list(wr)) for e in it.elts]
    if isinstance(node, (ast.ListComp, ast.GeneratorExp)) and len(node.generators) == 1 and not node.generators[0].ifs:
        gen = node.generators[0]
        inner = _seq_fields(gen.iter, selfname, env)
        if inner is None or not isinstance(gen.target, ast.Name):
            return None
        elt = node.elt
        wr = []
        while isinstance(elt, ast.Call) and isinstance(elt.func, (ast.Name, ast.Attribute)) and len(elt.args) == 1 and not elt.keywords:
            wr.append(unparse(elt.func))
            elt = elt.args[0]
        if not (isinstance(elt, ast.Name) and elt.id == gen.target.id):
            return None
        return [(name, w + wr) for name, w in inner]
    if isinstance(node, ast.Call) and isinstance(node.func, ast.Name) and node.func.id == "map" and len(node.args) == 2 and isinstance(node.args[0], ast.Name) and node.args[0].id == "str":
        inner = _seq_fields(node.args[1], selfname, env)
        return None if inner is None else [(n, w + ["str"]) for n, w in inner]
    return None


class FieldInTemplate(Exception):
    """A message field is part of a format template: its own text is interpreted, not copied."""


def _mentions_field(expr: ast.expr, selfname: str, env, depth: int = 0) -> Optional[str]:
    lens = {id(a) for c in ast.walk(expr) if isinstance(c, ast.Call) and isinstance(c.func, ast.Name) and c.func.id == "len" for a in ast.walk(c)}
    for n in ast.walk(expr):
        if isinstance(n, ast.Attribute) and isinstance(n.value, ast.Name) and n.value.id == selfname and id(n) not in lens:
            return n.attr
    for n in ast.walk(expr):
        if isinstance(n, ast.Name) and n.id in env and depth < 4 and id(n) not in lens:
            f = _mentions_field(env[n.id], selfname, env, depth + 1)
            if f:
                return f
    return None


def template(expr: ast.expr, selfname: str, env) -> Optional[dict]:
    """Evaluate an encoder return expression into {fields, sep, tail}."""
    if isinstance(expr, ast.Name) and expr.id in env:
        return template(env[expr.id], selfname, env)
    if isinstance(expr, ast.BinOp) and isinstance(expr.op, ast.Mod):
        fld = _mentions_field(expr.left, selfname, env)
        if fld:
            raise FieldInTemplate(f"the %-format template `{unparse(expr.left)[:40]}` is built from the message's `{fld}`: a '%' in the field is interpreted as a conversion, so the frame is not the field's text")
        return None
    if isinstance(expr, ast.Call) and isinstance(expr.func, ast.Attribute) and expr.func.attr in ("format", "format_map"):
        fld = _mentions_field(expr.func.value, selfname, env)
        if fld:
            raise FieldInTemplate(f"the str.format template `{unparse(expr.func.value)[:40]}` is built from the message's `{fld}`: braces in the field are interpreted, so the frame is not the field's text")
        return None
    if isinstance(expr, ast.BinOp) and isinstance(expr.op, ast.Add):
        left = template(expr.left, selfname, env)
        if left is not None and isinstance(expr.right, ast.Constant) and isinstance(expr.right.value, str):
            left = dict(left)
            left["tail"] = left["tail"] + expr.right.value
            return left
        return None
    if isinstance(expr, ast.Call) and isinstance(expr.func, ast.Attribute) and expr.func.attr == "join" and len(expr.args) == 1:
        sep = expr.func.value
        fields = _seq_fields(expr.args[0], selfname, env)
        if fields is None:
            return None
        if isinstance(sep, ast.Name):
            sepd = ("param", sep.id)
        elif isinstance(sep, ast.Constant):
            sepd = ("const", sep.value)
        else:
            return None
        return {"fields": fields, "sep": sepd, "tail": ""}
    if isinstance(expr, ast.JoinedStr):
        fields, seps, tail = [], [], ""
        pending = ""
        for part in expr.values:
            if isinstance(part, ast.Constant):
                pending += part.value
            elif isinstance(part, ast.FormattedValue):
                if isinstance(part.value, ast.Name) and not _strip(part.value, selfname):
                    pending += "{" + part.value.id + "}"
                    continue
                f = _strip(part.value, selfname)
                if f is None or part.format_spec is not None:
                    return None
                if fields:
                    seps.append(pending)
                elif pending:
                    return None
                pending = ""
                fields.append(f)
        tail = pending
        if len(set(seps)) > 1:
            return None
        sep = seps[0] if seps else ""
        sepd = ("param", sep[1:-1]) if sep.startswith("{") and sep.endswith("}") else ("const", sep)
        return {"fields": fields, "sep": sepd, "tail": tail}
    return None


def _local_assigns(fn: ast.FunctionDef):
    env = {}
    for node in ast.walk(fn):
        if isinstance(node, ast.Assign) and len(node.targets) == 1 and isinstance(node.targets[0], ast.Name):
            env[node.targets[0].id] = node.value
    return env


def _param_default(fn: ast.FunctionDef, name: str):
    args = fn.args.args
    defaults = [None] * (len(args) - len(fn.args.defaults)) + list(fn.args.defaults)
    for a, d in zip(args, defaults):
        if a.arg == name:
            return d.value if isinstance(d, ast.Constant) else None
    for a, d in zip(fn.args.kwonlyargs, fn.args.kw_defaults):
        if a.arg == name:
            return d.value if isinstance(d, ast.Constant) else None
    return None


def encode_template(analysis: Analysis):
    info = analysis.p.func("message:Message.encode")
    fn = info.node
    selfname = fn.args.args[0].arg
    env = dict(info.module.assigns)
    env.update(_local_assigns(fn))
    # private methods of the class with a single `return <expr>`: usable as `self._x()` inside the template
    if info.cls is not None:
        for mname, m in info.cls.methods.items():
            if mname.startswith("_") and not mname.startswith("__") and len(m.node.args.args) == 1:
                mrets = [n for n in ast.walk(m.node) if isinstance(n, ast.Return)]
                if len(mrets) == 1 and mrets[0].value is not None:
                    env["__method__:" + mname] = mrets[0].value
    rets = [n for n in ast.walk(fn) if isinstance(n, ast.Return)]
    templ = None
    none_returns = 0
    for r in rets:
        if r.value is None or isinstance(r.value, ast.Constant):
            none_returns += 1  # constant returns are judged by C02-R2
            continue
        t = template(r.value, selfname, env)
        if t is None:
            raise AnalysisError(f"C02: encoder return expression not in a recognised form: {unparse(r.value)[:80]}")
        if templ is not None and t != templ:
            raise AnalysisError("C02: encoder has two different return templates")
        templ = t
    if templ is None:
        raise AnalysisError("C02: encoder has no recognisable return expression")
    return info, templ, none_returns


def decode_layout(analysis: Analysis):
    """-> (info, split separator descriptor, payload position, header attr order, header conversion)."""
    info = analysis.p.func("message:Message.decode")
    fn = info.node
    selfname = fn.args.args[0].arg
    sep = None
    listvar = None
    for node in ast.walk(fn):
        if isinstance(node, ast.Assign) and isinstance(node.value, ast.Call) and isinstance(node.value.func, ast.Attribute) and node.value.func.attr in ("split", "rsplit"):
            call = node.value
            if len(node.targets) == 1 and isinstance(node.targets[0], ast.Name):
                listvar = node.targets[0].id
                if call.args:
                    a = call.args[0]
                    sep = ("param", a.id) if isinstance(a, ast.Name) else (("const", a.value) if isinstance(a, ast.Constant) else None)
                if len(call.args) > 1 or call.keywords:
                    raise AnalysisError("C02: decoder splits with a maxsplit argument (unrecognised layout)")
    if listvar is None or sep is None:
        raise AnalysisError("C02: decoder does not split the line on a delimiter in a recognised form")
    payload_pos = None
    headers: List[str] = []
    conv = None
    popped = False
    for node in ast.walk(fn):
        if not isinstance(node, ast.Assign) or len(node.targets) != 1:
            continue
        tgt, val = node.targets[0], node.value
        if isinstance(tgt, ast.Attribute) and isinstance(tgt.value, ast.Name) and tgt.value.id == selfname and tgt.attr == "payload":
            txt = unparse(val)
            if txt == f"{listvar}.pop()" or txt == f"{listvar}.pop(-1)":
                payload_pos, popped = "last", True
            elif txt == f"{listvar}[-1]":
                payload_pos = "last"
            elif txt == f"{listvar}[5]":
                payload_pos = "index5"
            else:
                payload_pos = f"other:{txt}"
        elif isinstance(tgt, (ast.Tuple, ast.List)) and all(isinstance(e, ast.Attribute) and isinstance(e.value, ast.Name) and e.value.id == selfname for e in tgt.elts):
            headers = [e.attr for e in tgt.elts]
            if isinstance(val, (ast.ListComp, ast.GeneratorExp)) and isinstance(val.elt, ast.Call) and isinstance(val.elt.func, ast.Name):
                conv = val.elt.func.id
                src = unparse(val.generators[0].iter)
                if src not in (listvar, f"{listvar}[:-1]", f"{listvar}[:5]"):
                    raise AnalysisError(f"C02: decoder header source {src} not recognised")
            elif isinstance(val, ast.Call) and isinstance(val.func, ast.Name) and val.func.id == "map" and isinstance(val.args[0], ast.Name):
                conv = val.args[0].id
            else:
                conv = None
    if not headers:
        # individual assignments self.x = int(list_data[i])
        idx = {}
        for node in ast.walk(fn):
            if isinstance(node, ast.Assign) and len(node.targets) == 1:
                tgt, val = node.targets[0], node.value
                if isinstance(tgt, ast.Attribute) and isinstance(tgt.value, ast.Name) and tgt.value.id == selfname and tgt.attr != "payload":
                    if isinstance(val, ast.Call) and isinstance(val.func, ast.Name) and len(val.args) == 1 and isinstance(val.args[0], ast.Subscript) and unparse(val.args[0].value) == listvar and isinstance(val.args[0].slice, ast.Constant):
                        idx[val.args[0].slice.value] = tgt.attr
                        conv = val.func.id
        if idx:
            headers = [idx[i] for i in sorted(idx)]
            if sorted(idx) != list(range(len(idx))):
                raise AnalysisError("C02: decoder assigns header fields from non-consecutive indices")
    if not headers:
        raise AnalysisError("C02: decoder header assignment not recognised")
    return info, sep, payload_pos, headers, conv


def decode_provenance(analysis: Analysis, enc_default):
    """Decoder rules by dataflow: what is stored into the six attributes on the decoding paths.

    The decoder is interpreted abstractly on a symbolic line; the stored values carry their
    provenance (split of the (r)stripped line on the delimiter, element position, conversions).
    """
    from ..engine import Analysis as _A  # noqa: F401
    from ..values import Const, Sym, Unknown

    info = analysis.p.func("message:Message.decode")
    w_dec = common.where(analysis, info, info.node)
    ctx = analysis.context(analysis.versions[-1], "serial", "sync")
    it = analysis.new_interp(ctx)
    st = it.new_state()
    m = Sym(("root", "M"), ("cls", "message:Message"))
    data = Sym(("root", "data"), "str")
    dec_default = _param_default(info.node, "delimiter")
    outs = analysis.run_root(it, info.qual, [data], m, st)
    rows = []
    ok_paths = [o for o in outs if o[0] == "val"]
    if not ok_paths:
        raise AnalysisError("C02: no decoding path returns normally")
    rows.append(("encode/decode: same delimiter", enc_default is not None and enc_default == dec_default, w_dec, f"encoder delimiter {enc_default!r}, decoder delimiter {dec_default!r}"))
    problems = {"payload": set(), "header": set(), "split": set()}
    hdr_order_ok = True
    for kind, s, v in ok_paths:
        splits = [e for e in s.events if e.kind == "call" and e.name == "str.split" and e.func == info.qual]
        if len(splits) != 1:
            problems["split"].add(f"{len(splits)} split calls")
        else:
            sp = splits[0]
            sep = sp.args[0] if sp.args else None
            if not (isinstance(sep, Const) and sep.value == dec_default) or len(sp.args) != 1:
                problems["split"].add("the line is not split on the delimiter (or with a maxsplit)")
            rl = getattr(sp.recv, "label", "") if not isinstance(sp.recv, Sym) else "data"
            if not (isinstance(sp.recv, Sym) and sp.recv.key() == data.key()) and not (rl.startswith("rstrip(") and "data" in rl):
                problems["split"].add(f"the split operates on {rl or sp.recv.key()!r}, not on the (right-stripped) line")
        stores = {e.name: e.args[0] for e in s.events if e.kind == "store" and e.func == info.qual and isinstance(e.recv, Sym) and e.recv.key() == m.key()}
        pay = stores.get("payload")
        plabel = getattr(pay, "label", "") if pay is not None else ""
        clean = plabel.replace("rstrip(", "")
        if pay is None:
            problems["payload"].add("payload is never stored")
        elif not ((plabel.startswith("pop:") or ("item:" in plabel and "-1" in plabel)) and "split:" in plabel and "data" in plabel):
            problems["payload"].add(f"payload is not the last field of the split line ({plabel[:70]})")
        elif any(tok in clean for tok in ("lc@", "strip(", "lower(", "upper(", "replace", "fstr:", "binop:", "slice:", "join:")):
            problems["payload"].add("payload is transformed between the wire and the attribute")
        for i, name in enumerate(FIELDS[:5]):
            hv = stores.get(name)
            if hv is None:
                problems["header"].add(f"{name} is never stored")
                continue
            lab = getattr(hv, "label", "")
            src = getattr(hv, "src_elem", None)
            slab = getattr(src, "label", "") if src is not None else lab
            pos_ok = lab.startswith(f"unpack{i}:") or (slab.startswith("int(") and f"[('c', 'int', {i})]" in slab)
            if not pos_ok:
                hdr_order_ok = False
            sclean = slab.replace("rstrip(", "")
            if not (slab.startswith("int(") and "split:" in slab and "data" in slab):
                problems["header"].add(f"{name} is not int(<field {i} of the split line>) ({slab[:60]})")
            elif any(tok in sclean[4:] for tok in ("strip(", "lower(", "abs(", "bool(", "binop:", "fstr:", "float(", "round(", "int(")):
                problems["header"].add(f"{name} is transformed beyond int()")
    rows.append(("decode: the line is split once on the delimiter", not problems["split"], w_dec, "; ".join(sorted(problems["split"])) or "data.rstrip().split(delimiter)"))
    rows.append(("decode: payload is the last field, taken verbatim", not problems["payload"], w_dec, "; ".join(sorted(problems["payload"])) or "last element of the split line"))
    rows.append(("decode: header attributes in encoder order", hdr_order_ok, w_dec, "field i of the line is bound to the i-th header attribute"))
    rows.append(("decode: header fields converted with int() only", not problems["header"], w_dec, "; ".join(sorted(problems["header"])) or "int(field)"))
    # failure discipline: every decoding failure surfaces as ValueError (caught by the dispatcher)
    bad = [o for o in outs if o[0] == "raise" and not issubclass(o[2].cls, ValueError)]
    rows.append(("decode: malformed lines raise ValueError only", not bad, w_dec, "all failing paths raise ValueError" if not bad else f"{bad[0][2].cls.__name__}: {bad[0][2].what}"))
    # ... and a line is rejected only by the field count or by int() itself: a test of the decoder's own
    # (isdigit, range, length) rejects frames the encoder produces (negative or large header values)
    def count_test(state) -> bool:
        # the path was taken under a comparison of the number of fields (len of the split line)
        return any(f[0] == "atom" and "len((" in repr(f[1]) and "split:" in repr(f[1]) for f in state.facts)

    own = sorted({f"{o[2].site}: {o[2].what}" for o in outs if o[0] == "raise" and "explicit raise" in (o[2].what or "") and o[2].site.startswith(info.qual.split(".")[0]) and not count_test(o[1])})
    rows.append(("decode: a line is rejected only by its field count or by int()", not own, w_dec, "no rejection test of the decoder's own" if not own else f"the decoder raises on a condition of its own ({own[0][:90]}): lines that int() accepts - e.g. a negative header field, which encode() produces - no longer decode"))
    return rows


def ctor_copy_paths(analysis: Analysis):
    """Constructor keyword names and copy() semantics by abstract interpretation (robust to helper extraction)."""
    from ..values import BoundV, Const, DictV, Obj, Sym, Unknown

    rows = []
    ctx = analysis.context(analysis.versions[-1], "serial", "sync")
    init = analysis.p.func("message:Message.__init__")
    w = common.where(analysis, init, init.node)
    # Message(**{six names}) stores each keyword under the attribute of the same name
    it = analysis.new_interp(ctx)
    st = it.new_state()
    kw = {name: Sym(("root", "kw_" + name), "int" if name != "payload" else "str") for name in FIELDS}
    outs = it.instantiate(st, "message:Message", [], dict(kw), init.node)
    good = [o for o in outs if o[0] == "val"]
    ok = bool(good)
    stored = {}
    for kind, s, v in good:
        for name in FIELDS:
            val = s.mem.get((v.key(), "a", name))
            stored.setdefault(name, []).append(val is not None and val.key() == kw[name].key())
    ok_all = ok and all(all(stored.get(n, [False])) for n in FIELDS)
    rows.append(("__init__: the six frame fields are keyword arguments stored under their own names", ok_all, w, "Message(node_id=.., child_id=.., type=.., ack=.., sub_type=.., payload=..) sets exactly these attributes" if ok_all else f"not stored as given: {[n for n in FIELDS if not all(stored.get(n, [False]))]}"))
    # defaults: Message() has int-like header defaults and an empty payload
    it = analysis.new_interp(ctx)
    st = it.new_state()
    outs = [o for o in it.instantiate(st, "message:Message", [], {}, init.node) if o[0] == "val"]
    dflt_ok = bool(outs)
    for kind, s, v in outs:
        for name in FIELDS[:5]:
            val = s.mem.get((v.key(), "a", name))
            dflt_ok = dflt_ok and isinstance(val, Const) and isinstance(val.value, int)
        pv = s.mem.get((v.key(), "a", "payload"))
        dflt_ok = dflt_ok and isinstance(pv, Const) and pv.value == ""
    rows.append(("__init__: defaults are integer header fields and an empty payload", dflt_ok, w, "Message() is 0;0;0;0;0;"))
    # copy(): goes through the codec and replaces exactly the passed fields
    cp = analysis.p.func("message:Message.copy")
    wc = common.where(analysis, cp, cp.node)
    it = analysis.new_interp(ctx)
    st = it.new_state()
    m = Obj("Message#orig", "message:Message")
    for name in FIELDS[:5]:
        st.mem[(m.key(), "a", name)] = Unknown("int", label=f"orig.{name}")
    st.mem[(m.key(), "a", "payload")] = Unknown("str", label="orig.payload")
    st.mem[(m.key(), "a", "gateway")] = Const(None)
    st.add_fact(("canonical", m.key()))
    newp = Sym(("root", "new_payload"), "str")
    newt = Sym(("root", "new_type"), "int")
    outs = it.call_func(st, BoundV(m, cp), [], {"payload": newp, "type": newt}, cp.node)
    good = [o for o in outs if o[0] == "val"]
    via_codec = replaced = others_decoded = bool(good)
    for kind, s, v in good:
        names = [e.name for e in s.events if e.kind == "enter"]
        via_codec = via_codec and "message:Message.encode" in names and "message:Message.decode" in names and isinstance(v, Obj) and v.key() != m.key()
        pv, tv = s.mem.get((v.key(), "a", "payload")), s.mem.get((v.key(), "a", "type"))
        replaced = replaced and pv is not None and pv.key() == newp.key() and tv is not None and tv.key() == newt.key()
        for name in ("node_id", "child_id", "ack", "sub_type"):
            val = s.mem.get((v.key(), "a", name))
            lab = getattr(val, "label", "")
            others_decoded = others_decoded and val is not None and ("unpack" in lab or lab.startswith("int("))
        gv = s.mem.get((v.key(), "a", "gateway"))
    rows.append(("copy: a new message built through the codec (decode(encode(self)))", via_codec, wc, "copy goes through Message.encode and Message.decode"))
    rows.append(("copy: replaces exactly the passed keyword fields", replaced and others_decoded, wc, "passed fields are set on the copy, the others come from the decoded original" if replaced and others_decoded else "the passed fields are not (only) what differs on the copy"))
    return rows


def layout_agreement(analysis: Analysis):
    """C02-R1 as a list of (construct, ok, where, detail). Also used as the precondition of LEMMA-COPY."""
    out = []
    try:
        enc_info, templ, none_returns = encode_template(analysis)
    except FieldInTemplate as exc:
        enc_info = analysis.p.func("message:Message.encode")
        return [("encode: fields are copied into the frame, never interpreted", False, common.where(analysis, enc_info, enc_info.node), str(exc))]
    fields = [n for n, _w in templ["fields"]]
    w_enc = common.where(analysis, enc_info, enc_info.node)
    out.append(("encode: six fields in frame order", fields == FIELDS, w_enc, f"encoder joins {fields}"))
    hdr_int = all("int" in w for n, w in templ["fields"][:5]) if len(templ["fields"]) >= 5 else False
    out.append(("encode: header fields rendered through int()", hdr_int, w_enc, "each of the five header fields passes int() before str()"))
    odd = [(n, [x for x in w if x not in ("int", "str")]) for n, w in templ["fields"] if any(x not in ("int", "str") for x in w)]
    out.append(("encode: fields are rendered unchanged (only int() / str())", not odd, w_enc, "no other transformation between attribute and wire" if not odd else f"fields transformed on the way to the wire: {odd}"))
    pay_w = [w for n, w in templ["fields"] if n == "payload"]
    out.append(("encode: payload is rendered verbatim", bool(pay_w) and all(x == "str" for x in pay_w[0]), w_enc, f"payload wrappers {pay_w}"))
    out.append(("encode: exactly one trailing newline", templ["tail"] == "\n", w_enc, f"terminator {templ['tail']!r}"))
    sep = templ["sep"]
    enc_default = _param_default(enc_info.node, sep[1]) if sep[0] == "param" else sep[1]
    for row in decode_provenance(analysis, enc_default):
        out.append(row)
    for row in ctor_copy_paths(analysis):
        out.append(row)
    return out


def encode_failure(analysis: Analysis):
    """C02-R2: the encoder's failure path yields None, never a partial string."""
    info = analysis.p.func("message:Message.encode")
    out = []
    handlers = [h for n in ast.walk(info.node) if isinstance(n, ast.Try) for h in n.handlers]
    for h in handlers:
        rets = [r for r in ast.walk(h) if isinstance(r, ast.Return)]
        ok = all(r.value is None or (isinstance(r.value, ast.Constant) and r.value.value is None) for r in rets)
        raises = any(isinstance(r, ast.Raise) for r in ast.walk(h))
        out.append((f"encode: handler `except {unparse(h.type) if h.type else ''}` returns None", ok and not raises, common.where(analysis, info, h), "failure path returns None" if ok else "failure path returns a value"))
    return out


def encode_gives_up(analysis: Analysis):
    """C02-R2 by paths: encode() never raises, and returns None only after int() rejected a header field -
    no other test (on the payload, on lengths, on characters) makes a message unencodable."""
    from ..values import Const, Sym, Unknown

    info = analysis.p.func("message:Message.encode")
    w = common.where(analysis, info, info.node)
    ctx = analysis.context(analysis.versions[-1], "serial", "sync")
    it = analysis.new_interp(ctx)
    st = it.new_state()
    m = Sym(("root", "M"), ("cls", "message:Message"))
    for a in FIELDS[:-1]:
        st.mem[(m.key(), "a", a)] = Unknown("str", label="field." + a)  # text or int: int() may reject it (ValueError); other types are API misuse
    st.mem[(m.key(), "a", "payload")] = Unknown("str", label="field.payload")
    out = []
    bad = []
    n = 0
    for kind, s, v in analysis.run_root(it, info.qual, [], m, st):
        n += 1
        if kind == "raise":
            bad.append(f"encode() can raise {v.cls.__name__} ({v.what[:50]})")
            continue
        if isinstance(v, Const) and v.value is None:
            catches = [e for e in s.events if e.kind == "catch" and e.func.startswith("message:")]
            sites = {e.extra for e in catches}
            ok_site = bool(sites)
            for site in sites:
                line = int(str(site).rsplit(":", 1)[-1]) if str(site).rsplit(":", 1)[-1].isdigit() else -1
                nodes = [x for x in ast.walk(info.module.tree) if getattr(x, "lineno", None) == line]
                int_of_field = any(isinstance(x, ast.Call) and unparse(x.func) == "int" and len(x.args) == 1 and (_strip(x.args[0], info.node.args.args[0].arg) or (None,))[0] in FIELDS[:-1] for x in nodes) or any(isinstance(x, ast.Call) and unparse(x.func) == "int" for x in nodes)
                explicit = any(isinstance(x, ast.Raise) for x in nodes)
                if explicit or not int_of_field:
                    ok_site = False
                    bad.append(f"encode() gives up at line {line} for a reason other than int() rejecting a header field")
            if not ok_site and not sites:
                bad.append("encode() returns None on a path without a failed conversion")
    out.append(("encode: gives up (None) only when int() rejects a header field, never raises", not bad and n > 0, w, f"{n} path(s)" if not bad else "; ".join(sorted(set(bad))[:3]) + ": a decoded line can then not be re-encoded, and copy() silently yields the default message"))
    return out


def run(analysis: Analysis, tier: str) -> RuleResult:
    res = RuleResult(PROP)
    res.explanation = [
        "C02-R1: a symbolic evaluation of Message.encode's return expression into a frame template (join / f-string / + forms) is compared with the decoder's split-and-bind layout, the constructor's keyword names and the shape of copy();",
        "C02-R2: the encoder's failure handler returns None.",
        "Decides the layout agreement only, a necessary condition of the round trip; value-level equality is not decided.",
    ]
    for construct, ok, where, detail in layout_agreement(analysis):
        res.add("C02-R1", construct, ok, where, detail)
    for construct, ok, where, detail in encode_failure(analysis) + encode_gives_up(analysis):
        res.add("C02-R2", construct, ok, where, detail)
    res.need("C02-R1", 10, "layout obligations")
    res.not_decided = ["round-trip equality over all integer spellings and Unicode payloads", "canonicalisation of whitespace"]
    res.units = {"functions": ["message:Message.encode", "message:Message.decode", "message:Message.__init__", "message:Message.copy"], "source_digest": analysis.p.digest()}
    res.trusted = ["python ast"]
    return res
