"""C09 - OTA serves exactly the firmware it advertised (layout / dataflow clauses only).

CRC value, Intel-HEX decoding and reassembly equality live in crcmod / intelhex / bytes slicing
and are not decided. Decided:
R1 packing agreement: both directions use little-endian unsigned 16-bit words; the config
   request is unpacked into 5 words, the block request into 3; the config response packs
   (type, version, blocks, crc) of the session's firmware in that order, the block response
   echoes the request's type, version and block index followed by the block data.
R2 one block size: block count divisor, slice stride and slice width are the same symbol.
R3 single source: the stored data, the CRC argument and the block-count operand are the same
   (padded) value; the record keys read are the keys written.
R4 padding congruence over all 128 residues (if the padding is in a recognised form).
"""
from __future__ import annotations

import ast
from typing import Optional

from ..engine import Analysis, describe_path
from ..frontend import AnalysisError, unparse
from ..report import RuleResult
from ..values import Const, Obj, Sym, Unknown, V
from . import common
from .c01 import discharge
from .c10 import responder_worker  # noqa: F401  (same root set-up)

PROP = "C09"


def strict_hex(analysis: Analysis, res: RuleResult, rule: str) -> None:
    """The request payload is decoded as strict hex text (shared by C09-R1 and C10-R4)."""
    dec = analysis.p.func("ota:fw_hex_to_int")
    lenient = any(True for _ in common.calls_in(dec.node, "fromhex"))
    res.add(rule, "ota:fw_hex_to_int / payload is strict hex text (unhexlify) of packed words", any(True for _ in common.calls_in(dec.node, "unhexlify")) and not lenient, common.where(analysis, dec, dec.node), "binascii.unhexlify" if not lenient else "bytes.fromhex skips ASCII whitespace, which unhexlify rejects: requests with blanks between byte pairs are no longer malformed")


def fmt_rule(analysis: Analysis, res: RuleResult) -> None:
    for qual, fn_name in (("ota:fw_hex_to_int", "unpack"), ("ota:fw_int_to_hex", "pack")):
        info = analysis.p.func(qual)
        fmts = []
        for c in common.calls_in(info.node, fn_name):
            if c.args and isinstance(c.args[0], ast.JoinedStr):
                lit = "".join(p.value for p in c.args[0].values if isinstance(p, ast.Constant))
                fmts.append(lit)
            elif c.args and isinstance(c.args[0], ast.Constant):
                fmts.append(str(c.args[0].value))
        ok = bool(fmts) and all(f.startswith("<") and f.endswith("H") and set(f) <= set("<H0123456789") for f in fmts)
        res.add("C09-R1", f"{qual} / struct format is little-endian unsigned 16-bit words", ok, common.where(analysis, info, info.node), f"format(s) {fmts}")
    # hex text <-> bytes on both sides
    dec = analysis.p.func("ota:fw_hex_to_int")
    enc = analysis.p.func("ota:fw_int_to_hex")
    strict_hex(analysis, res, "C09-R1")
    from .c10 import zero_rules

    zero_rules(analysis, res, "C09-R3")
    res.add("C09-R1", "ota:fw_int_to_hex / result is hex text (hexlify / bytes.hex) of packed words", any(True for _ in common.calls_in(enc.node, "hexlify")) or any(True for _ in common.calls_in(enc.node, "hex")), common.where(analysis, enc, enc.node), "")


def word_counts(analysis: Analysis, res: RuleResult) -> None:
    for qual, words in (("ota:OTAFirmware.respond_fw", 3), ("ota:OTAFirmware.respond_fw_config", 5)):
        info = analysis.p.func(qual)
        found = None
        for n in ast.walk(info.node):
            if isinstance(n, ast.Assign) and isinstance(n.value, ast.Call) and unparse(n.value.func) == "fw_hex_to_int":
                tgt = n.targets[0]
                ntargets = len(tgt.elts) if isinstance(tgt, (ast.Tuple, ast.List)) else None
                arg = n.value.args[1].value if len(n.value.args) > 1 and isinstance(n.value.args[1], ast.Constant) else None
                found = (ntargets, arg, unparse(n.value.args[0]) if n.value.args else None)
        ok = found is not None and found[0] == words and found[1] == words and found[2] == "msg.payload"
        res.add("C09-R1", f"{qual} / request payload is unpacked into {words} words", ok, common.where(analysis, info, info.node), f"(targets, words, source) = {found}")


def echo_worker(analysis: Analysis, spec) -> dict:
    qual, ctxspec = spec
    ctx = analysis.context(*ctxspec)
    it = analysis.new_interp(ctx)
    st, gw = analysis.gateway_state(it)
    ota = Sym(("root", "OTA"), ("cls", "ota:OTAFirmware"))
    st.mem[(ota.key(), "a", "_const")] = st.mem[(gw.key(), "a", "const")]
    msg = Obj("Message#inbound", "message:Message")
    st.mem[(msg.key(), "a", "node_id")] = Unknown("int", label="inbound.node_id")
    st.mem[(msg.key(), "a", "payload")] = Unknown("str", label="inbound.payload")
    st.mem[(msg.key(), "a", "gateway")] = gw
    for a in ("child_id", "type", "ack", "sub_type"):
        st.mem[(msg.key(), "a", a)] = Unknown("int", label=f"inbound.{a}")
    st.add_fact(("canonical", msg.key()))
    outs = analysis.run_root(it, qual, [msg], ota, st)
    rows = []
    for out in outs:
        kind, s, v = out
        if kind != "val" or (isinstance(v, Const) and v.value is None):
            continue
        packs = [e for e in s.events if e.kind == "enter" and e.name == "ota:fw_int_to_hex"]
        parses = [(e.args[0].key() == s.mem[(msg.key(), "a", "payload")].key(), e.args[1].value if isinstance(e.args[1], Const) else None) for e in s.events if e.kind == "enter" and e.name == "ota:fw_hex_to_int" and len(e.args) >= 2]
        unp = [e for e in s.events if e.kind == "exit" and e.name == "ota:fw_hex_to_int"]
        req_words = []
        if unp and unp[-1].retval is not None and hasattr(unp[-1].retval, "items"):
            req_words = [w.key() for w in unp[-1].retval.items]
        args = []
        if packs:
            a = packs[-1].args
            if len(a) == 1 and hasattr(a[0], "items"):
                a = a[0].items
            args = [getattr(x, "label", None) or repr(x.key()) for x in a]
            argkeys = [x.key() for x in a]
        else:
            argkeys = []
        # how the final payload is assembled (stores to payload of the reply)
        pay_stores = [e for e in s.events if e.kind == "store" and e.name == "payload" and isinstance(e.recv, Obj) and e.recv.key() == v.key() and e.func == qual]
        blk = None
        for e in s.events:
            if e.kind == "call" and e.name == "binascii.hexlify" and e.args and getattr(e.args[0], "slice_bounds", None) is not None:
                a0 = e.args[0]
                lo, hi = a0.slice_bounds.get("lower"), a0.slice_bounds.get("upper")
                blk = {"base": getattr(a0.slice_of, "label", repr(a0.slice_of.key())), "lo": getattr(lo, "label", None) if lo is not None else None, "hi": getattr(hi, "label", None) if hi is not None else None, "lo_key": repr(lo.key()) if lo is not None else None, "step": "step" in a0.slice_bounds}
        rows.append({"args": args, "req_words": [repr(k) for k in req_words], "echo": [argkeys[i] == req_words[i] if i < len(argkeys) and i < len(req_words) else None for i in range(3)], "npack": len(packs), "pay_stores": len(pay_stores), "parses": parses, "last_payload": (getattr(pay_stores[-1].args[0], "label", None) or repr(pay_stores[-1].args[0].key())) if pay_stores else None, "blk": blk, "witness": describe_path(out, 20)})
    return {"qual": qual, "rows": rows}


def load_worker(analysis: Analysis, ctxspec) -> list:
    """Paths of load_fw that hand out an image: which object is converted, over which address range."""
    from ..values import ExtObj

    ctx = analysis.context(*ctxspec)
    it = analysis.new_interp(ctx)
    st = it.new_state()
    path = Sym(("root", "path"), "str")
    outs = analysis.run_root(it, "ota:load_fw", [path], None, st)
    rows = []
    for out in outs:
        kind, s, v = out
        if kind != "val" or (isinstance(v, Const) and v.value is None):
            continue
        calls = [e for e in s.events if e.kind == "call"]
        loads = [e for e in calls if e.name in ("intelhex.IntelHex.fromfile", "intelhex.IntelHex.loadhex", "intelhex.IntelHex.loadfile")]
        conv = [e for e in calls if e.name in ("intelhex.IntelHex.tobinstr", "intelhex.IntelHex.tobinarray")]
        opens = [e for e in calls if e.name == "builtins.open"]
        row = {"ret": repr(v.key())[:100], "witness": describe_path(out, 16), "problems": []}
        if len(conv) != 1 or not (isinstance(v.key(), tuple) and len(v.key()) > 1 and str(v.key()[1]).startswith(conv[0].name)):
            row["problems"].append(f"the returned value {row['ret']} is not the result of one tobinstr() call on the loaded object")
        else:
            c = conv[0]
            # IntelHex(source) with a file object or a file name loads it as Intel-HEX in the constructor
            ctor_src = c.recv.args[0] if isinstance(c.recv, ExtObj) and c.recv.args else (c.recv.kwargs.get("source") if isinstance(c.recv, ExtObj) else None)
            if (not loads and ctor_src is None) or any(l.recv is None or c.recv is None or l.recv.key() != c.recv.key() for l in loads):
                row["problems"].append("the converted object is not the one the file was loaded into")
            sources = [(l.args[0] if l.args else None) for l in loads] + ([ctor_src] if ctor_src is not None else [])
            for l in loads:
                fmt = l.kwargs.get("format", l.args[1] if len(l.args) > 1 else None)
                if l.name != "intelhex.IntelHex.loadhex" and not (isinstance(fmt, Const) and fmt.value == "hex"):
                    row["problems"].append("the file is not read as Intel-HEX (format != 'hex')")
            for src in sources:
                from_path = src is not None and (src.key() == path.key() or "'path'" in repr(src.key()) or any(isinstance(o.args[0], V) and "'path'" in repr(o.args[0].key()) for o in opens if o.args))
                if not from_path:
                    row["problems"].append("the loaded file is not the one named by the argument")
            given = dict(c.kwargs)
            for i, a in enumerate(c.args):
                given[("start", "end", "pad", "size")[i] if i < 4 else f"arg{i}"] = a
            for k, a in given.items():
                kk = repr(a.key()) if isinstance(a, V) else repr(a)
                if k == "pad":
                    continue
                if k == "start" and "minaddr" in kk:
                    continue
                if k == "end" and "maxaddr" in kk and "binop" not in kk:
                    continue
                row["problems"].append(f"tobinstr({k}=...) restricts the converted address range ({kk[:80]}): records outside it, e.g. beyond an address gap, are dropped")
        rows.append(row)
    return rows


def block_size(analysis: Analysis, res: RuleResult) -> None:
    mod = analysis.p.modules["ota"]
    const = mod.assigns.get("FIRMWARE_BLOCK_SIZE")
    okc = isinstance(const, ast.Constant) and const.value == 16
    res.add("C09-R2", "ota:FIRMWARE_BLOCK_SIZE is 16", okc, "mysensors/ota.py", f"{unparse(const) if const is not None else None}")
    prep = analysis.p.func("ota:prepare_fw")
    div = None
    for n in ast.walk(prep.node):
        if isinstance(n, ast.BinOp) and isinstance(n.op, (ast.Div, ast.FloorDiv)) and unparse(n.left).startswith("len("):
            div = unparse(n.right)
    res.add("C09-R2", "ota:prepare_fw / block count divides by the same block size symbol", div == "FIRMWARE_BLOCK_SIZE", common.where(analysis, prep, prep.node), f"divisor {div}")


def single_source(analysis: Analysis, res: RuleResult) -> None:
    prep = analysis.p.func("ota:prepare_fw")
    rec = None
    for n in ast.walk(prep.node):
        if isinstance(n, ast.Dict) and all(isinstance(k, ast.Constant) for k in n.keys):
            rec = n
    if rec is None:
        raise AnalysisError("C09-R3: firmware record literal in prepare_fw not recognised")
    keys = {k.value: v for k, v in zip(rec.keys, rec.values)}
    res.add("C09-R3", "ota:prepare_fw / record has blocks, crc and data", set(keys) >= {"blocks", "crc", "data"}, common.where(analysis, prep, rec), f"keys {sorted(keys)}")
    if set(keys) >= {"blocks", "crc", "data"}:
        data = unparse(keys["data"])
        crc_arg = None
        if isinstance(keys["crc"], ast.Call) and keys["crc"].args:
            crc_arg = unparse(keys["crc"].args[0])
        len_arg = None
        for n in ast.walk(keys["blocks"]):
            if isinstance(n, ast.Call) and unparse(n.func) == "len" and n.args:
                len_arg = unparse(n.args[0])
        ok = isinstance(keys["data"], ast.Name) and data == crc_arg == len_arg
        res.add("C09-R3", "ota:prepare_fw / stored data, CRC argument and block-count operand are the same value", ok, common.where(analysis, prep, rec), f"data={data} crc({crc_arg}) len({len_arg})")
        crc_fn = unparse(keys["crc"].func) if isinstance(keys["crc"], ast.Call) else None
        res.add("C09-R3", "ota:prepare_fw / crc is computed by compute_crc", crc_fn == "compute_crc", common.where(analysis, prep, rec), f"{crc_fn}")
        # the padded value: no assignment to the name after the record is built, padding before
        name = data
        lines_assign = [n.lineno for n in ast.walk(prep.node) if isinstance(n, (ast.Assign, ast.AugAssign)) and any(unparse(t) == name for t in (n.targets if isinstance(n, ast.Assign) else [n.target]))]
        okp = all(l < rec.lineno for l in lines_assign)
        res.add("C09-R3", "ota:prepare_fw / the record is built from the padded image", okp and bool(lines_assign), common.where(analysis, prep, rec), "padding precedes the record")
    # the padded value must be the input plus appended bytes only
    arg = prep.node.args.args[0].arg
    odd = []
    for n in ast.walk(prep.node):
        if isinstance(n, ast.Assign) and any(unparse(t) == arg for t in n.targets):
            v = n.value
            ok_form = isinstance(v, ast.BinOp) and isinstance(v.op, ast.Add) and unparse(v.left) == arg
            if not ok_form:
                odd.append(unparse(n)[:70])
        elif isinstance(n, ast.AugAssign) and unparse(n.target) == arg and not isinstance(n.op, ast.Add):
            odd.append(unparse(n)[:70])
    res.add("C09-R3", "ota:prepare_fw / the image is changed only by appending padding", not odd, common.where(analysis, prep, prep.node), "only `+=` of pad bytes" if not odd else f"the image is rewritten before it is stored: {odd}")
    # keys read elsewhere
    read = set()
    mod = analysis.p.modules["ota"]
    for n in ast.walk(mod.tree):
        if isinstance(n, ast.Subscript) and isinstance(n.value, ast.Name) and n.value.id.startswith("fware") and isinstance(n.slice, ast.Constant) and isinstance(n.ctx, ast.Load):
            read.add(n.slice.value)
    res.add("C09-R3", "ota / record keys read are the keys written", read <= set(keys) and read >= {"data", "blocks", "crc"}, "mysensors/ota.py", f"read {sorted(read)} written {sorted(keys)}")
    crc_rule(analysis, res)


CRC_FACTORIES = ("Crc", "PredefinedCrc", "mkPredefinedCrcFun", "mkCrcFun")


def crc_rule(analysis: Analysis, res: RuleResult) -> None:
    """compute_crc(data) is the predefined 'modbus' CRC-16 of the whole of `data`: def-use over the function
    and the module-level names it loads (object form update/hexdigest/crcValue, or the function form)."""
    crc = analysis.p.func("ota:compute_crc")
    mod = analysis.p.modules["ota"]
    w = common.where(analysis, crc, crc.node)
    env = {}
    for n in mod.tree.body:
        if isinstance(n, ast.Assign) and len(n.targets) == 1 and isinstance(n.targets[0], ast.Name):
            env[n.targets[0].id] = n.value
    local = {}
    for n in ast.walk(crc.node):
        if isinstance(n, ast.Assign) and len(n.targets) == 1 and isinstance(n.targets[0], ast.Name):
            local.setdefault(n.targets[0].id, []).append(n.value)

    def factory(e):
        """None: not a crcmod factory call; else the simplified algorithm name (or '?')."""
        if not (isinstance(e, ast.Call) and unparse(e.func).split(".")[-1] in CRC_FACTORIES and ("crcmod" in unparse(e.func) or unparse(e.func).split(".")[-1] != "Crc")):
            return None
        if unparse(e.func).split(".")[-1] == "mkCrcFun" or ("predefined" not in unparse(e.func) and unparse(e.func).split(".")[-1] == "Crc"):
            return "?"  # explicit polynomial form: not evaluated here
        a = e.args[0] if e.args else next((k.value for k in e.keywords if k.arg == "crc_name"), None)
        return "".join(c for c in a.value.lower() if c.isalnum()) if isinstance(a, ast.Constant) and isinstance(a.value, str) else "?"

    def resolve(e):
        seen = 0
        while isinstance(e, ast.Name) and seen < 4:
            seen += 1
            vals = local.get(e.id) or ([env[e.id]] if e.id in env else [])
            if len(vals) != 1:
                return e
            e = vals[0]
        return e

    algos = [factory(n) for n in ast.walk(crc.node) if factory(n) is not None]
    algos += [factory(env[n.id]) for n in ast.walk(crc.node) if isinstance(n, ast.Name) and n.id in env and n.id not in local and factory(env[n.id]) is not None]
    param = crc.node.args.args[0].arg if crc.node.args.args else "data"
    fed = []
    for n in ast.walk(crc.node):
        if isinstance(n, ast.Call) and n.args:
            tgt = n.func.value if isinstance(n.func, ast.Attribute) and n.func.attr == "update" else n.func
            if factory(resolve(tgt)) is not None:
                fed.append(unparse(n.args[0]) == param and len(n.args) == 1 and not n.keywords)
    rets = [n.value for n in ast.walk(crc.node) if isinstance(n, ast.Return)]

    def ret_ok(e):
        e = resolve(e)
        if isinstance(e, ast.Call) and unparse(e.func) == "int" and len(e.args) == 2 and unparse(e.args[1]) == "16" and isinstance(e.args[0], ast.Call) and isinstance(e.args[0].func, ast.Attribute) and e.args[0].func.attr == "hexdigest":
            return factory(resolve(e.args[0].func.value)) is not None
        if isinstance(e, ast.Attribute) and e.attr == "crcValue":
            return factory(resolve(e.value)) is not None
        if isinstance(e, ast.Call) and len(e.args) == 1 and unparse(e.args[0]) == param:
            return factory(resolve(e.func)) is not None and unparse(resolve(e.func).func).split(".")[-1].startswith("mk")
        return False

    ok = bool(algos) and all(a == "modbus" for a in algos) and bool(fed) and all(fed) and bool(rets) and all(r is not None and ret_ok(r) for r in rets)
    res.add("C09-R3", "ota:compute_crc / is the predefined 'modbus' CRC-16 of the whole of its argument", ok, w, f"algorithm(s) {sorted(set(algos))}, fed with `{param}` unchanged, result is the CRC value" if ok else f"algorithm(s) {sorted(set(algos))}; argument handed on unchanged: {fed}; returns {[unparse(r)[:50] if r is not None else None for r in rets]}")


def _arith(node, env) -> Optional[int]:
    if isinstance(node, ast.Constant) and isinstance(node.value, int):
        return node.value
    if isinstance(node, ast.Name) and node.id in env:
        return env[node.id]
    if isinstance(node, ast.BinOp):
        a, b = _arith(node.left, env), _arith(node.right, env)
        if a is None or b is None:
            return None
        try:
            return {ast.Add: a + b, ast.Sub: a - b, ast.Mult: a * b, ast.Mod: a % b if b else None, ast.FloorDiv: a // b if b else None}.get(type(node.op))
        except ZeroDivisionError:
            return None
    if isinstance(node, ast.UnaryOp) and isinstance(node.op, ast.USub):
        v = _arith(node.operand, env)
        return None if v is None else -v
    return None


def padding(analysis: Analysis, res: RuleResult) -> None:
    prep = analysis.p.func("ota:prepare_fw")
    arg = prep.node.args.args[0].arg
    mod_assign = None
    loop = None
    for n in ast.walk(prep.node):
        if isinstance(n, ast.Assign) and isinstance(n.value, ast.BinOp) and isinstance(n.value.op, ast.Mod) and unparse(n.value.left) == f"len({arg})" and isinstance(n.value.right, ast.Constant):
            mod_assign = (n.targets[0].id if isinstance(n.targets[0], ast.Name) else None, n.value.right.value)
        if isinstance(n, ast.For) and isinstance(n.iter, ast.Call) and unparse(n.iter.func) == "range" and len(n.iter.args) == 1:
            body = n.body
            if len(body) == 1 and isinstance(body[0], ast.AugAssign) and isinstance(body[0].op, ast.Add) and unparse(body[0].target) == arg and isinstance(body[0].value, ast.Constant) and isinstance(body[0].value.value, bytes) and len(body[0].value.value) == 1:
                loop = (n.iter.args[0], body[0].value.value)
    if mod_assign is None or loop is None or mod_assign[0] is None:
        res.extra["padding"] = "not decided: the padding code is not in a recognised form (residue assignment + loop appending one byte)"
        return
    var, page = mod_assign
    count_expr, byte = loop
    bad = []
    for r in range(page):
        f = _arith(count_expr, {var: r})
        if f is None:
            res.extra["padding"] = "not decided: pad count expression outside the arithmetic fragment"
            return
        if not (0 <= f <= page and (r + f) % page == 0):
            bad.append((r, f))
    res.add("C09-R4", "ota:prepare_fw / padding makes every length a multiple of the page (all residues)", not bad, common.where(analysis, prep, prep.node), f"page {page}: pad(r) = {unparse(count_expr)} satisfies (r + pad) % {page} == 0 and 0 <= pad <= {page} for r in 0..{page - 1}" if not bad else f"residues violating the congruence / the one-page bound: {bad[:5]}")
    res.add("C09-R4", "ota:prepare_fw / page size is 128 and a multiple of the block size", page == 128 and page % 16 == 0, common.where(analysis, prep, prep.node), f"page {page}")
    res.add("C09-R4", "ota:prepare_fw / pad byte is 0xFF", byte == b"\xff", common.where(analysis, prep, prep.node), f"{byte!r}")
    res.extra["padding"] = f"decided for all {page} residues"


def run(analysis: Analysis, tier: str) -> RuleResult:
    res = RuleResult(PROP)
    res.explanation = [
        "Layout / dataflow clauses of OTA serving: struct formats and word counts in both directions; on every replying abstract path of the two responders the words handed to the packer are the session's (type, version, blocks, crc) resp. the request's own (type, version, block index) - echo - and the payload is header + block data;",
        "one block-size symbol for divisor / stride / width; the firmware record stores, checksums and counts the same padded value; padding congruence evaluated over all 128 residues.",
        "CRC value, Intel-HEX decoding and reassembly equality are not decided.",
    ]
    fmt_rule(analysis, res)
    from . import c10 as _c10

    _c10.session_retention(analysis, res, "C09-R5")
    # what is served under (type, version) is the image the update call brought (C10's update rows, shared)
    from . import c10

    for summ in common.pmap(analysis, c10.update_worker, [(analysis.versions[-1], "serial", "sync")]):
        for r in summ["rows"]:
            if r["kind"] == "val" and r["req"] and r.get("bin_given"):
                oks = r["stored_image"]
                res.add("C09-R3", "ota:OTAFirmware.make_update / an update call that brings an image stores the record prepared from that image under (type, version)", oks, "mysensors/ota.py", "firmware[type, version] = prepare_fw(fw_bin)" if oks else f"a path schedules the node although the image passed in was not stored (stored: {r['fw_store_vals']}): nodes are served an older image kept under the same (type, version)", r["witness"] if not oks else None)
    common.check_no_key_removal(analysis, res, "C09-R3", maps={"firmware"}, what="no-removal scan of the firmware store", why="a loaded firmware image can be dropped from the store: a node still scheduled for it (or in the middle of its transfer) gets no further blocks")
    last = analysis.versions[-1]
    for summ in common.pmap(analysis, echo_worker, [(q, (last, "serial", "sync")) for q in ("ota:OTAFirmware.respond_fw", "ota:OTAFirmware.respond_fw_config")]):
        q = summ["qual"]
        if not summ["rows"]:
            res.add("C09-R1", f"{q} / serves scheduled nodes", False, "mysensors/ota.py", "no path returns a firmware response")
            continue
        words = 3 if q.endswith("respond_fw") else 5
        for r in summ["rows"]:
            okw = len(r["parses"]) == 1 and r["parses"][0] == (True, words) and len(r["req_words"]) == words
            res.add("C09-R1", f"{q} / request payload is unpacked into {words} words", okw, "mysensors/ota.py", f"fw_hex_to_int(msg.payload, {words}) -> {len(r['req_words'])} words" if okw else f"parse calls {r['parses']}, words {len(r['req_words'])}", r["witness"] if not okw else None)
        for r in summ["rows"]:
            if q.endswith("respond_fw"):
                ok = r["npack"] == 1 and len(r["args"]) == 3 and all(r["echo"])
                res.add("C09-R1", f"{q} / block response echoes the request's type, version and block index", ok, "mysensors/ota.py", f"packed words {r['args']}, request words {r['req_words'][:3]}", r["witness"] if not ok else None)
                okp = r["pay_stores"] >= 1 and r["last_payload"] is not None and "hexlify" in r["last_payload"] and "binop:Add" in r["last_payload"]
                res.add("C09-R1", f"{q} / payload is the 3-word header followed by the block data", okp, "mysensors/ota.py", f"payload {r['last_payload'][:120] if r['last_payload'] else None}", r["witness"] if not okp else None)
                b = r["blk"]
                S = "('c', 'int', 16)"
                idx = r["req_words"][2] if len(r["req_words"]) > 2 else "?"
                ok_b = False
                if b and b["lo"] and b["hi"] and not b["step"]:
                    lo_ok = b["lo"].startswith("binop:Mult:") and idx in b["lo"] and S in b["lo"]
                    hi_ok = (b["hi"].startswith("binop:Add:") and b["lo_key"] in b["hi"] and b["hi"].endswith(S)) or (b["hi"].startswith("binop:Mult:") and "binop:Add:" in b["hi"] and idx in b["hi"] and "('c', 'int', 1)" in b["hi"] and b["hi"].endswith(S))
                    ok_b = lo_ok and hi_ok
                res.add("C09-R2", f"{q} / the block data is data[i*16 : i*16 + 16] for the requested index i", ok_b, "mysensors/ota.py", f"slice bounds lo={b['lo'] if b else None} hi={b['hi'] if b else None}"[:260], r["witness"] if not ok_b else None)
                ok_src = bool(b) and "'data'" in (b["base"] or "") and "firmware" in (b["base"] or "")
                res.add("C09-R3", f"{q} / blocks are cut from the stored record's data", ok_src, "mysensors/ota.py", f"sliced value {b['base'][:120] if b else None}", r["witness"] if not ok_src else None)
                # the record is the one the response header names: firmware[(type, version)] with the echoed words
                want = f"('tuple', {r['req_words'][0]}, {r['req_words'][1]})" if len(r["req_words"]) > 1 else "?"
                ok_key = bool(b) and want in (b["base"] or "")
                res.add("C09-R3", f"{q} / the served record is the firmware the response header names (type, version echoed)", ok_key, "mysensors/ota.py", "firmware[(type, version)] keyed by the echoed words" if ok_key else f"the block data comes from {b['base'][:140] if b else None}, not from the firmware (type, version) the response echoes: a node asking for another image gets this one's bytes under the other label", r["witness"] if not ok_key else None)
            else:
                a = r["args"]
                ok = r["npack"] == 1 and len(a) == 4 and "'blocks'" in a[2] and "'crc'" in a[3] and "unpack0" in a[0] and "unpack1" in a[1] and "get" in a[0]
                res.add("C09-R1", f"{q} / config response packs (type, version, blocks, crc) of the session's firmware", ok, "mysensors/ota.py", f"packed words {a}", r["witness"] if not ok else None)
    # "in any order, any number of times": serving a block leaves the node's session in place
    for summ in common.pmap(analysis, responder_worker, [("ota:OTAFirmware.respond_fw", (last, "serial", "sync"))]):
        n_rep = 0
        for r in summ["rows"]:
            if not r["replies"]:
                continue
            n_rep += 1
            last_move = max((m["idx"] for m in r["moves"]), default=None)
            late = [p["store"] for p in r["pops"] if last_move is not None and p["idx"] > last_move]
            ok = len(r["moves"]) == 1 and r["moves"][0]["store"] == "started" and not late
            res.add("C09-R5", "ota:OTAFirmware.respond_fw / a served block leaves the node in `started`: any block can be asked for again, in any order", ok, "mysensors/ota.py", "the last session mutation of a replying path stores the node into `started`" if ok else f"after serving a block the node is not left in `started` (moves {[m['store'] for m in r['moves']]}, later removals {late}): later or repeated block requests go unanswered", r["witness"] if not ok else None)
        if not n_rep:
            res.add("C09-R5", "ota:OTAFirmware.respond_fw / serves blocks", False, "mysensors/ota.py", "no replying path")
    lrows = common.pmap(analysis, load_worker, [(last, "serial", "sync")])[0]
    if not lrows:
        res.add("C09-R6", "ota:load_fw / hands out the loaded image", False, "mysensors/ota.py", "no path of load_fw returns an image")
    for r in lrows:
        res.add("C09-R6", "ota:load_fw / returns the whole address span (minaddr..maxaddr) of the Intel-HEX file named by its argument", not r["problems"], "mysensors/ota.py", "IntelHex().fromfile(open(path), format='hex'); tobinstr() without a range" if not r["problems"] else "; ".join(r["problems"]), r["witness"] if r["problems"] else None)
    # firmware responses reach the node also when it sleeps (shared with C07-R2)
    from . import c07

    for summ in common.pmap(analysis, c07.router_worker, [(analysis.versions[-1], "serial", "sync")]):
        bad = [r for r in summ["stream_rows"] if not r["ok"]]
        res.add("C09-R7", "__init__:Gateway._route_message / firmware (stream) responses are never withheld or dropped by the router", bool(summ["stream_rows"]) and not bad, "mysensors/__init__.py", f"{len(summ['stream_rows'])} path(s) return the message" if not bad else "a firmware response for a sleeping node is withheld or dropped by the router", bad[0]["witness"] if bad else None)
    block_size(analysis, res)
    single_source(analysis, res)
    padding(analysis, res)
    res.need("C09-R1", 8, "packing obligations")
    res.units = {"functions": ["ota:fw_hex_to_int", "ota:fw_int_to_hex", "ota:prepare_fw", "ota:compute_crc", "ota:OTAFirmware.respond_fw", "ota:OTAFirmware.respond_fw_config"], "source_digest": analysis.p.digest()}
    res.not_decided = ["CRC-16/MODBUS value (crcmod)", "Intel-HEX record decoding inside intelhex (only which object / range load_fw converts is decided)", "concatenation equality of served blocks with the image"]
    res.trusted = ["struct / binascii semantics"]
    return res
