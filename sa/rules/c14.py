"""C14 - A clean stop loses nothing.

R1 on every path of every registry handler (all versions, MQTT/TCP overrides) a persisted
   mutation is followed by alert() before the return, and alert() marks the state dirty on
   every path (also when the callback raised) when persistence is on.
R2 both stop() methods, with persistence on, cancel the pending save if there is one and then
   call save_sensors exactly once, on every path.
R3 the dirty flag is cleared only by save_sensors, as its last effect.
"""
from __future__ import annotations

import ast
from typing import List

from ..engine import Analysis, describe_path
from ..frontend import AnalysisError, unparse
from ..report import RuleResult
from ..values import BoundV, Const, Sym, Unknown, V
from . import common, pathsum

PROP = "C14"


def specs_for(analysis: Analysis, tier: str):
    versions = analysis.versions
    fams = ["serial", "tcp", "mqtt"]
    if tier == "quick":
        return [(v, f, "sync") for v in versions for f in fams] + [(versions[-1], f, "async") for f in fams]
    return [(v, f, fl) for v in versions for f in fams for fl in ("sync", "async")]


def mutation_alert(res: RuleResult, rule: str, recs_by_ctx, also_exactly_once: bool = False) -> int:
    n = 0
    for recs in recs_by_ctx:
        for r in recs:
            if r["kind"] != "val" or not r["validated"]:
                continue
            pers = [m for m in r["muts"] if m["persisted"]]
            if not pers:
                continue
            n += 1
            last = max(m["idx"] for m in pers)
            after = [a for a in r["alerts"] if a["idx"] > last]
            handler = r["handlers"][-1] if r["handlers"] else "?"
            m = [x for x in pers if x["idx"] == last][0]
            key = f"{handler} / {m['cat']} {m['desc']} in {m['func']} followed by alert"
            res.add(rule, key, bool(after), f"{m['func']}:{m['line']}", "persisted mutation is followed by alert(msg), which marks the state dirty" if after else "a path mutates persisted state and returns without alert(): the state is not marked dirty, the next save skips it", r["witness"] if not after else None, context=r["ctx"])
    return n


def alert_root(analysis: Analysis, spec) -> dict:
    ctx = analysis.context(*spec)
    it = analysis.new_interp(ctx)
    st, gw = analysis.gateway_state(it)
    # alert() is analysed for every argument a caller could pass: further parameters (a "changed" switch ...) are
    # arbitrary here, so a path on which they turn the dirty flag off is found
    info = analysis.p.func("__init__:Gateway.alert")
    extra = [Unknown(label=f"alert.{a.arg}") for a in info.node.args.args[2:]]
    outs = analysis.run_root(it, "__init__:Gateway.alert", [Sym(("root", "msg"), ("cls", "message:Message"))] + extra, gw, st)
    rows = []
    pkey = ("attr", ("attr", ("root", "GW"), "tasks"), "persistence")
    for out in outs:
        kind, s, v = out
        dirty = any(e.kind == "store" and e.name == "need_save" and e.args and isinstance(e.args[0], Const) and e.args[0].value is True for e in s.events)
        off = ("falsy", pkey) in s.facts or ("isnone", pkey) in s.facts
        cb_raised = any(e.kind == "catch" for e in s.events)
        rows.append({"kind": kind, "dirty": dirty, "off": off, "cb_raised": cb_raised, "witness": describe_path(out)})
    return {"ctx": ctx.name, "rows": rows}


def stop_root(analysis: Analysis, spec) -> dict:
    ctx = analysis.context(*spec)
    it = analysis.new_interp(ctx)
    it.inline_skip = {"persistence:Persistence.save_sensors", "transport:Transport.disconnect", "gateway_mqtt:MQTTTransport.disconnect"}
    st, gw = analysis.gateway_state(it)
    tasks = Sym(("attr", gw.key(), "tasks"), ("cls", ctx.tasks))
    m = analysis.p.find_method(ctx.tasks, "stop")
    outs = analysis.run_root(it, m.qual, [], tasks, st)
    if m.is_async:
        # the call returned a coroutine object: await it
        res = []
        for kind, s, v in outs:
            if kind == "val" and hasattr(v, "fn"):
                res.extend(it.call_func(s, v.fn, list(v.args), v.kwargs, m.node))
            else:
                res.append((kind, s, v))
        outs = res
    rows = []
    pkey = ("attr", tasks.key(), "persistence")
    from .c15 import published_attrs

    ckeys = {("attr", tasks.key(), a) for a in published_attrs(analysis, spec[2])}
    for out in outs:
        kind, s, v = out
        if kind == "raise" and v.cls.__name__ == "CancelledError" and "just cancelled" not in (v.what or ""):
            continue  # cancellation of stop() itself is not judged
        saves = [i for i, e in enumerate(s.events) if e.kind == "opaque" and e.name == "persistence:Persistence.save_sensors"]
        cancels = [i for i, e in enumerate(s.events) if e.kind in ("call", "await") and isinstance(e.recv, V) and e.recv.key() in ckeys]
        disconnects = [i for i, e in enumerate(s.events) if e.kind == "opaque" and e.name.endswith(".disconnect")]
        stops = [i for i, e in enumerate(s.events) if e.kind == "call" and e.name.endswith("Event.set")]
        task_cancels = [i for i, e in enumerate(s.events) if e.kind == "call" and e.name == "asyncio.Task.cancel"]
        on = ("truthy", pkey) in s.facts
        has_cancel = any(("notnone", ckey) in s.facts or ("truthy", ckey) in s.facts for ckey in ckeys)
        rows.append({"kind": kind, "on": on, "saves": saves, "cancels": cancels, "has_cancel": has_cancel, "disconnects": disconnects, "stops": stops, "task_cancels": task_cancels, "witness": describe_path(out, 20), "exc": v.cls.__name__ if kind == "raise" else None})
    return {"ctx": ctx.name, "qual": m.qual, "rows": rows}


def flag_writers(analysis: Analysis, res: RuleResult) -> None:
    n_false = 0
    for mod in common.core_modules(analysis):
        for node in ast.walk(mod.tree):
            if isinstance(node, ast.Assign):
                for t in node.targets:
                    if isinstance(t, ast.Attribute) and t.attr == "need_save":
                        fn = common.func_of_node(analysis, mod, node)
                        val = node.value
                        is_true = isinstance(val, ast.Constant) and val.value is True
                        if is_true:
                            continue
                        n_false += 1
                        ok = common.owned_by(analysis, fn, {"persistence:Persistence.save_sensors"}) and isinstance(val, ast.Constant) and val.value is False
                        res.add("C14-R3", f"{fn} / {unparse(node)}", ok, common.where(analysis, mod, node), "the dirty flag is cleared only by save_sensors (where on its paths is judged below)" if ok else "the dirty flag is cleared (or set to a computed value) outside save_sensors: a later save may be skipped although state changed")
    if n_false < 1:
        raise AnalysisError("C14-R3: no store clearing need_save found (anchor vanished)")
    # where the flag is cleared on the paths of a save (once, before the state is read; set again when the save
    # fails; untouched when the save is skipped) and that the early return tests only the flag
    from . import c12, persist

    info = analysis.p.func("persistence:Persistence.save_sensors")
    body = info.node.body
    stmts = [s for s in body if not (isinstance(s, ast.Expr) and isinstance(s.value, ast.Constant))]
    sub = RuleResult(res.prop)
    persist.check_dispatch_shape(analysis)
    for summ in common.pmap(analysis, c12.save_worker, [(e, (analysis.versions[-1], "serial", "sync")) for e in persist.EXTS]):
        c12.analyse_save_rows(sub, summ)
    for o in sub.obs:
        if any(t in o.construct for t in ("dirty flag", "marked unsaved", "a save is skipped only", "a lock taken by the save", "does not modify the live state", "directory tested for writability")):
            res.add("C14-R3", o.construct, o.ok, o.where, o.detail, o.witness)
    first = stmts[0]
    ok_first = isinstance(first, ast.If) and unparse(first.test) in ("not self.need_save",) and all(isinstance(s, ast.Return) for s in first.body)
    res.add("C14-R3", "persistence:Persistence.save_sensors / the skip test reads only the dirty flag", ok_first, common.where(analysis, info, first), "`if not self.need_save: return`" if ok_first else f"first statement is `{unparse(first)[:60]}`")


def pump_worker(analysis: Analysis, _spec) -> dict:
    """The threaded pump: does every job it takes follow a fresh test of the stop event?"""
    from .c01 import SEND_QUALS

    ctx = analysis.context(analysis.versions[-1], "serial", "sync")
    it = analysis.new_interp(ctx)
    st, gw = analysis.gateway_state(it)
    tasks = Sym(("attr", gw.key(), "tasks"), ("cls", ctx.tasks))
    it.inline_skip = set(SEND_QUALS)
    qkey = ("attr", tasks.key(), "queue")
    bad = []
    n = 0
    for out in analysis.run_root(it, "task:SyncTasks._poll_queue", [], tasks, st):
        kind, s, v = out
        checked = False
        for e in s.events:
            if e.kind == "call" and e.name.endswith("Event.is_set"):
                checked = True
            elif e.kind in ("seqpop", "dictpop") and isinstance(e.recv, V) and e.recv.key() == qkey:
                n += 1
                if not checked:
                    bad.append(describe_path(out, 14))
                checked = False
    return {"pops": n, "bad": bad[:2]}


def pump_stops(analysis: Analysis, res: RuleResult, rule: str) -> None:
    """After stop() the pump takes no further job: each job it takes follows a test of the stop event (a job
    run after the final save - e.g. an id request answered over MQTT, whose disconnect is a no-op - is lost)."""
    pw = common.pmap(analysis, pump_worker, ["x"])[0]
    res.add(rule, "task:SyncTasks._poll_queue / every job taken from the queue follows a fresh test of the stop event", pw["pops"] > 0 and not pw["bad"], "mysensors/task.py", f"{pw['pops']} pop events, each after is_set()" if not pw["bad"] else "a job is taken without re-testing the stop event (e.g. `while self.queue or not stopped`): jobs queued at stop() still run after the final save", pw["bad"][0] if pw["bad"] else None)
    # stop is final: nothing clears the stop event again. stop() leaves the job queue as it is, so a pump revived on
    # the same object would send what was queued before the stop - after the final save, outside any wake-up burst
    mod = analysis.p.modules["task"]
    # the stop event = whatever attribute the pump loop tests with is_set()
    pump = analysis.p.func("task:SyncTasks._poll_queue")
    ev_attrs = {n.func.value.attr for n in ast.walk(pump.node) if isinstance(n, ast.Call) and isinstance(n.func, ast.Attribute) and n.func.attr == "is_set" and isinstance(n.func.value, ast.Attribute)}
    clears = [n for n in ast.walk(mod.tree) if isinstance(n, ast.Call) and isinstance(n.func, ast.Attribute) and n.func.attr == "clear" and isinstance(n.func.value, ast.Attribute) and n.func.value.attr in ev_attrs]
    for n in clears:
        res.add(rule, f"{common.func_of_node(analysis, mod, n)} / {unparse(n)}", False, common.where(analysis, mod, n), "the stop event is cleared again: jobs left in the queue at stop() (stop does not drain it) are sent by the revived pump - after the final save and, for a smart sleep node, outside its wake-up burst")
    res.add(rule, "task / the stop event is one-shot (never cleared)", not clears, "mysensors/task.py", "no clear() of the stop event")


def alert_and_stop(analysis: Analysis, res: RuleResult, r1: str = "C14-R1", r2: str = "C14-R2") -> None:
    """Every path through alert() marks the state dirty; stop() disconnects, cancels the pending save, saves once."""
    alert_specs = [(analysis.versions[-1], f, fl) for f in ("serial", "mqtt") for fl in ("sync", "async")]
    for summ in common.pmap(analysis, alert_root, alert_specs):
        rows = summ["rows"]
        if len(rows) < 3:
            raise AnalysisError("C14-R1: fewer than 3 paths through Gateway.alert")
        for r in rows:
            if r["kind"] != "val":
                res.add(r1, "__init__:Gateway.alert / returns normally", False, "mysensors/__init__.py", "alert() can raise", r["witness"], context=summ["ctx"])
                continue
            ok = r["dirty"] or r["off"]
            what = "callback raised" if r["cb_raised"] else "normal"
            res.add(r1, f"__init__:Gateway.alert / marks dirty on the path: {what}", ok, "mysensors/__init__.py", "need_save = True stored (or persistence is off)" if ok else "a path through alert() with persistence on does not store need_save = True", r["witness"] if not ok else None, context=summ["ctx"])
    stop_specs = [(analysis.versions[-1], "serial", "sync"), (analysis.versions[-1], "serial", "async"), (analysis.versions[-1], "mqtt", "sync"), (analysis.versions[-1], "mqtt", "async")]
    for summ in common.pmap(analysis, stop_root, stop_specs):
        q = summ["qual"]
        on_rows = [r for r in summ["rows"] if r["on"]]
        if not on_rows:
            res.add(r2, f"{q} / saves exactly once when persistence is on", False, "mysensors/task.py", "no path through stop() with persistence on reaches the final save", context=summ["ctx"])
        for r in summ["rows"]:
            if r["kind"] == "raise":
                res.add(r2, f"{q} / returns normally", False, "mysensors/task.py", f"stop() can raise {r['exc']}", r["witness"], context=summ["ctx"])
        for r in on_rows:
            if r["kind"] != "val":
                continue
            ok_save = len(r["saves"]) == 1
            res.add(r2, f"{q} / saves exactly once when persistence is on", ok_save, "mysensors/task.py", "one save_sensors call on the path" if ok_save else f"{len(r['saves'])} save_sensors calls on a path with persistence on", r["witness"] if not ok_save else None, context=summ["ctx"])
            if r["has_cancel"]:
                ok_c = len(r["cancels"]) >= 1 and ok_save and max(r["cancels"]) < r["saves"][0]
                res.add(r2, f"{q} / pending save is cancelled before the final save", ok_c, "mysensors/task.py", "cancel call precedes save_sensors" if ok_c else "a pending scheduled save is not cancelled before the final save", r["witness"] if not ok_c else None, context=summ["ctx"])
            if ok_save:
                ok_d = bool(r["disconnects"]) and min(r["disconnects"]) < r["saves"][0]
                res.add(r2, f"{q} / disconnects before the final save", ok_d, "mysensors/task.py", "transport.disconnect() precedes save_sensors" if ok_d else "the final save runs while the transport is still connected: a message may land after the save", context=summ["ctx"])


def run(analysis: Analysis, tier: str) -> RuleResult:
    res = RuleResult(PROP)
    res.explanation = [
        "C14-R1: on every abstract path through Gateway.logic (all handlers, per version / family / flavour) a classified persisted mutation (sa/effects.py, derived from the JSON encoder) is followed by alert(); every path through alert() stores need_save = True unless persistence is off, including the path where the callback raised.",
        "C14-R2: every path through SyncTasks.stop / AsyncTasks.stop with persistence on cancels a pending save and then calls save_sensors exactly once, after disconnecting.",
        "C14-R3: need_save is cleared only in save_sensors - once, before the state is read, set again on every failing path, untouched by a skipped save (the C12 save-path clauses of this run); the skip test reads only the flag.",
    ]
    specs = specs_for(analysis, tier)
    recs = common.pmap(analysis, pathsum.logic_records, specs)
    res.contexts = ["/".join(s) for s in specs]
    n = mutation_alert(res, "C14-R1", recs)
    if n < 20:
        raise AnalysisError(f"C14-R1: only {n} mutating paths found (expected at least 20)")
    alert_and_stop(analysis, res)
    pump_stops(analysis, res, "C14-R2")
    from . import c07

    c07.hold_queue_plain(analysis, res, "C14-R2")
    flag_writers(analysis, res)
    res.assumptions = ["persisted projection = keys of the JSON encoder's dict literals + insertions into the node/child maps", "external raise model sa/extmodel.py"]
    res.not_decided = ["the cross-thread window between the end of serialisation and the flag store"]
    res.units = {"contexts": len(specs), "paths": sum(len(r) for r in recs), "mutating_paths": n, "source_digest": analysis.p.digest()}
    res.trusted = ["sa/effects.py classification", "sa/extmodel.py"]
    return res
