"""C17 - MQTT topics and commands map one-to-one (structural clauses).

R1 mapping agreement: command -> topic renders exactly the five header fields in frame order
   with '/' (the C02 frame template), carries the payload separately and returns ack as QoS;
   topic -> command takes exactly the last five levels in the same order, overwrites level 4
   (ack) with "1" iff QoS > 0 and appends the payload.
R2 suffix-anchored prefix recovery: the prefix is everything before the last five levels,
   computed positionally from the split; no first-occurrence search on the topic; topics with
   fewer levels reach `return None`; the recovered prefix is compared with the configured one.
R3 subscription families: every handle_subscription call passes templates with exactly five
   levels; the initial set names the numeric values of presentation and internal; the per-child
   family {set, req} x child + stream x node is generated identically for restored children
   (init_topics) and new children (_handle_presentation), the latter only after an accepted
   child presentation.
R4 publish / subscribe callbacks are isolated (nothing escapes send / handle_subscription).
"""
from __future__ import annotations

import ast
from typing import List

from ..engine import Analysis, describe_path
from ..frontend import AnalysisError, unparse
from ..report import RuleResult
from ..values import Const, Sym, V
from . import common
from .c02 import encode_template

PROP = "C17"
TO_MQTT = "gateway_mqtt:BaseMQTTGateway.parse_message_to_mqtt"
TO_MSG = "gateway_mqtt:BaseMQTTGateway.parse_mqtt_to_message"


def to_mqtt_rule(analysis: Analysis, res: RuleResult) -> None:
    info = analysis.p.func(TO_MQTT)
    w = common.where(analysis, info, info.node)
    ret = [n for n in ast.walk(info.node) if isinstance(n, ast.Return) and n.value is not None]
    if len(ret) != 1 or not isinstance(ret[0].value, ast.Tuple) or len(ret[0].value.elts) != 3:
        raise AnalysisError(f"C17-R1: {TO_MQTT} does not return a (topic, payload, qos) tuple in a recognised form")
    topic, payload, qos = ret[0].value.elts
    txt = unparse(topic)
    mvar = None
    for n in ast.walk(info.node):
        if isinstance(n, ast.Assign) and isinstance(n.value, ast.Call) and isinstance(n.value.func, ast.Name) and n.value.func.id == "Message" and isinstance(n.targets[0], ast.Name):
            mvar = n.targets[0].id
    if mvar is None:
        raise AnalysisError(f"C17-R1: {TO_MQTT} does not decode the command with Message(...)")
    # topic = "/" + encode('/') with the payload emptied, minus the trailing "/\n"
    uses_codec = "encode('/')" in txt
    res.add("C17-R1", f"{TO_MQTT} / topic is the frame template rendered with '/'", uses_codec, w, txt)
    _enc, templ, _n = encode_template(analysis)
    tail_len = len(templ["tail"]) + 1  # the separator before the (emptied) payload + the terminator
    sl = topic if isinstance(topic, ast.Subscript) else None
    ok_slice = sl is not None and isinstance(sl.slice, ast.Slice) and sl.slice.lower is None and unparse(sl.slice.upper) == f"-{tail_len}"
    res.add("C17-R1", f"{TO_MQTT} / exactly the separator of the emptied payload and the terminator are cut off", ok_slice, w, f"slice {unparse(sl.slice) if sl is not None else None}; frame tail {templ['tail']!r}")
    lead = isinstance(sl.value if sl is not None else None, ast.JoinedStr) and isinstance(sl.value.values[0], ast.Constant) and sl.value.values[0].value == "/"
    res.add("C17-R1", f"{TO_MQTT} / topic starts with the level separator", bool(lead), w, "f\"/{...}\"")
    # payload saved before it is cleared; cleared before encoding
    body = info.node.body
    save_i = clear_i = None
    pay_name = unparse(payload)
    for i, s in enumerate(body):
        if isinstance(s, ast.Assign) and unparse(s.targets[0]) == pay_name and f"{mvar}.payload" in unparse(s.value):
            save_i = i
        if isinstance(s, ast.Assign) and unparse(s.targets[0]) == f"{mvar}.payload" and isinstance(s.value, ast.Constant) and s.value.value == "":
            clear_i = i
    ok = save_i is not None and clear_i is not None and save_i < clear_i
    res.add("C17-R1", f"{TO_MQTT} / payload is carried separately (saved, then cleared before rendering)", ok, w, f"saved at statement {save_i}, cleared at {clear_i}")
    res.add("C17-R1", f"{TO_MQTT} / QoS is the message's ack flag", unparse(qos) == f"{mvar}.ack", w, unparse(qos))
    parses = any(isinstance(c.func, ast.Name) and c.func.id == "Message" for c in common.calls_in(info.node))
    res.add("C17-R1", f"{TO_MQTT} / the command string is decoded by the wire codec", parses, w, "Message(data, self)")


def to_msg_worker(analysis: Analysis, spec) -> dict:
    ctx = analysis.context(analysis.versions[-1], "mqtt", "sync")
    it = analysis.new_interp(ctx)
    st, gw = analysis.gateway_state(it)
    topic = Sym(("root", "topic"), "str")
    payload = Sym(("root", "payload"), None)
    qos = Sym(("root", "qos"), "int", nullable=True)
    outs = analysis.run_root(it, TO_MSG, [topic, payload, qos], gw, st)
    rows = []
    for out in outs:
        kind, s, v = out
        if kind == "raise":
            rows.append({"kind": kind, "exc": f"{v.cls.__name__}: {v.what}", "witness": describe_path(out)})
            continue
        none = isinstance(v, Const) and v.value is None
        stores = [e for e in s.events if e.kind == "setitem" and e.func == TO_MSG]
        appends = [e for e in s.events if e.kind == "append" and e.func == TO_MSG]
        joins = [e for e in s.events if e.kind == "call" and e.name == "str.join" and e.func == TO_MSG]
        splits = [e for e in s.events if e.kind == "call" and e.name == "str.split" and e.func == TO_MSG]
        finds = [e for e in s.events if e.kind == "call" and e.name in ("str.find",) and e.func == TO_MSG]
        zero = ("c", "int", 0)
        one = ("c", "int", 1)

        def cmpfact(op, const, truth):
            return any(f[0] == "atom" and f[1][0] == "cmp" and f[1][1] == op and f[1][2] == qos.key() and f[1][3] == const and f[2] is truth for f in s.facts)

        qos_pos = cmpfact("Gt", zero, True) or cmpfact("GtE", one, True)
        qos_known_nonpos = cmpfact("Gt", zero, False) or cmpfact("GtE", one, False) or ("falsy", qos.key()) in s.facts or ("isnone", qos.key()) in s.facts
        ack = None
        for e in stores:
            if isinstance(e.args[0], Const) and e.args[0].value == 3 and isinstance(e.args[1], Const):
                ack = e.args[1].value
        final_join = joins[-1] if joins else None
        join_sep = final_join.recv.value if final_join is not None and isinstance(final_join.recv, Const) else None
        joined = final_join.args[0] if final_join is not None and final_join.args else None
        minlen = None
        guard5 = any(f[0] == "atom" and f[1][0] == "cmp" and f[1][1] in ("Lt", "GtE") for f in s.facts)
        eq_prefix = any(f[0] == "atom" and f[1][0] == "eq" and "in_prefix" in repr(f[1]) for f in s.facts)
        eq_truth = [f[2] for f in s.facts if f[0] == "atom" and f[1][0] == "eq" and "in_prefix" in repr(f[1])]
        appended_payload = any("payload" in repr(e.args[0].key()) for e in appends if e.args)
        rows.append({"kind": kind, "none": none, "ack": ack, "qos_pos": qos_pos, "qos_nonpos": qos_known_nonpos, "join_sep": join_sep, "levels_src": repr(joined.key())[:200] if isinstance(joined, V) else None, "guard": guard5, "prefix_cmp": eq_prefix, "prefix_equal": (True in eq_truth), "prefix_neq": (False in eq_truth), "append_payload": appended_payload, "nsplit": len(splits), "finds": len(finds), "witness": describe_path(out, 18)})
    return {"rows": rows}


def to_msg_ast(analysis: Analysis, res: RuleResult) -> None:
    info = analysis.p.func(TO_MSG)
    w = common.where(analysis, info, info.node)
    bad = []
    for c in common.calls_in(info.node):
        if isinstance(c.func, ast.Attribute) and c.func.attr in ("find", "index", "rfind", "rindex", "partition", "rpartition", "replace", "lstrip", "removeprefix"):
            bad.append(unparse(c)[:60])
        if isinstance(c.func, ast.Attribute) and c.func.attr in ("split", "rsplit") and (len(c.args) > 1 or c.keywords):
            bad.append(unparse(c)[:60])
    res.add("C17-R2", f"{TO_MSG} / no first-occurrence search on the topic (prefix may look like message levels)", not bad, w, "prefix recovered positionally" if not bad else f"search-based prefix recovery: {bad}")
    txt = unparse(info.node)
    pos = "[:-5]" in txt and "'/'.join(" in txt
    res.add("C17-R2", f"{TO_MSG} / prefix is everything before the last five levels", pos, w, "\"/\".join(topic_levels[:-5])")
    last5 = "[-5:]" in txt
    res.add("C17-R1", f"{TO_MSG} / the command is built from exactly the last five levels", last5, w, "topic_levels[-5:]")


def subscriptions(analysis: Analysis, res: RuleResult) -> None:
    p = analysis.p
    init = p.func("gateway_mqtt:BaseMQTTGateway.init_topics")
    pres = p.func("gateway_mqtt:BaseMQTTGateway._handle_presentation")

    def templates(info) -> List[dict]:
        out = []
        nodes = list(ast.walk(info.node))
        # string templates kept in module-level constants referenced by the function
        for n in list(nodes):
            if isinstance(n, ast.Name) and n.id in info.module.assigns and isinstance(info.module.assigns[n.id], (ast.Tuple, ast.List)):
                nodes.extend(ast.walk(info.module.assigns[n.id]))
        for n in nodes:
            if isinstance(n, ast.JoinedStr):
                lits = [v.value for v in n.values if isinstance(v, ast.Constant)]
                vals = [unparse(v.value) for v in n.values if isinstance(v, ast.FormattedValue)]
                out.append({"lit": lits, "vals": vals, "text": unparse(n), "levels": "".join(lits).count("/"), "node": n})
            elif isinstance(n, ast.Constant) and isinstance(n.value, str) and n.value.startswith("/") and n.value.count("/") >= 3:
                out.append({"lit": [n.value], "vals": [], "text": repr(n.value), "levels": n.value.count("/"), "node": n})
        return out

    t_init, t_pres = templates(init), templates(pres)
    for info, ts in ((init, t_init), (pres, t_pres)):
        for t in ts:
            res.add("C17-R3", f"{info.qual} / template {t['text'][:60]} has exactly five levels", t["levels"] == 5, common.where(analysis, info, t["node"]), f"{t['levels']} separators")
    # initial set: presentation and internal by numeric value, for every version
    consts = [t for t in t_init if not t["vals"]]
    got = set()
    for t in consts:
        parts = t["lit"][0].split("/")
        if len(parts) == 6 and parts[3].isdigit():
            got.add(int(parts[3]))
            res.add("C17-R3", f"{init.qual} / initial template {t['lit'][0]} subscribes every node, child, ack and sub-type", parts[1] == parts[2] == parts[4] == parts[5] == "+", common.where(analysis, init, t["node"]), "wildcards")
    for ver, c in analysis.refl["consts"].items():
        mt = {n: v for n, v in c["enums"]["MessageType"]["members"]}
        want = {mt.get("presentation"), mt.get("internal")}
        res.add("C17-R3", f"{ver}: the initial subscriptions cover presentation and internal", want <= got, common.where(analysis, init, init.node), f"type levels subscribed {sorted(got)}, needed {sorted(want)}")

    def family(ts):
        fam = []
        for t in ts:
            if not t["vals"]:
                continue
            shape = tuple(t["lit"])
            kinds = []
            for v in t["vals"]:
                if "stream" in v:
                    kinds.append("stream")
                elif v == "msg_type" or v.endswith("_type") or v == "command":
                    kinds.append("msg_type")
                elif "child" in v:
                    kinds.append("child")
                elif "node_id" in v or "sensor_id" in v:
                    kinds.append("node")
                else:
                    kinds.append("?" + v)
            fam.append((shape, tuple(kinds)))
        return sorted(fam)

    f_init, f_pres = family(t_init), family(t_pres)
    res.add("C17-R3", "per-child subscription family is generated identically for restored and for new children", f_init == f_pres and len(f_init) == 2, common.where(analysis, pres, pres.node), f"init_topics {f_init}; _handle_presentation {f_pres}")

    def msg_types(info):
        for n in ast.walk(info.node):
            if isinstance(n, (ast.comprehension, ast.For)) and isinstance(n.target, ast.Name) and isinstance(n.iter, (ast.Tuple, ast.List)) and all("MessageType" in unparse(e) for e in n.iter.elts) and n.iter.elts:
                return sorted(unparse(e).split(".")[-1].rstrip(")") for e in n.iter.elts)
        return None

    mi, mp = msg_types(init), msg_types(pres)
    res.add("C17-R3", "per-child topics cover set and req", mi == mp == ["req", "set"], common.where(analysis, pres, pres.node), f"init {mi}; presentation {mp}")
    # only after an accepted child presentation
    guard = None
    for n in pres.node.body:
        if isinstance(n, ast.If) and any(isinstance(x, ast.Return) for x in n.body):
            guard = unparse(n.test)
    ok = guard is not None and "255" in guard.replace("SYSTEM_CHILD_ID", "255") and "is None" in guard
    res.add("C17-R3", f"{pres.qual} / subscribes only after an accepted child presentation", ok, common.where(analysis, pres, pres.node), f"guard `{guard}`")
    calls_base = any(isinstance(c.func, ast.Name) and c.func.id == "handle_presentation" for c in common.calls_in(pres.node))
    res.add("C17-R3", f"{pres.qual} / delegates to the shared presentation handler", calls_base, common.where(analysis, pres, pres.node), "handle_presentation(msg)")
    # restored children only when persistence is on; every call site passes lists built from these templates
    n_calls = sum(1 for m in (init, pres) for _ in common.calls_in(m.node, "handle_subscription"))
    res.add("C17-R3", "three subscription call sites", n_calls == 3, "mysensors/gateway_mqtt.py", f"{n_calls} call sites of handle_subscription")


def isolation_worker(analysis: Analysis, spec) -> dict:
    ctx = analysis.context(analysis.versions[-1], "mqtt", spec)
    it = analysis.new_interp(ctx)
    st, gw = analysis.gateway_state(it)
    tr = Sym(("root", "TR"), ("cls", ctx.transport))
    st.mem[(tr.key(), "a", "gateway")] = gw
    from ..values import ListV, Unknown

    elem = Unknown("str", label="topic-template")
    elem.minsep = {"/": 5}
    topics = ListV(None, elem=elem, label="topics")
    outs = analysis.run_root(it, "gateway_mqtt:MQTTTransport.handle_subscription", [topics], tr, st)
    esc = [f"{v.cls.__name__}: {v.what}" for k, s, v in outs if k == "raise"]
    cbs = sum(1 for k, s, v in outs for e in s.events if e.kind == "cb")
    prefixed = all(any(e.kind == "cb" and e.args and "in_prefix" in repr(e.args[0].key()) for e in s.events) or not any(e.kind == "cb" for e in s.events) for k, s, v in outs)
    recv_cb = all(all(len(e.args) >= 2 and "recv" in repr(e.args[1].key()) for e in s.events if e.kind == "cb") for k, s, v in outs)
    # one requested topic (the non-list form): every path must hand exactly that topic to the callback
    it2 = analysis.new_interp(ctx)
    st2, gw2 = analysis.gateway_state(it2)
    st2.mem[(tr.key(), "a", "gateway")] = gw2
    one = Sym(("root", "topic"), "str")
    one.minsep = {"/": 5}
    skipped = []
    n_one = 0
    for k, s2, v in analysis.run_root(it2, "gateway_mqtt:MQTTTransport.handle_subscription", [one], tr, st2):
        if k != "val":
            continue
        n_one += 1
        hits = [e for e in s2.events if e.kind == "cb" and e.args and "'topic'" in repr(e.args[0].key())]
        if len(hits) != 1:
            skipped.append(describe_path((k, s2, v), 14))
    return {"flavour": spec, "escapes": esc, "cbs": cbs, "prefixed": prefixed, "recv_cb": recv_cb, "one_paths": n_one, "skipped": skipped}


def run(analysis: Analysis, tier: str) -> RuleResult:
    res = RuleResult(PROP)
    res.explanation = [
        "R1 the two mapping functions agree with the C02 frame template: command -> topic renders the five header fields with '/', payload carried separately, QoS = ack; every abstract path of topic -> command that returns a command takes the last five levels, stores \"1\" at level 4 exactly when QoS > 0 (else \"0\"), appends the payload and joins with ';';",
        "R2 the prefix is recovered positionally (no first-occurrence search), short topics return None before any constant subscript, the prefix is compared with the configured one; R3 subscription templates have five levels, cover presentation and internal by their numeric values in every version, and the per-child family is generated identically for restored and new children, only after an accepted child presentation; R4 the subscribe callback is isolated.",
        "Broker-side wildcard semantics and payload fidelity for every MQTT payload are not decided.",
    ]
    to_mqtt_rule(analysis, res)
    to_msg_ast(analysis, res)
    for summ in common.pmap(analysis, to_msg_worker, ["x"]):
        rows = summ["rows"]
        accepted = [r for r in rows if r["kind"] == "val" and not r["none"]]
        rejected = [r for r in rows if r["kind"] == "val" and r["none"]]
        for r in rows:
            if r["kind"] == "raise":
                res.add("C17-R2", f"{TO_MSG} / short or odd topics are rejected, not raised", False, "mysensors/gateway_mqtt.py", r["exc"], r["witness"])
        if not accepted or not rejected:
            res.add("C17-R2", f"{TO_MSG} / accepts the configured prefix followed by five levels and rejects everything else", False, "mysensors/gateway_mqtt.py", f"{len(accepted)} accepting and {len(rejected)} rejecting paths")
        for r in accepted:
            ok_ack = (r["ack"] == "1" and r["qos_pos"]) or (r["ack"] == "0" and r["qos_nonpos"])
            res.add("C17-R1", f"{TO_MSG} / level 4 (ack) is \"1\" exactly when QoS > 0", ok_ack, "mysensors/gateway_mqtt.py", f"ack {r['ack']!r} with qos>0 known {r['qos_pos']}, qos<=0/None known {r['qos_nonpos']}", r["witness"] if not ok_ack else None)
            res.add("C17-R1", f"{TO_MSG} / the payload is appended and the fields joined with ';'", r["append_payload"] and r["join_sep"] == ";", "mysensors/gateway_mqtt.py", f"separator {r['join_sep']!r}", r["witness"] if not (r["append_payload"] and r["join_sep"] == ";") else None)
            res.add("C17-R2", f"{TO_MSG} / a command is produced only when the recovered prefix equals the configured inbound prefix", r["prefix_equal"], "mysensors/gateway_mqtt.py", "prefix == transport.in_prefix on the accepting path", r["witness"] if not r["prefix_equal"] else None)
            res.add("C17-R2", f"{TO_MSG} / a length guard dominates the level accesses", r["guard"], "mysensors/gateway_mqtt.py", "len(topic_levels) compared before slicing", r["witness"] if not r["guard"] else None)
        res.add("C17-R2", f"{TO_MSG} / a wrong prefix is rejected", any(r["prefix_neq"] for r in rejected), "mysensors/gateway_mqtt.py", "a rejecting path on prefix mismatch exists")
    subscriptions(analysis, res)
    for summ in common.pmap(analysis, isolation_worker, ["sync", "async"]):
        res.add("C17-R4", "gateway_mqtt:MQTTTransport.handle_subscription / a raising subscribe callback never escapes", not summ["escapes"], "mysensors/gateway_mqtt.py", "; ".join(summ["escapes"][:2]) or "caught and logged", context=summ["flavour"])
        res.add("C17-R4", "gateway_mqtt:MQTTTransport.handle_subscription / subscribes the inbound prefix + template with recv as callback", summ["cbs"] > 0 and summ["prefixed"] and summ["recv_cb"], "mysensors/gateway_mqtt.py", f"{summ['cbs']} callback events", context=summ["flavour"])
        ok1 = summ["one_paths"] > 0 and not summ["skipped"]
        res.add("C17-R3", "gateway_mqtt:MQTTTransport.handle_subscription / every requested topic is handed to the subscribe callback, exactly once", ok1, "mysensors/gateway_mqtt.py", f"{summ['one_paths']} paths for a single requested topic" if ok1 else "a path returns without passing the requested topic to the subscribe callback (e.g. skipped as already subscribed: a failed or forgotten subscription is never retried)", summ["skipped"][0] if summ["skipped"] else None, context=summ["flavour"])
    res.need("C17-R3", 8, "subscription obligations")
    res.units = {"functions": [TO_MQTT, TO_MSG, "gateway_mqtt:BaseMQTTGateway.init_topics", "gateway_mqtt:BaseMQTTGateway._handle_presentation", "gateway_mqtt:MQTTTransport.handle_subscription"], "source_digest": analysis.p.digest()}
    res.not_decided = ["broker-side wildcard semantics", "payload fidelity for every MQTT payload", "value-level round trip of topic <-> command"]
    res.trusted = ["C02 frame template", "sa/extmodel.py"]
    return res
