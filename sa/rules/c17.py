"""C17 - MQTT topics and commands map one-to-one (structural clauses).

R1 mapping agreement: command -> topic renders exactly the five header fields in frame order
   with '/' (the C02 frame template), carries the payload separately and returns ack as QoS;
   topic -> command takes exactly the last five levels in the same order, overwrites level 4
   (ack) with "1" iff QoS > 0 and appends the payload.
R2 suffix-anchored prefix recovery: the prefix is everything before the last five levels,
   computed positionally from the split; no first-occurrence search on the topic; topics with
   fewer levels reach `return None`; the recovered prefix is compared with the configured one.
R3 subscription families: every handle_subscription call passes templates with exactly five
   levels; the initial set names the numeric values of presentation and internal; the per-child
   family {set, req} x child + stream x node is generated identically for restored children
   (init_topics) and new children (_handle_presentation), the latter only after an accepted
   child presentation.
R4 publish / subscribe callbacks are isolated (nothing escapes send / handle_subscription).
"""
from __future__ import annotations

import ast
from typing import List

from ..engine import Analysis, describe_path
from ..frontend import AnalysisError, unparse
from ..report import RuleResult
from ..values import Const, ListV, Sym, V
from . import common
from .c02 import encode_template

PROP = "C17"
TO_MQTT = "gateway_mqtt:BaseMQTTGateway.parse_message_to_mqtt"
TO_MSG = "gateway_mqtt:BaseMQTTGateway.parse_mqtt_to_message"


def to_mqtt_rule(analysis: Analysis, res: RuleResult) -> None:
    info = analysis.p.func(TO_MQTT)
    w = common.where(analysis, info, info.node)
    ret = [n for n in ast.walk(info.node) if isinstance(n, ast.Return) and n.value is not None]
    if len(ret) != 1 or not isinstance(ret[0].value, ast.Tuple) or len(ret[0].value.elts) != 3:
        raise AnalysisError(f"C17-R1: {TO_MQTT} does not return a (topic, payload, qos) tuple in a recognised form")
    topic, payload, qos = ret[0].value.elts
    txt = unparse(topic)
    mvar = None
    for n in ast.walk(info.node):
        if isinstance(n, ast.Assign) and isinstance(n.value, ast.Call) and isinstance(n.value.func, ast.Name) and n.value.func.id == "Message" and isinstance(n.targets[0], ast.Name):
            mvar = n.targets[0].id
    if mvar is None:
        raise AnalysisError(f"C17-R1: {TO_MQTT} does not decode the command with Message(...)")
    # topic = "/" + encode('/') with the payload emptied, minus the trailing "/\n"
    uses_codec = "encode('/')" in txt
    res.add("C17-R1", f"{TO_MQTT} / topic is the frame template rendered with '/'", uses_codec, w, txt)
    _enc, templ, _n = encode_template(analysis)
    tail_len = len(templ["tail"]) + 1  # the separator before the (emptied) payload + the terminator
    sl = topic if isinstance(topic, ast.Subscript) else None
    ok_slice = sl is not None and isinstance(sl.slice, ast.Slice) and sl.slice.lower is None and unparse(sl.slice.upper) == f"-{tail_len}"
    res.add("C17-R1", f"{TO_MQTT} / exactly the separator of the emptied payload and the terminator are cut off", ok_slice, w, f"slice {unparse(sl.slice) if sl is not None else None}; frame tail {templ['tail']!r}")
    lead = isinstance(sl.value if sl is not None else None, ast.JoinedStr) and isinstance(sl.value.values[0], ast.Constant) and sl.value.values[0].value == "/"
    res.add("C17-R1", f"{TO_MQTT} / topic starts with the level separator", bool(lead), w, "f\"/{...}\"")
    # payload saved before it is cleared; cleared before encoding
    body = info.node.body
    save_i = clear_i = None
    pay_name = unparse(payload)
    for i, s in enumerate(body):
        if isinstance(s, ast.Assign) and unparse(s.targets[0]) == pay_name and f"{mvar}.payload" in unparse(s.value):
            save_i = i
        if isinstance(s, ast.Assign) and unparse(s.targets[0]) == f"{mvar}.payload" and isinstance(s.value, ast.Constant) and s.value.value == "":
            clear_i = i
    ok = save_i is not None and clear_i is not None and save_i < clear_i
    res.add("C17-R1", f"{TO_MQTT} / payload is carried separately (saved, then cleared before rendering)", ok, w, f"saved at statement {save_i}, cleared at {clear_i}")
    res.add("C17-R1", f"{TO_MQTT} / QoS is the message's ack flag", unparse(qos) == f"{mvar}.ack", w, unparse(qos))
    parses = any(isinstance(c.func, ast.Name) and c.func.id == "Message" for c in common.calls_in(info.node))
    res.add("C17-R1", f"{TO_MQTT} / the command string is decoded by the wire codec", parses, w, "Message(data, self)")


def to_msg_worker(analysis: Analysis, spec) -> dict:
    ctx = analysis.context(analysis.versions[-1], "mqtt", "sync")
    it = analysis.new_interp(ctx)
    st, gw = analysis.gateway_state(it)
    topic = Sym(("root", "topic"), "str")
    payload = Sym(("root", "payload"), None)
    qos = Sym(("root", "qos"), "int", nullable=True)
    outs = analysis.run_root(it, TO_MSG, [topic, payload, qos], gw, st)
    rows = []
    for out in outs:
        kind, s, v = out
        if kind == "raise":
            rows.append({"kind": kind, "exc": f"{v.cls.__name__}: {v.what}", "witness": describe_path(out)})
            continue
        none = isinstance(v, Const) and v.value is None
        stores = [e for e in s.events if e.kind == "setitem" and e.func == TO_MSG]
        appends = [e for e in s.events if e.kind == "append" and e.func == TO_MSG]
        joins = [e for e in s.events if e.kind == "call" and e.name == "str.join" and e.func == TO_MSG]
        splits = [e for e in s.events if e.kind == "call" and e.name == "str.split" and e.func == TO_MSG]
        finds = [e for e in s.events if e.kind == "call" and e.name in ("str.find",) and e.func == TO_MSG]
        zero = ("c", "int", 0)
        one = ("c", "int", 1)

        def cmpfact(op, const, truth):
            return any(f[0] == "atom" and f[1][0] == "cmp" and f[1][1] == op and f[1][2] == qos.key() and f[1][3] == const and f[2] is truth for f in s.facts)

        qos_pos = cmpfact("Gt", zero, True) or cmpfact("GtE", one, True)
        qos_known_nonpos = cmpfact("Gt", zero, False) or cmpfact("GtE", one, False) or ("falsy", qos.key()) in s.facts or ("isnone", qos.key()) in s.facts
        ack = None
        for e in stores:
            if isinstance(e.args[0], Const) and e.args[0].value == 3 and isinstance(e.args[1], Const):
                ack = e.args[1].value
        final_join = joins[-1] if joins else None
        join_sep = final_join.recv.value if final_join is not None and isinstance(final_join.recv, Const) else None
        joined = final_join.args[0] if final_join is not None and final_join.args else None
        minlen = None
        guard5 = any(f[0] == "atom" and f[1][0] == "cmp" and f[1][1] in ("Lt", "GtE") for f in s.facts)
        eq_prefix = any(f[0] == "atom" and f[1][0] == "eq" and "in_prefix" in repr(f[1]) for f in s.facts)
        eq_truth = [f[2] for f in s.facts if f[0] == "atom" and f[1][0] == "eq" and "in_prefix" in repr(f[1])]
        def plain_payload(val) -> bool:
            """str(payload) (or payload itself), nothing stripped / cut / rewritten on the way"""
            k = repr(val.key())
            return "payload" in k and not any(tok in k for tok in ("strip(", "lower(", "upper(", "replace", "slice:", "binop:", "split", "fstr:", "join"))

        appended_payload = any(plain_payload(e.args[0]) for e in appends if e.args)
        def bounds_of(v):
            b = getattr(v, "slice_bounds", None) or {}
            return {k: (x.value if isinstance(x, Const) else "?") for k, x in b.items()}

        prefix_pos = any(e.recv is not None and isinstance(e.recv, Const) and e.recv.value == "/" and e.args and bounds_of(e.args[0]) == {"upper": -5} for e in joins)
        last5 = joined is not None and bounds_of(joined) == {"lower": -5}
        # other shapes: the result is an explicit six-element list joined with ';', or an f-string of six values
        last5_by_items = None
        jitems = getattr(joined, "items", None) if joined is not None else None
        vparts = getattr(v, "parts", None) if isinstance(v, V) else None
        if vparts and not none:
            vals_ = [p for p in vparts if not isinstance(p, str)]
            seps_ = [p for p in vparts if isinstance(p, str)]
            if len(vals_) == 6 and len(seps_) == 5 and len(set(seps_)) == 1 and not isinstance(vparts[0], str) and not isinstance(vparts[-1], str):
                jitems = vals_
                join_sep = seps_[0]

        def right_split_pos(val):
            """Index (from the left, 0 = prefix) of `val` in `topic.rsplit('/', 5)` when it was unpacked from it."""
            src = getattr(val, "src_list", None)
            lab = repr(val.key())
            if src is not None and getattr(src, "maxlen", None) == 6 and getattr(src, "split_from", None) == "right" and getattr(src, "split_sep", None) == "/" and getattr(getattr(src, "split_of", None), "key", lambda: None)() == topic.key():
                for i in range(6):
                    if f"unpack{i}:" in lab:
                        return i
            return None

        if jitems is not None and len(jitems) == 6:
            if isinstance(jitems[3], Const):
                ack = jitems[3].value
            appended_payload = appended_payload or plain_payload(jitems[5])
            pos = []
            for i in (0, 1, 2, 4):
                src = getattr(jitems[i], "src_list", None)
                b = getattr(src, "slice_bounds", None) or {}
                lo = b.get("lower")
                from_slice = repr(jitems[i].key()).find(f"unpack{i}:") >= 0 and isinstance(lo, Const) and lo.value == -5 and "upper" not in b
                from_rsplit = right_split_pos(jitems[i]) == i + 1
                pos.append(from_slice or from_rsplit)
            last5_by_items = all(pos)
            if any(right_split_pos(x) is not None for x in jitems):
                # rsplit('/', 5): field 0 is everything before the last five levels
                eq_keys = [repr(f[1]) for f in s.facts if f[0] == "atom" and f[1][0] == "eq" and "in_prefix" in repr(f[1])]
                prefix_pos = prefix_pos or any("unpack0:" in k and "split:" in k for k in eq_keys)
        last5 = bool(last5 or last5_by_items)
        rows.append({"kind": kind, "none": none, "ack": ack, "qos_pos": qos_pos, "qos_nonpos": qos_known_nonpos, "join_sep": join_sep, "levels_src": repr(joined.key())[:200] if isinstance(joined, V) else None, "guard": guard5, "prefix_cmp": eq_prefix, "prefix_equal": (True in eq_truth), "prefix_neq": (False in eq_truth), "append_payload": appended_payload, "last5": last5, "prefix_pos": prefix_pos, "nsplit": len(splits), "finds": len(finds), "witness": describe_path(out, 18)})
    return {"rows": rows}


def to_msg_ast(analysis: Analysis, res: RuleResult) -> None:
    info = analysis.p.func(TO_MSG)
    w = common.where(analysis, info, info.node)
    bad = []
    for c in common.calls_in(info.node):
        if isinstance(c.func, ast.Attribute) and c.func.attr in ("find", "index", "rfind", "rindex", "partition", "rpartition", "replace", "lstrip", "removeprefix"):
            bad.append(unparse(c)[:60])
        if isinstance(c.func, ast.Attribute) and c.func.attr in ("split", "rsplit") and (len(c.args) > 1 or c.keywords):
            five_from_right = c.func.attr == "rsplit" and len(c.args) == 2 and not c.keywords and isinstance(c.args[1], ast.Constant) and c.args[1].value == 5
            if not five_from_right:  # rsplit(sep, 5) cuts the last five levels off positionally
                bad.append(unparse(c)[:60])
    res.add("C17-R2", f"{TO_MSG} / no first-occurrence search on the topic (prefix may look like message levels)", not bad, w, "prefix recovered positionally" if not bad else f"search-based prefix recovery: {bad}")


HS = "gateway_mqtt:MQTTTransport.handle_subscription"


def _template(v, names) -> str:
    """Normal form of a requested topic: literal text with placeholders for the node id, the child id and
    message-type members; anything else is shown as {?...}."""
    from ..values import EnumMemV

    if isinstance(v, Const) and isinstance(v.value, str):
        return v.value
    parts = getattr(v, "parts", None)
    if parts is None:
        return "{?" + repr(v.key())[:60] + "}"
    out = []
    for p in parts:
        if isinstance(p, str):
            out.append(p)
        elif p.key() in names:
            out.append("{" + names[p.key()] + "}")
        elif isinstance(p, EnumMemV) and p.enum == "MessageType" and len(p.names) == 1:
            out.append("{" + p.names[0] + "}")
        elif isinstance(p, Const) and isinstance(p.value, (int, str)) and not isinstance(p.value, bool):
            out.append(str(p.value))  # a constant formatted into the topic is literal text
        else:
            out.append("{?" + repr(p.key())[:60] + "}")
    return "".join(out)


def subscription_worker(analysis: Analysis, which: str) -> dict:
    """Topics handed to handle_subscription by init_topics (one restored node with one child) and by the
    MQTT presentation hook (inbound child presentation), as normalised templates per abstract path."""
    from ..values import DictV, Obj, Unknown

    ctx = analysis.context(analysis.versions[-1], "mqtt", "sync")
    it = analysis.new_interp(ctx)
    it.table_values = True
    st, gw = analysis.gateway_state(it)
    rows = []
    if which == "presentation":
        it.inline_skip = {HS, "handler:handle_presentation"}
        msg = Obj("Message#inbound", "message:Message")
        for n in ("node_id", "child_id", "type", "ack", "sub_type"):
            st.mem[(msg.key(), "a", n)] = Unknown("int", label="inbound." + n)
        st.mem[(msg.key(), "a", "payload")] = Unknown("str", label="inbound.payload")
        st.mem[(msg.key(), "a", "gateway")] = gw
        names = {("u", "inbound.node_id"): "node", ("u", "inbound.child_id"): "child"}
        outs = analysis.run_root(it, "gateway_mqtt:BaseMQTTGateway._handle_presentation", [msg], gw, st)
    else:
        it.inline_skip = {HS}
        sensor = Obj("Sensor#restored", "sensor:Sensor")
        child = Obj("Child#restored", "sensor:ChildSensor")
        st.mem[(sensor.key(), "a", "sensor_id")] = Sym(("root", "nid"), "int")
        st.mem[(child.key(), "a", "id")] = Sym(("root", "cid"), "int")
        st.mem[(sensor.key(), "a", "children")] = DictV({"c": child}, closed=True, label="children")
        st.mem[(gw.key(), "a", "sensors")] = DictV({"n": sensor}, closed=True, label="sensors")
        names = {("root", "nid"): "node", ("root", "cid"): "child"}
        outs = analysis.run_root(it, "gateway_mqtt:BaseMQTTGateway.init_topics", [], gw, st)
    for out in outs:
        kind, s, v = out
        subs = []
        for e in s.events:
            if e.kind == "opaque" and e.name == HS:
                lst = e.args[1] if len(e.args) > 1 else None
                items = getattr(lst, "items", None)
                if items is None and isinstance(lst, V):
                    items = None if getattr(lst, "elem", None) is not None or isinstance(lst, ListV) else [lst]
                subs.append(None if items is None else [_template(i, names) for i in items])
        facts = s.facts
        child_real = any(f[0] == "atom" and f[1][0] == "eq" and "inbound.child_id" in repr(f[1]) and "255" in repr(f[1]) and f[2] is False for f in facts)
        accepted = any(f[0] == "notnone" and "handle_presentation" in repr(f[1]) for f in facts)
        pers_on = any(f[0] == "truthy" and repr(f[1]).endswith("'persistence')") for f in facts)
        rows.append({"kind": kind, "exc": v.cls.__name__ if kind == "raise" else None, "subs": subs, "child_real": child_real, "accepted": accepted, "pers_on": pers_on, "witness": describe_path(out, 14)})
    return {"which": which, "rows": rows}


def subscriptions(analysis: Analysis, res: RuleResult) -> None:
    """R3 by evaluation: what init_topics requests for a restored child is what the presentation hook requests
    for a newly presented one; the constant initial topics cover presentation and internal."""
    where = "mysensors/gateway_mqtt.py"
    FAMILY = {"/{node}/{child}/{set}/+/+", "/{node}/{child}/{req}/+/+", "/{node}/+/{stream}/+/+"}
    sums = {x["which"]: x for x in common.pmap(analysis, subscription_worker, ["init", "presentation"])}
    init, pres = sums["init"]["rows"], sums["presentation"]["rows"]
    for name, rows in (("init_topics", init), ("_handle_presentation", pres)):
        for r in rows:
            if r["kind"] == "raise":
                res.add("C17-R3", f"gateway_mqtt:BaseMQTTGateway.{name} / does not raise", False, where, r["exc"], r["witness"])
            for sub in r["subs"]:
                if sub is None:
                    res.add("C17-R3", f"gateway_mqtt:BaseMQTTGateway.{name} / requested topics are known item by item", False, where, "a subscription request whose topic list cannot be enumerated for one node with one child", r["witness"])
                    continue
                for t in sub:
                    res.add("C17-R3", f"gateway_mqtt:BaseMQTTGateway.{name} / template {t} has exactly five levels after the prefix", t.count("/") == 5 and "{?" not in t, where, f"{t.count('/')} separators" if "{?" not in t else "a level is filled from an unrecognised value")
    # initial constant topics: on every path, first request
    firsts = [r["subs"][0] for r in init if r["kind"] == "val" and r["subs"]]
    ok_first = bool(firsts) and len(firsts) == len([r for r in init if r["kind"] == "val"]) and all(f is not None and all("{" not in t for t in f) for f in firsts)
    res.add("C17-R3", "gateway_mqtt:BaseMQTTGateway.init_topics / every path first requests the constant initial topics", ok_first, where, f"{firsts[0] if firsts else None}")
    got = set()
    for f in firsts:
        for t in f or []:
            parts = t.split("/")
            if len(parts) == 6 and parts[3].isdigit():
                got.add(int(parts[3]))
                res.add("C17-R3", f"gateway_mqtt:BaseMQTTGateway.init_topics / initial template {t} subscribes every node, child, ack and sub-type", parts[1] == parts[2] == parts[4] == parts[5] == "+", where, "wildcards")
    for ver, c in analysis.refl["consts"].items():
        mt = {n: v for n, v in c["enums"]["MessageType"]["members"]}
        want = {mt.get("presentation"), mt.get("internal")}
        res.add("C17-R3", f"{ver}: the initial subscriptions cover presentation and internal", want <= got, where, f"type levels subscribed {sorted(got)}, needed {sorted(want)}")
    # restored child (persistence on): the per-child family
    on = [r for r in init if r["kind"] == "val" and r["pers_on"]]
    fam_init = [set().union(*[set(x) for x in r["subs"][1:] if x is not None]) if len(r["subs"]) > 1 else set() for r in on]
    ok_init = bool(on) and all(f == FAMILY for f in fam_init)
    res.add("C17-R3", "gateway_mqtt:BaseMQTTGateway.init_topics / with persistence on, a restored child gets its set and req topics and its node the stream topic", ok_init, where, f"{sorted(fam_init[0]) if fam_init else None}", next((r["witness"] for r, f in zip(on, fam_init) if f != FAMILY), None))
    # newly presented child
    subscribing = [r for r in pres if r["kind"] == "val" and r["subs"]]
    silent = [r for r in pres if r["kind"] == "val" and not r["subs"]]
    fam_pres = [set().union(*[set(x) for x in r["subs"] if x is not None]) for r in subscribing]
    ok_pres = bool(subscribing) and all(f == FAMILY for f in fam_pres)
    res.add("C17-R3", "per-child subscription family is generated identically for restored and for new children", ok_pres and ok_init, where, f"init_topics {sorted(fam_init[0]) if fam_init else None}; _handle_presentation {sorted(fam_pres[0]) if fam_pres else None}", next((r["witness"] for r, f in zip(subscribing, fam_pres) if f != FAMILY), None))
    res.add("C17-R3", "per-child topics cover set and req", ok_pres, where, "set, req and the node's stream topic")
    ok_guard = bool(subscribing) and all(r["child_real"] and r["accepted"] for r in subscribing)
    res.add("C17-R3", "gateway_mqtt:BaseMQTTGateway._handle_presentation / subscribes only after an accepted child presentation", ok_guard, where, "child_id != 255 and the shared handler returned a message", next((r["witness"] for r in subscribing if not (r["child_real"] and r["accepted"])), None))
    ok_all = all(not (r["child_real"] and r["accepted"]) for r in silent)
    res.add("C17-R3", "gateway_mqtt:BaseMQTTGateway._handle_presentation / every accepted child presentation subscribes", ok_all, where, "no silent path under child_id != 255 and an accepted presentation", next((r["witness"] for r in silent if r["child_real"] and r["accepted"]), None))
    res.add("C17-R3", "gateway_mqtt:BaseMQTTGateway._handle_presentation / delegates to the shared presentation handler", any(r["accepted"] for r in pres), where, "handle_presentation(msg)")


def isolation_worker(analysis: Analysis, spec) -> dict:
    ctx = analysis.context(analysis.versions[-1], "mqtt", spec)
    it = analysis.new_interp(ctx)
    st, gw = analysis.gateway_state(it)
    tr = Sym(("root", "TR"), ("cls", ctx.transport))
    st.mem[(tr.key(), "a", "gateway")] = gw
    from ..values import ListV, Unknown

    elem = Unknown("str", label="topic-template")
    elem.minsep = {"/": 5}
    topics = ListV(None, elem=elem, label="topics")
    outs = analysis.run_root(it, "gateway_mqtt:MQTTTransport.handle_subscription", [topics], tr, st)
    esc = [f"{v.cls.__name__}: {v.what}" for k, s, v in outs if k == "raise"]
    cbs = sum(1 for k, s, v in outs for e in s.events if e.kind == "cb")
    prefixed = all(any(e.kind == "cb" and e.args and "in_prefix" in repr(e.args[0].key()) for e in s.events) or not any(e.kind == "cb" for e in s.events) for k, s, v in outs)
    recv_cb = all(all(len(e.args) >= 2 and "recv" in repr(e.args[1].key()) for e in s.events if e.kind == "cb") for k, s, v in outs)
    # one requested topic (the non-list form): every path must hand exactly that topic to the callback
    it2 = analysis.new_interp(ctx)
    st2, gw2 = analysis.gateway_state(it2)
    st2.mem[(tr.key(), "a", "gateway")] = gw2
    one = Sym(("root", "topic"), "str")
    one.minsep = {"/": 5}
    skipped = []
    n_one = 0
    for k, s2, v in analysis.run_root(it2, "gateway_mqtt:MQTTTransport.handle_subscription", [one], tr, st2):
        if k != "val":
            continue
        n_one += 1
        hits = [e for e in s2.events if e.kind == "cb" and e.args and "'topic'" in repr(e.args[0].key())]
        if len(hits) != 1:
            skipped.append(describe_path((k, s2, v), 14))
    # the publish side: a raising publish callback never escapes MQTTTransport.send (the pump calls it bare)
    it3 = analysis.new_interp(ctx)
    st3, gw3 = analysis.gateway_state(it3)
    st3.mem[(tr.key(), "a", "gateway")] = gw3
    pub_esc, pub_cbs = [], 0
    for out in analysis.run_root(it3, "gateway_mqtt:MQTTTransport.send", [Sym(("root", "message"), "str", nullable=True)], tr, st3):
        k, s3, v = out
        pub_cbs += sum(1 for e in s3.events if e.kind == "cb")
        if k == "raise":
            pub_esc.append((f"{v.cls.__name__} at {v.site}: {v.what}"[:120], describe_path(out, 14)))
    return {"flavour": spec, "escapes": esc, "cbs": cbs, "prefixed": prefixed, "recv_cb": recv_cb, "one_paths": n_one, "skipped": skipped, "pub_escapes": pub_esc, "pub_cbs": pub_cbs}


def run(analysis: Analysis, tier: str) -> RuleResult:
    res = RuleResult(PROP)
    res.explanation = [
        "R1 the two mapping functions agree with the C02 frame template: command -> topic renders the five header fields with '/', payload carried separately, QoS = ack; every abstract path of topic -> command that returns a command takes the last five levels, stores \"1\" at level 4 exactly when QoS > 0 (else \"0\"), appends the payload and joins with ';';",
        "R2 the prefix is recovered positionally (no first-occurrence search), short topics return None before any constant subscript, the prefix is compared with the configured one; R3 subscription templates have five levels, cover presentation and internal by their numeric values in every version, and the per-child family is generated identically for restored and new children, only after an accepted child presentation; R4 the subscribe callback is isolated.",
        "Broker-side wildcard semantics and payload fidelity for every MQTT payload are not decided.",
    ]
    to_mqtt_rule(analysis, res)
    to_msg_ast(analysis, res)
    for summ in common.pmap(analysis, to_msg_worker, ["x"]):
        rows = summ["rows"]
        accepted = [r for r in rows if r["kind"] == "val" and not r["none"]]
        rejected = [r for r in rows if r["kind"] == "val" and r["none"]]
        for r in rows:
            if r["kind"] == "raise":
                res.add("C17-R2", f"{TO_MSG} / short or odd topics are rejected, not raised", False, "mysensors/gateway_mqtt.py", r["exc"], r["witness"])
        if not accepted or not rejected:
            res.add("C17-R2", f"{TO_MSG} / accepts the configured prefix followed by five levels and rejects everything else", False, "mysensors/gateway_mqtt.py", f"{len(accepted)} accepting and {len(rejected)} rejecting paths")
        for r in accepted:
            ok_ack = (r["ack"] == "1" and r["qos_pos"]) or (r["ack"] == "0" and r["qos_nonpos"])
            res.add("C17-R1", f"{TO_MSG} / level 4 (ack) is \"1\" exactly when QoS > 0", ok_ack, "mysensors/gateway_mqtt.py", f"ack {r['ack']!r} with qos>0 known {r['qos_pos']}, qos<=0/None known {r['qos_nonpos']}", r["witness"] if not ok_ack else None)
            res.add("C17-R1", f"{TO_MSG} / the payload is appended unchanged and the fields joined with ';'", r["append_payload"] and r["join_sep"] == ";", "mysensors/gateway_mqtt.py", f"separator {r['join_sep']!r}", r["witness"] if not (r["append_payload"] and r["join_sep"] == ";") else None)
            res.add("C17-R2", f"{TO_MSG} / a command is produced only when the recovered prefix equals the configured inbound prefix", r["prefix_equal"], "mysensors/gateway_mqtt.py", "prefix == transport.in_prefix on the accepting path", r["witness"] if not r["prefix_equal"] else None)
            res.add("C17-R2", f"{TO_MSG} / prefix is everything before the last five levels", r["prefix_pos"], "mysensors/gateway_mqtt.py", "\"/\".join(levels[:-5])", r["witness"] if not r["prefix_pos"] else None)
            res.add("C17-R1", f"{TO_MSG} / the command is built from exactly the last five levels", r["last5"], "mysensors/gateway_mqtt.py", "levels[-5:]", r["witness"] if not r["last5"] else None)
            res.add("C17-R2", f"{TO_MSG} / a length guard dominates the level accesses", r["guard"], "mysensors/gateway_mqtt.py", "len(topic_levels) compared before slicing", r["witness"] if not r["guard"] else None)
        # (rejecting paths may have been joined; that a mismatching prefix cannot be accepted follows from every
        # accepting path carrying the equality)
        res.add("C17-R2", f"{TO_MSG} / a wrong prefix is rejected", bool(accepted) and all(r["prefix_equal"] for r in accepted) and bool(rejected), "mysensors/gateway_mqtt.py", "every accepting path is taken under prefix == in_prefix and a rejecting path exists")
    subscriptions(analysis, res)
    # the prefixes every topic rule above speaks about are the configured ones: the constructor stores
    # in_prefix / out_prefix / retain unchanged (C18-R1 for the MQTT classes, shared) - a "normalised" prefix is
    # consistent inside the library and still subscribes / publishes somewhere else than configured
    from . import c18

    jobs = [(cls, ("in_prefix", "out_prefix", "retain"), "MQTT options") for cls in ("gateway_mqtt:MQTTGateway", "gateway_mqtt:AsyncMQTTGateway")]
    for summ in common.pmap(analysis, c18.construct_worker, jobs):
        good = [r for r in summ["rows"] if r["kind"] == "val"]
        if not good:
            raise AnalysisError(f"C17-R3: no constructor path for {summ['cls']}")
        for r in good:
            for o in ("in_prefix", "out_prefix", "retain"):
                ok = bool(r["honoured"].get(o))
                res.add("C17-R3", f"{summ['cls']} / the transport uses the configured {o} unchanged", ok, "mysensors/gateway_mqtt.py", "stored as given" if ok else f"the {o} given to the constructor is not what the transport stores (stripped / rewritten): subscriptions, accepted topics and published topics differ from the configured ones", r["witness"] if not ok else None)
    for summ in common.pmap(analysis, isolation_worker, ["sync", "async"]):
        res.add("C17-R4", "gateway_mqtt:MQTTTransport.handle_subscription / a raising subscribe callback never escapes", not summ["escapes"], "mysensors/gateway_mqtt.py", "; ".join(summ["escapes"][:2]) or "caught and logged", context=summ["flavour"])
        res.add("C17-R4", "gateway_mqtt:MQTTTransport.handle_subscription / subscribes the inbound prefix + template with recv as callback", summ["cbs"] > 0 and summ["prefixed"] and summ["recv_cb"], "mysensors/gateway_mqtt.py", f"{summ['cbs']} callback events", context=summ["flavour"])
        res.add("C17-R4", "gateway_mqtt:MQTTTransport.send / a raising publish callback never escapes (whatever it raises, however often)", not summ["pub_escapes"] and summ["pub_cbs"] > 0, "mysensors/gateway_mqtt.py", f"{summ['pub_cbs']} callback events, every raise caught and logged" if not summ["pub_escapes"] else summ["pub_escapes"][0][0] + ": the pump calls send() bare, so this ends the pump thread", summ["pub_escapes"][0][1] if summ["pub_escapes"] else None, context=summ["flavour"])
        ok1 = summ["one_paths"] > 0 and not summ["skipped"]
        res.add("C17-R3", "gateway_mqtt:MQTTTransport.handle_subscription / every requested topic is handed to the subscribe callback, exactly once", ok1, "mysensors/gateway_mqtt.py", f"{summ['one_paths']} paths for a single requested topic" if ok1 else "a path returns without passing the requested topic to the subscribe callback (e.g. skipped as already subscribed: a failed or forgotten subscription is never retried)", summ["skipped"][0] if summ["skipped"] else None, context=summ["flavour"])
    res.need("C17-R3", 8, "subscription obligations")
    res.units = {"functions": [TO_MQTT, TO_MSG, "gateway_mqtt:BaseMQTTGateway.init_topics", "gateway_mqtt:BaseMQTTGateway._handle_presentation", "gateway_mqtt:MQTTTransport.handle_subscription"], "source_digest": analysis.p.digest()}
    res.not_decided = ["broker-side wildcard semantics", "payload fidelity for every MQTT payload", "value-level round trip of topic <-> command"]
    res.trusted = ["C02 frame template", "sa/extmodel.py"]
    return res
