"""C11 - Persistence round trip is exact in both formats (table-agreement clauses).

R1 Sensor: attributes of __init__ = JSON encoder keys + transient reset set of __setstate__;
   the reset set is exactly {new_state, queue, reboot}, reset to the initial expressions;
   __getstate__ renames exactly the private attributes that have a property with a setter.
R2 ChildSensor: __init__ attributes = JSON encoder keys; decoder recognisers use encoder keys
   and are mutually exclusive.
R3 the decoder restores through names the classes accept (attribute or property with setter),
   covers every encoded key, and restores integer keys after the two object recognisers.
R4 transient state is never JSON-encoded and is overwritten unconditionally after the restore
   loop of __setstate__.
"""
from __future__ import annotations

import ast
from typing import Dict, List, Set

from ..effects import json_projection
from ..engine import Analysis
from ..frontend import AnalysisError, unparse
from ..report import RuleResult
from . import common

PROP = "C11"
TRANSIENT = {"new_state", "queue", "reboot"}


def with_helpers(analysis, info):
    """The function's own statements plus those of private methods of the same class it calls as self._x()."""
    bodies = [info.node]
    if info.cls is not None:
        for c in ast.walk(info.node):
            if isinstance(c, ast.Call) and isinstance(c.func, ast.Attribute) and isinstance(c.func.value, ast.Name) and c.func.value.id == "self" and c.func.attr.startswith("_") and not c.func.attr.startswith("__"):
                m = analysis.p.find_method(info.cls.qual, c.func.attr)
                if hasattr(m, "node") and m.node not in bodies:
                    bodies.append(m.node)
    return bodies


def init_attrs(info, analysis=None) -> Dict[str, str]:
    out = {}
    nodes = with_helpers(analysis, info) if analysis is not None else [info.node]
    for n in (x for b in nodes for x in ast.walk(b)):
        if isinstance(n, ast.Assign):
            for t in n.targets:
                if isinstance(t, ast.Attribute) and isinstance(t.value, ast.Name) and t.value.id == "self":
                    out[t.attr] = unparse(n.value)
    return out


def run(analysis: Analysis, tier: str) -> RuleResult:
    res = RuleResult(PROP)
    res.explanation = [
        "Sibling agreement between the constructor, the JSON encoder / decoder and the pickle get/setstate pair of Sensor and ChildSensor (syntax tree): the persisted projection is the same in both formats, every encoded key is restored through a name the class accepts, integer keys are restored, transient state is neither encoded nor allowed to survive a load.",
        "Value-level exactness (Unicode, number/str fidelity) and equality of the two formats on actual states are not decided.",
    ]
    p = analysis.p
    proj, conditional_keys = json_projection(p, with_conditional=True)
    sensor = p.classes["sensor:Sensor"]
    child = p.classes["sensor:ChildSensor"]
    s_init = init_attrs(sensor.methods["__init__"], analysis)
    c_init = init_attrs(child.methods["__init__"], analysis)
    w = common.where(analysis, sensor.methods["__init__"], sensor.methods["__init__"].node)
    s_names = {a.lstrip("_") for a in s_init}
    enc_s = set(proj["Sensor"])
    for cls_name, ck in conditional_keys.items():
        res.add("C11-R1", f"persistence:MySensorsJSONEncoder / every persisted attribute of {cls_name} is encoded unconditionally", not ck, "mysensors/persistence.py", "all keys are always written" if not ck else f"keys {sorted(ck)} are written only under a condition on the value: falsy values (0, '') are dropped by JSON but kept by pickle")
    # ---- R1
    setstate = sensor.methods.get("__setstate__")
    if setstate is None:
        raise AnalysisError("anchor vanished: Sensor.__setstate__")
    resets: Dict[str, str] = {}
    loop_line = None
    conditional: Set[str] = set()
    body = []
    for st in setstate.node.body:
        body.append(st)
        if isinstance(st, ast.Expr) and isinstance(st.value, ast.Call) and isinstance(st.value.func, ast.Attribute) and isinstance(st.value.func.value, ast.Name) and st.value.func.value.id == "self" and st.value.func.attr.startswith("_") and not st.value.func.attr.startswith("__"):
            m = p.find_method(sensor.qual, st.value.func.attr)
            if hasattr(m, "node"):
                body.extend(x for x in m.node.body if isinstance(x, ast.Assign))
    for st in body:
        if isinstance(st, ast.For):
            loop_line = st.lineno
        if isinstance(st, ast.Assign):
            for t in st.targets:
                if isinstance(t, ast.Attribute) and isinstance(t.value, ast.Name) and t.value.id == "self":
                    resets[t.attr] = unparse(st.value)
                    if loop_line is None:
                        conditional.add(t.attr + " (before the restore loop)")
        elif isinstance(st, ast.If):
            for n in ast.walk(st):
                if isinstance(n, ast.Assign):
                    for t in n.targets:
                        if isinstance(t, ast.Attribute) and t.attr in TRANSIENT:
                            conditional.add(t.attr + " (conditional)")
    # alternative idiom: re-run the constructor, then restore everything but a skip list
    calls_init = any(isinstance(n, ast.Call) and unparse(n.func) == "self.__init__" for st in setstate.node.body[: 3] for n in ast.walk(st))
    if calls_init:
        for n in ast.walk(setstate.node):
            if isinstance(n, ast.If) and isinstance(n.test, ast.Compare) and isinstance(n.test.ops[0], ast.In) and isinstance(n.test.comparators[0], (ast.Tuple, ast.List, ast.Set)) and any(isinstance(b, ast.Continue) for b in n.body):
                for e in n.test.comparators[0].elts:
                    if isinstance(e, ast.Constant):
                        resets.setdefault(e.value, s_init.get(e.value, "?"))
        if loop_line is None:
            loop_line = next((st.lineno for st in setstate.node.body if isinstance(st, ast.For)), None)
        conditional = {c for c in conditional if "before the restore loop" not in c}
    res.add("C11-R1", "sensor:Sensor / constructor attributes = JSON keys + transient set", s_names == enc_s | TRANSIENT and not (enc_s & TRANSIENT), w, f"init {sorted(s_names)}; encoder {sorted(enc_s)}; transient {sorted(TRANSIENT)}")
    res.add("C11-R1", "sensor:Sensor.__setstate__ / resets exactly the transient attributes", set(resets) == TRANSIENT, common.where(analysis, setstate, setstate.node), f"resets {sorted(resets)}")
    for a in sorted(TRANSIENT & set(resets)):
        res.add("C11-R1", f"sensor:Sensor.__setstate__ / {a} is reset to its initial value", resets[a] == s_init.get(a), common.where(analysis, setstate, setstate.node), f"__setstate__: {resets[a]}, __init__: {s_init.get(a)}")
    res.add("C11-R4", "sensor:Sensor.__setstate__ / transient attributes are overwritten unconditionally after the restore loop", not conditional and loop_line is not None, common.where(analysis, setstate, setstate.node), "; ".join(sorted(conditional)) or "reset statements follow the setattr loop")
    getstate = sensor.methods.get("__getstate__")
    if getstate is None:
        raise AnalysisError("anchor vanished: Sensor.__getstate__")
    renamed: Set[str] = set()
    for n in ast.walk(getstate.node):
        if isinstance(n, ast.For) and isinstance(n.iter, (ast.Tuple, ast.List)):
            renamed |= {e.value for e in n.iter.elts if isinstance(e, ast.Constant) and isinstance(e.value, str)}
        elif isinstance(n, ast.For):
            for nm in ast.walk(n.iter):
                if isinstance(nm, ast.Name) and nm.id in getstate.module.assigns:
                    src = getstate.module.assigns[nm.id]
                    if isinstance(src, ast.Dict):
                        renamed |= {k.value for k in src.keys if isinstance(k, ast.Constant) and isinstance(k.value, str)}
                    elif isinstance(src, (ast.Tuple, ast.List)):
                        renamed |= {e.value for e in src.elts if isinstance(e, ast.Constant) and isinstance(e.value, str)}
    setters = {"_" + name for name, pr in sensor.props.items() if "set" in pr}
    res.add("C11-R1", "sensor:Sensor.__getstate__ / renames exactly the private attributes behind a property with setter", renamed == setters, common.where(analysis, getstate, getstate.node), f"renamed {sorted(renamed)}; settable properties {sorted(setters)}")
    private = {a for a in s_init if a.startswith("_")}
    res.add("C11-R1", "sensor:Sensor / every private attribute is behind a settable property", private == setters, w, f"private {sorted(private)}")
    # pickle writes __dict__ (minus renames): the persisted attribute set is the same as JSON's
    gs_txt = unparse(getstate.node)
    res.add("C11-R1", "sensor:Sensor.__getstate__ / state is the instance dict", "self.__dict__.copy()" in gs_txt, common.where(analysis, getstate, getstate.node), "state = self.__dict__.copy()")
    # ---- R2
    enc_c = set(proj["ChildSensor"])
    wc = common.where(analysis, child.methods["__init__"], child.methods["__init__"].node)
    res.add("C11-R2", "sensor:ChildSensor / constructor attributes = JSON keys", set(c_init) == enc_c == {"id", "type", "description", "values"}, wc, f"init {sorted(c_init)}; encoder {sorted(enc_c)}")
    dec = p.func("persistence:MySensorsJSONDecoder.dict_to_object")
    branches = []
    for st in dec.node.body:
        if isinstance(st, ast.If):
            branches.append(st)
    kinds = []
    child_keys: List[str] = []
    sensor_key = None
    for br in branches:
        t = unparse(br.test)
        if "sensor_id" in t and "in obj" in t:
            kinds.append("sensor")
            sensor_key = "sensor_id"
        elif t.startswith("all(") and "isdigit" in t:
            kinds.append("intkeys")
        elif t.startswith("all(") and " in obj" in t:
            kinds.append("child")
            for n in ast.walk(br.test):
                if isinstance(n, (ast.List, ast.Tuple)):
                    child_keys = [e.value for e in n.elts if isinstance(e, ast.Constant)]
                elif isinstance(n, ast.Name) and n.id in dec.module.assigns and isinstance(dec.module.assigns[n.id], (ast.List, ast.Tuple)):
                    child_keys = [e.value for e in dec.module.assigns[n.id].elts if isinstance(e, ast.Constant)]
        elif "isinstance" in t:
            kinds.append("guard")
        else:
            kinds.append("other:" + t[:30])
    wd = common.where(analysis, dec, dec.node)
    res.add("C11-R2", "persistence:MySensorsJSONDecoder / recogniser keys are encoder keys", sensor_key in enc_s and set(child_keys) <= enc_c and bool(child_keys), wd, f"sensor recogniser {sensor_key}, child recogniser {child_keys}")
    excl = sensor_key not in enc_c and not set(child_keys) <= enc_s
    res.add("C11-R2", "persistence:MySensorsJSONDecoder / the two recognisers are mutually exclusive", excl, wd, "a Sensor dict is never taken for a ChildSensor and vice versa")
    # ---- R3
    order = [k for k in kinds if k in ("sensor", "child", "intkeys")]
    res.add("C11-R3", "persistence:MySensorsJSONDecoder / integer keys are restored, after the object recognisers", order == ["sensor", "child", "intkeys"], wd, f"branch order {kinds}")
    intbranch = [br for br, k in zip(branches, kinds) if k == "intkeys"]
    comps = [n for n in ast.walk(intbranch[0]) if isinstance(n, ast.DictComp) and unparse(n.key).startswith("int(")] if intbranch else []
    ok_int = bool(comps)
    res.add("C11-R3", "persistence:MySensorsJSONDecoder / all-digit keys become int keys", ok_int, wd, "{int(k): v for k, v in obj.items()}")
    for n in comps:
        gen = n.generators[0]
        tgt = gen.target.elts if isinstance(gen.target, ast.Tuple) else []
        whole = len(n.generators) == 1 and not gen.ifs and len(tgt) == 2 and isinstance(n.value, ast.Name) and isinstance(tgt[1], ast.Name) and n.value.id == tgt[1].id and unparse(n.key) == f"int({unparse(tgt[0])})" and unparse(gen.iter).endswith(".items()")
        res.add("C11-R3", "persistence:MySensorsJSONDecoder / the integer-key restoration keeps every entry and every value", whole, common.where(analysis, dec, n), "no filter, value passed through" if whole else f"`{unparse(n)[:90]}` filters or rewrites entries: the same branch restores the node map, the child maps and the value maps, so entries are lost on JSON load only")
    plain = {a for a in s_init if not a.startswith("_")}
    settable = plain | {name for name, pr in sensor.props.items() if "set" in pr}
    missing = enc_s - settable
    res.add("C11-R3", "sensor:Sensor / every encoded key is a settable attribute or property", not missing, w, f"not settable: {sorted(missing)}" if missing else "decoder restores with setattr(sensor, key, val)")
    sbr = [br for br, k in zip(branches, kinds) if k == "sensor"]
    ok_loop = bool(sbr) and any(isinstance(n, ast.Call) and unparse(n.func) == "setattr" for n in ast.walk(sbr[0])) and any(isinstance(n, ast.For) and "obj.items()" in unparse(n.iter) for n in ast.walk(sbr[0]))
    res.add("C11-R3", "persistence:MySensorsJSONDecoder / every key of a Sensor dict is restored", ok_loop, wd, "for key, val in obj.items(): setattr(sensor, key, val)")
    cbr = [br for br, k in zip(branches, kinds) if k == "child"]
    used = set()
    if cbr:
        for n in ast.walk(cbr[0]):
            if isinstance(n, ast.Subscript) and unparse(n.value) == "obj" and isinstance(n.slice, ast.Constant):
                used.add(n.slice.value)
            if isinstance(n, ast.Call) and unparse(n.func) == "obj.get" and n.args and isinstance(n.args[0], ast.Constant):
                used.add(n.args[0].value)
    res.add("C11-R3", "persistence:MySensorsJSONDecoder / every key of a ChildSensor dict is restored", used == enc_c, wd, f"restored {sorted(used)}; encoded {sorted(enc_c)}")
    # child values assigned to .values
    ok_vals = bool(cbr) and any(isinstance(n, ast.Assign) and unparse(n.targets[0]).endswith(".values") and "obj['values']" in unparse(n.value).replace('"', "'") for n in ast.walk(cbr[0]))
    res.add("C11-R3", "persistence:MySensorsJSONDecoder / child values are restored as the values map", ok_vals, wd, "child.values = obj['values']")
    # ---- R4
    res.add("C11-R4", "persistence:MySensorsJSONEncoder / transient state is not encoded", not (enc_s & TRANSIENT) and not (enc_c & TRANSIENT), "mysensors/persistence.py", f"encoded Sensor keys {sorted(enc_s)}")
    # encoder reads the public names (through the properties), so fallbacks applied by setters are what is saved
    enc = p.func("persistence:MySensorsJSONEncoder.default")
    bad = []
    for n in ast.walk(enc.node):
        if isinstance(n, ast.Dict):
            for k, v in zip(n.keys, n.values):
                if isinstance(k, ast.Constant) and not (isinstance(v, ast.Attribute) and v.attr == k.value):
                    bad.append(f"{k.value}: {unparse(v)}")
        elif isinstance(n, ast.DictComp) and isinstance(n.key, ast.Name):
            ok_v = isinstance(n.value, ast.Call) and unparse(n.value.func) == "getattr" and len(n.value.args) == 2 and unparse(n.value.args[1]) == n.key.id
            if not ok_v:
                bad.append(f"{unparse(n.key)}: {unparse(n.value)}")
    res.add("C11-R1", "persistence:MySensorsJSONEncoder / every key is encoded from the attribute of the same name", not bad, common.where(analysis, enc, enc.node), "; ".join(bad) or "key == attribute name")
    cs = child.methods.get("__setstate__")
    if cs is not None:
        txt = unparse(cs.node)
        res.add("C11-R2", "sensor:ChildSensor.__setstate__ / restores the whole instance dict", "self.__dict__.update(state)" in txt, common.where(analysis, cs, cs.node), "pickle restores id, type, description, values")
    # R5: what a save writes is the dump of the sensor map and nothing else (shared with C12-R1/R2)
    from . import c12, persist

    tmp = RuleResult(PROP)
    for summ in common.pmap(analysis, c12.save_worker, [(e, (analysis.versions[-1], "serial", "sync")) for e in persist.EXTS]):
        c12.analyse_save_rows(tmp, summ)
    for o in tmp.obs:
        if "written from empty" in o.construct or "sensor map is what is dumped" in o.construct:
            res.add("C11-R5", o.construct, o.ok, o.where, o.detail, o.witness)
    res.need("C11-R5", 2, "save-path obligations")
    res.need("C11-R1", 5, "field agreement obligations")
    res.units = {"classes": ["sensor:Sensor", "sensor:ChildSensor", "persistence:MySensorsJSONEncoder", "persistence:MySensorsJSONDecoder"], "source_digest": analysis.p.digest()}
    res.not_decided = ["value-level exactness (Unicode, JSON number/str fidelity)", "equality of the two formats on actual states"]
    res.trusted = ["python ast"]
    return res
