"""C11 - Persistence round trip is exact in both formats (table-agreement clauses).

R1 Sensor: attributes of __init__ = JSON encoder keys + transient reset set of __setstate__;
   the reset set is exactly {new_state, queue, reboot}, reset to the initial expressions;
   __getstate__ renames exactly the private attributes that have a property with a setter.
R2 ChildSensor: __init__ attributes = JSON encoder keys; decoder recognisers use encoder keys
   and are mutually exclusive.
R3 the decoder restores through names the classes accept (attribute or property with setter),
   covers every encoded key, and restores integer keys after the two object recognisers.
R4 transient state is never JSON-encoded and is overwritten unconditionally after the restore
   loop of __setstate__.
"""
from __future__ import annotations

import ast
from typing import Dict, List, Set

from ..effects import json_projection
from ..engine import Analysis
from ..frontend import AnalysisError, unparse
from ..report import RuleResult
from . import common

PROP = "C11"
TRANSIENT = {"new_state", "queue", "reboot"}


def with_helpers(analysis, info):
    """The function's own statements plus those of private methods of the same class it calls as self._x()."""
    return common.self_helper_bodies(analysis, info)


def init_attrs(info, analysis=None) -> Dict[str, str]:
    out = {}
    nodes = with_helpers(analysis, info) if analysis is not None else [info.node]
    for n in (x for b in nodes for x in ast.walk(b)):
        if isinstance(n, ast.Assign):
            for t in n.targets:
                if isinstance(t, ast.Attribute) and isinstance(t.value, ast.Name) and t.value.id == "self":
                    out[t.attr] = unparse(n.value)
    return out


def getstate_live_mutations(analysis: Analysis) -> List[str]:
    """Mutations Sensor.__getstate__ performs on anything but its own copy of the instance dict."""
    from ..values import Sym

    ctx = analysis.context(analysis.versions[-1], "serial", "sync")
    it = analysis.new_interp(ctx)
    out: List[str] = []
    for kind, s, v in analysis.run_root(it, "sensor:Sensor.__getstate__", [], Sym(("root", "S"), ("cls", "sensor:Sensor")), it.new_state()):
        if kind != "val":
            continue
        ck = v.key() if hasattr(v, "key") else None
        for e in s.events:
            if e.kind in ("clear", "dictpop", "seqpop", "delitem", "append", "appendleft", "extend", "update", "setitem", "store") and hasattr(e.recv, "key") and e.recv.key() != ck:
                out.append(f"{e.kind} on {repr(e.recv.key())[:70]}")
    return sorted(set(out))


def decoder_side_effects(analysis: Analysis, enc_s) -> List[str]:
    """Mutations of long-lived state by the JSON object hook while it builds a Sensor."""
    from ..values import V

    d, outs = decode_paths(analysis, sorted(enc_s))
    out: List[str] = []
    for kind, s, v in outs:
        for e in s.events:
            if e.kind in ("setitem", "update", "append", "dictpop", "delitem", "clear", "store", "extend") and isinstance(e.recv, V):
                k = e.recv.key()
                if k[0] in ("obj", "dictv", "list", "listu") or (k[0] == "u" and str(k[1]).startswith(("dc@", "d@", "copy:"))):
                    continue
                out.append(f"{e.kind} {e.name} on {repr(k)[:70]}")
    return sorted(set(out))


def decode_paths(analysis: Analysis, keys, with_child: bool = False):
    """Abstract paths of the JSON object hook applied to a dict with exactly `keys` (symbolic values).
    with_child: the `children` entry is a map holding one already decoded ChildSensor (json decodes inner
    objects first), so that what the Sensor branch does to its children is visible."""
    from ..values import DictV, Obj, Sym

    ctx = analysis.context(analysis.versions[-1], "serial", "sync")
    it = analysis.new_interp(ctx)
    st = it.new_state()
    dec = Sym(("root", "DEC"), ("cls", "persistence:MySensorsJSONDecoder"))
    entries = {k: Sym(("root", "v_" + k), None) for k in keys}
    if with_child and "children" in entries:
        child = Obj("ChildSensor#decoded", "sensor:ChildSensor")
        for a in ("id", "type", "description", "values"):
            st.mem[(child.key(), "a", a)] = Sym(("root", "c_" + a), ("dict", "int", "str") if a == "values" else None)
        entries["children"] = DictV({7: child}, closed=True, label="children-in")
    d = DictV(entries, closed=True, label="in")
    return d, analysis.run_root(it, "persistence:MySensorsJSONDecoder.dict_to_object", [d], dec, st)


def digit_keys_rule(analysis: Analysis, res: RuleResult, rule: str, wd) -> None:
    """All-digit keys -> the same entries under int keys (node and child ids are ints in memory); by evaluating
    the object hook, wherever its body lives."""
    from ..engine import describe_path
    from ..values import DictV

    d, outs = decode_paths(analysis, ["0", "7", "255"])
    bad = []
    for out in outs:
        kind, s, v = out
        if kind != "val":
            bad.append((f"raises {v.cls.__name__}: {v.what}", out))
        elif not (isinstance(v, DictV) and v.closed and set(v.entries) == {0, 7, 255} and all(v.entries[i].key() == ("root", f"v_{i}") for i in (0, 7, 255))):
            bad.append((f"returns {sorted(getattr(v, 'entries', {}), key=str) if isinstance(v, DictV) else v.key()!r}: not every entry under its integer key with its own value", out))
    res.add(rule, "persistence:MySensorsJSONDecoder / all-digit keys become int keys, every entry and value kept (ids 0, 7, 255)", not bad and bool(outs), wd, "{int(k): v} for every item" if not bad else bad[0][0], describe_path(bad[0][1], 18) if bad else None)


def decoder_rules(analysis: Analysis, res: RuleResult, enc_s, enc_c, wd) -> None:
    """R2/R3 by evaluation: the object hook is run on a dict with exactly the encoder's keys of each class, on
    all-digit keys and on other dicts; what it returns is compared with what the encoder wrote."""
    from ..engine import describe_path
    from ..values import Const, DictV, Obj, V

    def final_attr(s, obj, name):
        return s.mem.get((obj.key(), "a", name))

    def side_effects(s) -> List[str]:
        """Mutations of anything the hook did not create itself (the decoder object, the gateway's maps ...)."""
        out = []
        for e in s.events:
            if e.kind in ("setitem", "update", "append", "dictpop", "delitem", "clear", "store", "extend") and isinstance(e.recv, V):
                k = e.recv.key()
                if k[0] in ("obj", "dictv", "list", "listu") or (k[0] == "u" and str(k[1]).startswith(("dc@", "d@", "copy:"))):
                    continue
                out.append(f"{e.kind} {e.name} on {repr(k)[:70]}")
        return out

    effects_seen: List[str] = []
    # Sensor dict -> Sensor
    d, outs = decode_paths(analysis, sorted(enc_s))
    bad = []
    for out in outs:
        kind, s, v = out
        effects_seen.extend(side_effects(s))
        if kind != "val":
            bad.append((f"raises {v.cls.__name__}: {v.what}", out))
            continue
        if not (isinstance(v, Obj) and v.cls == "sensor:Sensor"):
            bad.append((f"returns {v.key()!r}, not a Sensor", out))
            continue
        news = [e for e in s.events if e.kind == "new" and e.name == "sensor:Sensor"]
        if not (news and news[0].args and news[0].args[0].key() == ("root", "v_sensor_id")):
            bad.append(("the Sensor is not constructed with the encoded sensor_id", out))
        for k in sorted(enc_s):
            stores = [e for e in s.events if e.kind == "store" and isinstance(e.recv, V) and e.recv.key() == v.key() and e.name in (k, "_" + k) and not e.func.endswith(".__init__")]
            direct = final_attr(s, v, k)
            if not stores:
                bad.append((f"key {k} of a Sensor dict is not restored", out))
            elif direct is not None and k not in ("battery_level", "heartbeat", "protocol_version") and direct.key() != ("root", "v_" + k):
                bad.append((f"attribute {k} ends up as {direct.key()!r}, not the encoded value", out))
    res.add("C11-R2", "persistence:MySensorsJSONDecoder / a dict with the Sensor encoder's keys becomes a Sensor with every key restored", not bad and bool(outs), wd, f"{len(outs)} path(s): Sensor(v['sensor_id']) then every encoded key stored through its attribute / property" if not bad else bad[0][0], describe_path(bad[0][1], 18) if bad else None)
    res.add("C11-R2", "persistence:MySensorsJSONDecoder / the object hook has no effect beyond the objects it builds (nothing is inserted into the gateway while the document is still being parsed)", not effects_seen, wd, "pure construction" if not effects_seen else f"the hook mutates long-lived state ({sorted(set(effects_seen))[0]}): json runs it on every completed inner object, so a document that fails later has already changed the network (partial merge)")
    # children decoded earlier are handed on untouched by the Sensor branch
    d, outs = decode_paths(analysis, sorted(enc_s), with_child=True)
    touched = []
    for out in outs:
        kind, s, v = out
        ck = ("obj", "ChildSensor#decoded")
        for a in ("id", "type", "description", "values"):
            cur = s.mem.get((ck, "a", a))
            if cur is None or cur.key() != ("root", "c_" + a):
                touched.append((f"child.{a} ends up as {cur.key() if cur is not None else None!r}", out))
    res.add("C11-R2", "persistence:MySensorsJSONDecoder / the Sensor branch hands its (already decoded) children on unchanged", bool(outs) and not touched, wd, f"{len(outs)} path(s): id, type, description and values of a decoded child are left as decoded" if not touched else f"{touched[0][0]}: the JSON loader rewrites what it decoded (values the live gateway accepted are dropped on JSON load only)", describe_path(touched[0][1], 18) if touched else None)
    # ChildSensor dict -> ChildSensor (with and without the optional description)
    for keys, label in ((sorted(enc_c), "the ChildSensor encoder's keys"), (sorted(enc_c - {"description"}), "the ChildSensor keys minus the optional description")):
        d, outs = decode_paths(analysis, keys)
        bad = []
        for out in outs:
            kind, s, v = out
            if kind != "val":
                bad.append((f"raises {v.cls.__name__}: {v.what}", out))
                continue
            if not (isinstance(v, Obj) and v.cls == "sensor:ChildSensor"):
                bad.append((f"returns {v.key()!r}, not a ChildSensor", out))
                continue
            for k in keys:
                got = final_attr(s, v, k)
                if got is None or got.key() != ("root", "v_" + k):
                    bad.append((f"attribute {k} ends up as {got.key() if got is not None else None!r}, not the encoded value", out))
        res.add("C11-R2", f"persistence:MySensorsJSONDecoder / a dict with {label} becomes a ChildSensor with every key restored", not bad and bool(outs), wd, f"{len(outs)} path(s)" if not bad else bad[0][0], describe_path(bad[0][1], 18) if bad else None)
    digit_keys_rule(analysis, res, "C11-R3", wd)
    # anything else is returned untouched
    for keys in (["foo"], ["1", "x"]):
        d, outs = decode_paths(analysis, keys)
        ok = bool(outs) and all(k == "val" and isinstance(v, V) and v.key() == d.key() for k, s, v in outs)
        res.add("C11-R3", f"persistence:MySensorsJSONDecoder / a dict with keys {keys} is returned unchanged", ok, wd, "no recogniser applies" if ok else "a dict that is neither an encoded object nor an all-digit map is rewritten or raises")


def run(analysis: Analysis, tier: str) -> RuleResult:
    res = RuleResult(PROP)
    res.explanation = [
        "Sibling agreement between the constructor, the JSON encoder / decoder and the pickle get/setstate pair of Sensor and ChildSensor (syntax tree): the persisted projection is the same in both formats, every encoded key is restored through a name the class accepts, integer keys are restored, transient state is neither encoded nor allowed to survive a load.",
        "Value-level exactness (Unicode, number/str fidelity) and equality of the two formats on actual states are not decided.",
    ]
    p = analysis.p
    proj, conditional_keys = json_projection(p, with_conditional=True, analysis=analysis)
    sensor = p.classes["sensor:Sensor"]
    child = p.classes["sensor:ChildSensor"]
    s_init = init_attrs(sensor.methods["__init__"], analysis)
    c_init = init_attrs(child.methods["__init__"], analysis)
    w = common.where(analysis, sensor.methods["__init__"], sensor.methods["__init__"].node)
    s_names = {a.lstrip("_") for a in s_init}
    enc_s = set(proj["Sensor"])
    for cls_name, ck in conditional_keys.items():
        res.add("C11-R1", f"persistence:MySensorsJSONEncoder / every persisted attribute of {cls_name} is encoded unconditionally", not ck, "mysensors/persistence.py", "all keys are always written" if not ck else f"keys {sorted(ck)} are written only under a condition on the value: falsy values (0, '') are dropped by JSON but kept by pickle")
    # ---- R1
    setstate = sensor.methods.get("__setstate__")
    if setstate is None:
        raise AnalysisError("anchor vanished: Sensor.__setstate__")
    resets: Dict[str, str] = {}
    loop_line = None
    conditional: Set[str] = set()
    body = []
    for st in setstate.node.body:
        body.append(st)
        if isinstance(st, ast.Expr) and isinstance(st.value, ast.Call):
            # a private helper called at this point (self._x() or _x(self)): its assignments happen here
            probe = ast.FunctionDef(name="_probe", args=setstate.node.args, body=[st], decorator_list=[], lineno=st.lineno, col_offset=0)
            class _Probe:  # minimal FuncInfo stand-in for self_helper_bodies
                node = probe
                cls = setstate.cls
                module = setstate.module
            for hb in common.self_helper_bodies(analysis, _Probe)[1:]:
                body.extend(x for x in hb.body if isinstance(x, ast.Assign))
    for st in body:
        if isinstance(st, ast.For):
            loop_line = st.lineno
        if isinstance(st, ast.Assign):
            for t in st.targets:
                if isinstance(t, ast.Attribute) and isinstance(t.value, ast.Name) and t.value.id == "self":
                    resets[t.attr] = unparse(st.value)
                    if loop_line is None:
                        conditional.add(t.attr + " (before the restore loop)")
        elif isinstance(st, ast.If):
            for n in ast.walk(st):
                if isinstance(n, ast.Assign):
                    for t in n.targets:
                        if isinstance(t, ast.Attribute) and t.attr in TRANSIENT:
                            conditional.add(t.attr + " (conditional)")
    # alternative idiom: re-run the constructor, then restore everything but a skip list
    calls_init = any(isinstance(n, ast.Call) and unparse(n.func) == "self.__init__" for st in setstate.node.body[: 3] for n in ast.walk(st))
    if calls_init:
        for n in ast.walk(setstate.node):
            if isinstance(n, ast.If) and isinstance(n.test, ast.Compare) and isinstance(n.test.ops[0], ast.In) and isinstance(n.test.comparators[0], (ast.Tuple, ast.List, ast.Set)) and any(isinstance(b, ast.Continue) for b in n.body):
                for e in n.test.comparators[0].elts:
                    if isinstance(e, ast.Constant):
                        resets.setdefault(e.value, s_init.get(e.value, "?"))
        if loop_line is None:
            loop_line = next((st.lineno for st in setstate.node.body if isinstance(st, ast.For)), None)
        conditional = {c for c in conditional if "before the restore loop" not in c}
    res.add("C11-R1", "sensor:Sensor / constructor attributes = JSON keys + transient set", s_names == enc_s | TRANSIENT and not (enc_s & TRANSIENT), w, f"init {sorted(s_names)}; encoder {sorted(enc_s)}; transient {sorted(TRANSIENT)}")
    res.add("C11-R1", "sensor:Sensor.__setstate__ / resets exactly the transient attributes", set(resets) == TRANSIENT, common.where(analysis, setstate, setstate.node), f"resets {sorted(resets)}")
    for a in sorted(TRANSIENT & set(resets)):
        res.add("C11-R1", f"sensor:Sensor.__setstate__ / {a} is reset to its initial value", resets[a] == s_init.get(a), common.where(analysis, setstate, setstate.node), f"__setstate__: {resets[a]}, __init__: {s_init.get(a)}")
    res.add("C11-R4", "sensor:Sensor.__setstate__ / transient attributes are overwritten unconditionally after the restore loop", not conditional and loop_line is not None, common.where(analysis, setstate, setstate.node), "; ".join(sorted(conditional)) or "reset statements follow the setattr loop")
    getstate = sensor.methods.get("__getstate__")
    if getstate is None:
        raise AnalysisError("anchor vanished: Sensor.__getstate__")
    # by paths: which keys of the instance dict copy are popped and under which name the value is stored back
    renamed: Set[str] = set()
    gs_problems = []
    live_mut: List[str] = []
    from ..values import Const as _Const, Sym as _Sym

    ctx0 = analysis.context(analysis.versions[-1], "serial", "sync")
    it0 = analysis.new_interp(ctx0)
    outs0 = analysis.run_root(it0, getstate.qual, [], _Sym(("root", "S"), ("cls", sensor.qual)), it0.new_state())
    full = None
    for kind0, s0, v0 in outs0:
        if kind0 != "val":
            gs_problems.append(f"__getstate__ can raise {v0.cls.__name__}")
            continue
        pops = [e.args[0].value for e in s0.events if e.kind == "dictpop" and e.args and isinstance(e.args[0], _Const)]
        copy_key = v0.key() if hasattr(v0, "key") else None
        for e in s0.events:
            if e.kind in ("clear", "dictpop", "seqpop", "delitem", "append", "appendleft", "extend", "update", "setitem", "store") and hasattr(e.recv, "key") and e.recv.key() != copy_key:
                live_mut.append(f"{e.kind} on {repr(e.recv.key())[:70]}")
        for e in s0.events:
            if e.kind in ("dictpop", "delitem") and e.args and not isinstance(e.args[0], _Const):
                gs_problems.append("a computed key is removed from the pickled state")
            if e.kind == "setitem" and len(e.args) == 2:
                k, val = e.args
                src = val.key()
                from_get = isinstance(k, _Const) and isinstance(src, tuple) and src[0] == "get" and isinstance(src[2], tuple) and src[2][:2] == ("c", "str") and src[2][2] == "_" + str(k.value)
                from_attr = isinstance(k, _Const) and isinstance(src, tuple) and len(src) == 3 and src[0] == "attr" and src[2] == "_" + str(k.value)
                if not (from_get or from_attr):
                    gs_problems.append(f"state[{k.key()!r}] is stored from {src!r}: not the value popped from the private attribute of that name")
        renamed |= set(pops)
        full = set(pops) if full is None else (full & set(pops))
    if full is not None and renamed != full:
        gs_problems.append(f"attributes {sorted(renamed - full)} are renamed on some paths only")
    res.add("C11-R1", "sensor:Sensor.__getstate__ / each renamed value is stored under the property name of the private attribute it was popped from", not gs_problems, common.where(analysis, getstate, getstate.node), "state[name] = state.pop('_' + name)" if not gs_problems else "; ".join(sorted(set(gs_problems))[:3]))
    res.add("C11-R1", "sensor:Sensor.__getstate__ / saving does not change the live object (only the copied dict is edited)", not live_mut, common.where(analysis, getstate, getstate.node), "mutations only on the copy of the instance dict" if not live_mut else f"__getstate__ mutates an object the copy shares with the live sensor ({sorted(set(live_mut))[0]}): the copy is shallow, so every pickle save empties the node's sleep state / hold queue", None)
    # settable properties as the class object has them (reflection: @x.setter methods and property objects a
    # factory put into the class body alike)
    refl_cls = analysis.refl["classes"].get("mysensors.sensor:Sensor")
    if refl_cls is None:
        raise AnalysisError("anchor vanished: class mysensors.sensor:Sensor not reflected")
    prop_setters = set(refl_cls["prop_setters"])
    setters = {"_" + name for name in prop_setters}
    res.add("C11-R1", "sensor:Sensor.__getstate__ / renames exactly the private attributes behind a property with setter", renamed == setters, common.where(analysis, getstate, getstate.node), f"renamed {sorted(renamed)}; settable properties {sorted(setters)}")
    private = {a for a in s_init if a.startswith("_")}
    res.add("C11-R1", "sensor:Sensor / every private attribute is behind a settable property", private == setters, w, f"private {sorted(private)}")
    # pickle writes __dict__ (minus renames): the persisted attribute set is the same as JSON's
    gs_txt = unparse(getstate.node)
    res.add("C11-R1", "sensor:Sensor.__getstate__ / state is the instance dict", "self.__dict__.copy()" in gs_txt, common.where(analysis, getstate, getstate.node), "state = self.__dict__.copy()")
    # ---- R2
    enc_c = set(proj["ChildSensor"])
    wc = common.where(analysis, child.methods["__init__"], child.methods["__init__"].node)
    res.add("C11-R2", "sensor:ChildSensor / constructor attributes = JSON keys", set(c_init) == enc_c == {"id", "type", "description", "values"}, wc, f"init {sorted(c_init)}; encoder {sorted(enc_c)}")
    dec = p.func("persistence:MySensorsJSONDecoder.dict_to_object")
    wd = common.where(analysis, dec, dec.node)
    decoder_rules(analysis, res, enc_s, enc_c, wd)
    plain = {a for a in s_init if not a.startswith("_")}
    settable = plain | prop_setters
    missing = enc_s - settable
    res.add("C11-R3", "sensor:Sensor / every encoded key is a settable attribute or property", not missing, w, f"not settable: {sorted(missing)}" if missing else "decoder restores with setattr(sensor, key, val)")
    # ---- R4
    res.add("C11-R4", "persistence:MySensorsJSONEncoder / transient state is not encoded", not (enc_s & TRANSIENT) and not (enc_c & TRANSIENT), "mysensors/persistence.py", f"encoded Sensor keys {sorted(enc_s)}")
    # encoder reads the public names (through the properties), so fallbacks applied by setters are what is saved
    enc = p.func("persistence:MySensorsJSONEncoder.default")
    bad = []
    for n in ast.walk(enc.node):
        if isinstance(n, ast.Dict):
            for k, v in zip(n.keys, n.values):
                if isinstance(k, ast.Constant) and not (isinstance(v, ast.Attribute) and v.attr == k.value):
                    bad.append(f"{k.value}: {unparse(v)}")
        elif isinstance(n, ast.DictComp) and isinstance(n.key, ast.Name):
            ok_v = isinstance(n.value, ast.Call) and unparse(n.value.func) == "getattr" and len(n.value.args) == 2 and unparse(n.value.args[1]) == n.key.id
            if not ok_v:
                bad.append(f"{unparse(n.key)}: {unparse(n.value)}")
    res.add("C11-R1", "persistence:MySensorsJSONEncoder / every key is encoded from the attribute of the same name", not bad, common.where(analysis, enc, enc.node), "; ".join(bad) or "key == attribute name")
    cs = child.methods.get("__setstate__")
    if cs is not None:
        txt = unparse(cs.node)
        res.add("C11-R2", "sensor:ChildSensor.__setstate__ / restores the whole instance dict", "self.__dict__.update(state)" in txt, common.where(analysis, cs, cs.node), "pickle restores id, type, description, values")
    # R5: what a save writes is the dump of the sensor map and nothing else (shared with C12-R1/R2)
    from . import c12, persist

    tmp = RuleResult(PROP)
    for summ in common.pmap(analysis, c12.save_worker, [(e, (analysis.versions[-1], "serial", "sync")) for e in persist.EXTS]):
        c12.analyse_save_rows(tmp, summ)
    for o in tmp.obs:
        if any(t in o.construct for t in ("written from empty", "sensor map is what is dumped", "every string can be written", "marked unsaved", "dirty flag", "a save is skipped only", "does not modify the live state")):
            res.add("C11-R5", o.construct, o.ok, o.where, o.detail, o.witness)
    # R4: pickle writes the whole instance dict, the transient hold queue included (it is only reset on load):
    # whatever is put into Sensor.queue must be plain picklable data - the encoded line, not an object that
    # drags the message, the gateway and the const module into the pickle (shared with C07-R2)
    from . import c07

    c07.hold_queue_plain(analysis, res, "C11-R4")
    # a load restores the saved state only if nothing saves before it has completed (shared with C13-R4)
    from .c13 import start_rule

    start_rule(analysis, res, "C11-R5")
    res.need("C11-R5", 2, "save-path obligations")
    res.need("C11-R1", 5, "field agreement obligations")
    res.units = {"classes": ["sensor:Sensor", "sensor:ChildSensor", "persistence:MySensorsJSONEncoder", "persistence:MySensorsJSONDecoder"], "source_digest": analysis.p.digest()}
    res.not_decided = ["value-level exactness (Unicode, JSON number/str fidelity)", "equality of the two formats on actual states"]
    res.trusted = ["python ast"]
    return res
