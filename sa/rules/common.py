"""Helpers shared by the rule modules: parallel context runs, global invariants, AST queries."""
from __future__ import annotations

import ast
import multiprocessing
import os
from typing import Callable, Dict, Iterable, List, Optional, Tuple

from ..engine import Analysis
from ..frontend import AnalysisError, FuncInfo, norm_stmt, unparse
from ..interp import SEEDS
from ..report import RuleResult

_ANALYSIS: Optional[Analysis] = None
_WORKER: Optional[Callable] = None


def _call(arg):
    try:
        return ("ok", _WORKER(_ANALYSIS, arg))
    except AnalysisError as exc:
        return ("analysis-error", str(exc))
    except RecursionError:
        return ("analysis-error", f"recursion limit in worker for {arg!r}")


def pmap(analysis: Analysis, worker: Callable, items: List, jobs: Optional[int] = None) -> List:
    """Run worker(analysis, item) for every item, in forked worker processes."""
    global _ANALYSIS, _WORKER
    _ANALYSIS, _WORKER = analysis, worker
    jobs = jobs or int(os.environ.get("VERIF_JOBS", "16"))
    jobs = max(1, min(jobs, len(items)))
    if jobs == 1 or len(items) <= 1:
        results = [_call(i) for i in items]
    else:
        ctx = multiprocessing.get_context("fork")
        with ctx.Pool(jobs) as pool:
            results = pool.map(_call, items, chunksize=1)
    out = []
    for status, val in results:
        if status != "ok":
            raise AnalysisError(val)
        out.append(val)
    return out


def where(analysis: Analysis, info_or_mod, node) -> str:
    mod = info_or_mod.module if isinstance(info_or_mod, FuncInfo) else info_or_mod
    return f"{analysis.p.relpath(mod)}:{getattr(node, 'lineno', 0)}"


def func_of_node(analysis: Analysis, mod, target) -> str:
    """Qualified name of the innermost function of `mod` containing node `target`."""
    best = None
    for info in analysis.p.funcs.values():
        if info.module is not mod:
            continue
        n = info.node
        if getattr(n, "lineno", 0) <= target.lineno <= getattr(n, "end_lineno", 0):
            if best is None or n.lineno >= best.node.lineno:
                best = info
    return best.qual if best else f"{mod.label}:<module>"


STATE_MAPS = {"sensors", "_sensors", "children", "new_state"}


def core_modules(analysis: Analysis):
    for name, mod in analysis.p.modules.items():
        if name.startswith("cli") or name.startswith("const_"):
            continue
        yield mod


def check_no_key_removal(analysis: Analysis, res: RuleResult, rule: str, maps=None, what=None, why=None) -> None:
    """G-NODEL: nothing removes a key from Gateway.sensors / Sensor.children / Sensor.new_state.

    The membership facts of the path analysis survive calls because of this invariant.
    """
    STATE_MAPS = maps or globals()["STATE_MAPS"]
    count = 0
    for mod in core_modules(analysis):
        # local aliases: `m = x.new_state` makes `m` a name of the map inside that function
        alias = set()
        for node in ast.walk(mod.tree):
            if isinstance(node, (ast.Assign, ast.AnnAssign)) and isinstance(node.value, ast.Attribute) and node.value.attr in STATE_MAPS:
                for t in (node.targets if isinstance(node, ast.Assign) else [node.target]):
                    if isinstance(t, ast.Name):
                        alias.add((func_of_node(analysis, mod, node), t.id))

        def is_map(expr, at) -> bool:
            if isinstance(expr, ast.Attribute) and expr.attr in STATE_MAPS:
                return True
            return isinstance(expr, ast.Name) and bool(alias) and (func_of_node(analysis, mod, at), expr.id) in alias

        for node in ast.walk(mod.tree):
            bad = None
            if isinstance(node, ast.Delete):
                for t in node.targets:
                    if isinstance(t, ast.Subscript) and is_map(t.value, node):
                        bad = f"del {unparse(t)}"
            elif isinstance(node, ast.Call) and isinstance(node.func, ast.Attribute) and node.func.attr in ("pop", "popitem", "clear"):
                recv = node.func.value
                if is_map(recv, node):
                    bad = unparse(node)
            elif isinstance(node, (ast.Assign, ast.AugAssign, ast.AnnAssign)):
                targets = node.targets if isinstance(node, ast.Assign) else [node.target]
                for t in targets:
                    if isinstance(t, ast.Attribute) and t.attr in STATE_MAPS:
                        fn = func_of_node(analysis, mod, node)
                        short = fn.split(".")[-1]
                        ctor_like = short in ("__init__", "__setstate__") or owned_by(analysis, fn, {q for q in analysis.p.funcs if q.split(".")[-1] in ("__init__", "__setstate__")})
                        if not ctor_like:
                            bad = f"{unparse(t)} reassigned"
                        else:
                            count += 1
            if bad:
                fn = func_of_node(analysis, mod, node)
                res.add(rule, f"{fn} / {bad}", False, where(analysis, mod, node), why or "a key of the node/child/desired-state maps can be removed or the map replaced: membership facts no longer survive calls")
    res.add(rule, what or "no-removal scan of sensors/children/new_state", True, "mysensors/", f"no del/pop/popitem/clear/reassignment outside constructors ({count} constructor initialisations seen)")


def check_key_identity(analysis: Analysis, res: RuleResult, rule: str) -> None:
    """INV-KEY-ID: every insertion into the maps stores an object constructed with its key."""
    n = 0
    for mod in core_modules(analysis):
        for node in ast.walk(mod.tree):
            if not isinstance(node, ast.Assign):
                continue
            for t in node.targets:
                if isinstance(t, ast.Subscript) and isinstance(t.value, ast.Attribute) and t.value.attr in ("sensors", "children", "new_state"):
                    fn = func_of_node(analysis, mod, node)
                    key = unparse(t.slice)
                    val = node.value
                    ok = isinstance(val, ast.Call) and val.args and unparse(val.args[0]) == key and unparse(val.func) in ("Sensor", "ChildSensor")
                    if not ok and isinstance(val, ast.Call) and isinstance(val.func, ast.Name):
                        # a private helper that only ever returns such a constructor call: its first argument,
                        # with the helper's parameters replaced by the arguments of this call, must be the key
                        r = analysis.p.resolve_global(mod, val.func.id)
                        if r and r[0] == "func" and val.func.id.startswith("_") and not val.keywords:
                            h = r[1].node
                            params = [a.arg for a in h.args.args]
                            rets = [x.value for x in ast.walk(h) if isinstance(x, ast.Return)]
                            if rets and len(params) == len(val.args) and all(isinstance(x, ast.Call) and unparse(x.func) in ("Sensor", "ChildSensor") and x.args for x in rets):
                                sub = dict(zip(params, [unparse(a) for a in val.args]))

                                class _Sub(ast.NodeTransformer):
                                    def visit_Name(self, n):
                                        return ast.parse(sub[n.id], mode="eval").body if n.id in sub else n

                                ok = all(unparse(_Sub().visit(ast.parse(unparse(x.args[0]), mode="eval").body)) == key for x in rets)
                    n += 1
                    res.add(rule, f"{fn} / {norm_stmt(t)} = ...", ok, where(analysis, mod, node), "inserted object is constructed with the key as its id" if ok else f"inserted value {unparse(val)[:60]} is not an object constructed with the key {key}")
    if n < 2:
        raise AnalysisError(f"{rule}: only {n} map insertion sites found, expected at least 2")


def self_helper_bodies(analysis: Analysis, info) -> list:
    """Function nodes whose statements act on `self` on behalf of method `info`: the method itself, private methods
    it calls as `self._x()` and private module-level functions it calls with `self` as an argument (`_reset(self)`) -
    the latter with the receiving parameter renamed to `self`, so `p.attr = v` reads as `self.attr = v`. One level."""
    bodies = [info.node]
    if info.cls is None:
        return bodies
    import copy as _copy

    selfname = info.node.args.args[0].arg if info.node.args.args else "self"
    for c in ast.walk(info.node):
        if not isinstance(c, ast.Call):
            continue
        if isinstance(c.func, ast.Attribute) and isinstance(c.func.value, ast.Name) and c.func.value.id == selfname and c.func.attr.startswith("_") and not c.func.attr.startswith("__"):
            m = analysis.p.find_method(info.cls.qual, c.func.attr)
            if hasattr(m, "node") and m.node not in bodies:
                bodies.append(m.node)
        elif isinstance(c.func, ast.Name) and c.func.id.startswith("_"):
            pos = [i for i, a in enumerate(c.args) if isinstance(a, ast.Name) and a.id == selfname]
            r = analysis.p.resolve_global(info.module, c.func.id)
            if pos and r and r[0] == "func" and not isinstance(r[1].node, ast.Lambda) and len(r[1].node.args.args) > pos[0]:
                h = _copy.deepcopy(r[1].node)
                pname = h.args.args[pos[0]].arg

                class _Ren(ast.NodeTransformer):
                    def visit_Name(self, n):
                        return ast.copy_location(ast.Name(id="self", ctx=n.ctx), n) if n.id == pname else n

                bodies.append(_Ren().visit(h))
    return bodies


def check_seeds(analysis: Analysis) -> List[str]:
    """Cross-check the attribute type seeds against the constructors (shape of the initial value)."""
    problems = []
    p = analysis.p
    for (cls_name, attr), (ty, nullable) in SEEDS.items():
        cands = [c for c in p.class_by_name.get(cls_name, []) if not c.module.name.startswith("const_")]
        if not cands:
            problems.append(f"seed class {cls_name} not found")
            continue
        cls = cands[0]
        found = False
        for q in [cls.qual] + p.subclasses(cls.qual):
            c = p.classes[q]
            for m in c.methods.values():
                for node in (x for b in self_helper_bodies(analysis, m) for x in ast.walk(b)):
                    if isinstance(node, (ast.Assign, ast.AnnAssign)):
                        targets = node.targets if isinstance(node, ast.Assign) else [node.target]
                        for t in targets:
                            for tt in (t.elts if isinstance(t, ast.Tuple) else [t]):
                                if isinstance(tt, ast.Attribute) and tt.attr == attr and isinstance(tt.value, ast.Name) and tt.value.id == "self":
                                    found = True
                                    val = node.value
                                    if isinstance(ty, tuple) and ty[0] == "dict" and m.name == "__init__" and not isinstance(val, (ast.Dict, ast.Name, ast.Call)):
                                        problems.append(f"{q}.{attr}: seed says dict, constructor assigns {unparse(val)[:40]}")
                                    if isinstance(ty, tuple) and ty[0] == "deque" and m.name == "__init__" and "deque" not in unparse(val):
                                        problems.append(f"{q}.{attr}: seed says deque, constructor assigns {unparse(val)[:40]}")
        if not found and attr.startswith("_") and not attr.startswith("__"):
            continue  # a private attribute that is gone (renamed / re-represented): the seed is inert
        if not found:
            problems.append(f"seed {cls_name}.{attr}: no assignment self.{attr} = ... found")
    return problems


def calls_in(node: ast.AST, name: Optional[str] = None) -> Iterable[ast.Call]:
    for n in ast.walk(node):
        if isinstance(n, ast.Call):
            if name is None:
                yield n
            else:
                f = n.func
                if (isinstance(f, ast.Attribute) and f.attr == name) or (isinstance(f, ast.Name) and f.id == name):
                    yield n


def callers_of(analysis: Analysis, qual: str) -> List[str]:
    """Functions of the core modules that syntactically call `qual` (by bare or attribute name) or that mention
    its name as a value (`f = _helper if c else _other; f(x)`, `functools.partial(_helper, ...)`, a table of
    functions): whoever can get hold of the function is a potential caller."""
    name = qual.split(":")[1].split(".")[-1]
    private = name.startswith("_") and not name.startswith("__")
    out = []
    for mod in core_modules(analysis):
        for node in ast.walk(mod.tree):
            if isinstance(node, ast.Call):
                f = node.func
                if (isinstance(f, ast.Name) and f.id == name) or (isinstance(f, ast.Attribute) and f.attr == name):
                    out.append(func_of_node(analysis, mod, node))
            elif private and isinstance(node, (ast.Name, ast.Attribute)) and isinstance(node.ctx, ast.Load) and (node.id if isinstance(node, ast.Name) else node.attr) == name:
                fn = func_of_node(analysis, mod, node)
                if fn not in out:
                    out.append(fn)
    return out


def owned_by(analysis: Analysis, qual: str, allowed, _depth: int = 0) -> bool:
    """Is `qual` one of `allowed`, or a private helper all of whose callers are (transitively) owned by `allowed`?

    Lets a who-may-call rule survive "extract helper" refactorings: a new private function that is
    only reachable from the allowed functions is as good as its callers.
    """
    if qual in allowed:
        return True
    if _depth > 4:
        return False
    short = qual.split(":")[1].split(".")[-1]
    if not short.startswith("_") or short.startswith("__"):
        return False
    cs = [c for c in callers_of(analysis, qual) if c != qual]
    return bool(cs) and all(owned_by(analysis, c, allowed, _depth + 1) for c in cs)


def setter_outs(analysis: Analysis, it, st, cls_qual: str, prop: str, obj, value):
    """Evaluate the setter of property `prop` of a repo class - an `@x.setter` method or the fset of a property
    object a factory built in the class body - on (obj, value). Returns (qualified name, node, outcomes)."""
    cls = analysis.p.classes[cls_qual]
    pr = analysis.p.find_prop(cls_qual, prop)
    if pr is not None and "set" in pr:
        info = pr["set"]
        return info.qual, info.node, analysis.run_root(it, info.qual, [value], obj, st)
    dp = it.dyn_prop(cls_qual, prop)
    fset = (dp.args[1] if len(dp.args) > 1 else dp.kwargs.get("fset")) if dp is not None else None
    if fset is None or not hasattr(fset, "info"):
        raise AnalysisError(f"anchor vanished: {cls_qual}.{prop} has no setter (neither @{prop}.setter nor a property object in the class body of {cls.qual})")
    return fset.info.qual, fset.info.node, it.call(st, fset, [obj, value], {}, fset.info.node)


def inbound_message_key(events, root: str = "__init__:Gateway.logic"):
    """Key of the inbound message on a path through Gateway.logic: the Message decoded from the root's line
    argument, wherever the decoding happens (logic itself or a helper it calls)."""
    for e in events:
        if e.kind == "new" and e.name == "message:Message":
            from_line = bool(e.args) and hasattr(e.args[0], "key") and e.args[0].key() == ("root", "line")
            if e.func == root or from_line:
                return e.recv.key()
    return None
