"""C06 - Node ids are never handed out twice (structural clauses).

R1 fresh by construction: every non-None value the allocator returns is max(known ids)+k (k>=1)
   under a non-empty map, a positive constant on the empty-map path, or dominated by `v not in
   known ids`.
R2 bounds: the non-None return is dominated by v <= MAX_NODE_ID, which equals the upper bound
   of every version's I_ID_RESPONSE payload rule, and the lower bound is >= 1.
R3 reserve before reply: on every path of the id-request handler the id in the response is the
   key inserted into the node map on that very path; no insertion, no response.
R4 no forgetting: nothing removes keys from the node map (G-NODEL).
R5 across restart: the reservation is a persisted mutation followed by alert() (dirty), and the
   JSON loader restores integer keys.
"""
from __future__ import annotations

import ast

from .. import descr
from ..engine import Analysis, describe_path
from ..frontend import AnalysisError, unparse
from ..report import RuleResult
from ..values import Const, Sym, Unknown, V
from . import common, pathsum
from .c14 import specs_for

PROP = "C06"


def allocator_worker(analysis: Analysis, spec) -> dict:
    ctx = analysis.context(*spec)
    it = analysis.new_interp(ctx)
    st, gw = analysis.gateway_state(it)
    outs = analysis.run_root(it, "__init__:Gateway._get_next_id", [], gw, st)
    sens = ("attr", gw.key(), "sensors")
    maxid = analysis.refl["consts"][ctx.version]["MAX_NODE_ID"]
    rows = []
    for out in outs:
        kind, s, v = out
        if kind != "val":
            rows.append({"form": "raises", "ok": False, "bounded": False, "detail": f"{v.cls.__name__}: {v.what}", "witness": describe_path(out)})
            continue
        if isinstance(v, Const) and v.value is None:
            # giving up is justified only by the candidate exceeding MAX_NODE_ID
            above = any(f[0] == "atom" and f[1][0] == "cmp" and f[1][3] == ("c", "int", maxid) and ((f[1][1] == "LtE" and f[2] is False) or (f[1][1] == "Gt" and f[2] is True)) for f in s.facts)
            above = above or any(f[0] == "atom" and f[1][0] == "cmp" and f[1][3] == ("c", "int", maxid + 1) and ((f[1][1] == "Lt" and f[2] is False) or (f[1][1] == "GtE" and f[2] is True)) for f in s.facts)
            rows.append({"form": "none", "ok": True, "bounded": True, "exhausted": above, "detail": "no id available", "witness": describe_path(out)})
            continue
        form = None
        if isinstance(v, Const) and isinstance(v.value, int):
            if v.value >= 1 and ("falsy", sens) in s.facts:
                form = f"constant {v.value} on the empty-map path"
            elif ("notin", v.key(), sens) in s.facts and v.value >= 1:
                form = f"constant {v.value} not in the map"
        elif getattr(v, "gt_all_keys_of", None) == sens and (("truthy", sens) in s.facts):
            form = "max(known ids) + k, k >= 1, map non-empty"
        elif getattr(v, "gt_all_keys_of", None) == sens and (getattr(v, "lower_bound", None) or 0) >= 1:
            form = f"max(known ids, default=c) + k >= {v.lower_bound}, k >= 1 (also on the empty map)"
        elif ("notin", v.key(), sens) in s.facts:
            form = "value dominated by `not in known ids`"
        bounded = False
        for f in s.facts:
            if f[0] == "atom" and f[1][0] == "cmp" and f[2] is True and f[1][1] == "LtE" and f[1][2] == v.key() and f[1][3] == ("c", "int", maxid):
                bounded = True
            if f[0] == "atom" and f[1][0] == "cmp" and f[2] is False and f[1][1] == "Gt" and f[1][2] == v.key() and f[1][3] == ("c", "int", maxid):
                bounded = True
        if isinstance(v, Const) and isinstance(v.value, int) and 1 <= v.value <= maxid:
            bounded = True
        rows.append({"form": form, "ok": form is not None, "bounded": bounded, "detail": form or f"returned value {v.key()!r} is not fresh by any recognised argument", "witness": describe_path(out)})
    return {"ctx": ctx.name, "version": ctx.version, "rows": rows}


def allocator_gives_up_late(analysis: Analysis, res: RuleResult, rule: str) -> None:
    """The allocator returns None only when its candidate exceeds MAX_NODE_ID (shared by C06-R2 and C04-R1)."""
    for summ in common.pmap(analysis, allocator_worker, [(analysis.versions[-1], "serial", "sync")]):
        for r in summ["rows"]:
            if r["form"] == "none":
                res.add(rule, "__init__:Gateway._get_next_id / gives up only when the candidate id exceeds MAX_NODE_ID (254 is still handed out)", r["exhausted"], "mysensors/__init__.py", "None is returned under `candidate > MAX_NODE_ID`" if r["exhausted"] else "None is returned on a path that is not guarded by `candidate > MAX_NODE_ID`: an id request that could be served (e.g. 254) gets no node, no callback and no reply", r["witness"] if not r["exhausted"] else None, context=summ["ctx"])


def run(analysis: Analysis, tier: str) -> RuleResult:
    res = RuleResult(PROP)
    res.explanation = [
        "R1/R2 all abstract paths of the allocator: each non-None return is fresh by construction (max+k over a non-empty map, constant >= 1 on the empty map, or dominated by `not in`) and dominated by `<= MAX_NODE_ID`, which equals the I_ID_RESPONSE upper bound of every version;",
        "R3 every path of the id-request handler answers with the key it inserted on that path (reserve before reply), no insertion no answer; R4 no key removal anywhere; R5 the reservation is followed by alert() (marks dirty) and the loader restores integer keys.",
        "Uniqueness when user code mutates gateway.sensors directly is outside the claim.",
    ]
    versions = analysis.versions
    for summ in common.pmap(analysis, allocator_worker, [(v, "serial", "sync") for v in versions]):
        nonnone = [r for r in summ["rows"] if r["form"] != "none"]
        if not nonnone:
            res.add("C06-R1", "__init__:Gateway._get_next_id / hands out ids", False, "mysensors/__init__.py", "no path of the allocator returns an id", context=summ["ctx"])
        for r in summ["rows"]:
            if r["form"] == "none":
                res.add("C06-R1", "__init__:Gateway._get_next_id / returns None when no id is available", True, "mysensors/__init__.py", r["detail"], context=summ["ctx"])
                continue
            res.add("C06-R1", "__init__:Gateway._get_next_id / returned id is fresh by construction", r["ok"], "mysensors/__init__.py", r["detail"], r["witness"] if not r["ok"] else None, context=summ["ctx"])
            res.add("C06-R2", "__init__:Gateway._get_next_id / returned id is dominated by id <= MAX_NODE_ID", r["bounded"], "mysensors/__init__.py", "upper bound check on the path" if r["bounded"] else "an id above MAX_NODE_ID can be returned", r["witness"] if not r["bounded"] else None, context=summ["ctx"])
        ver = summ["version"]
        c = analysis.refl["consts"][ver]
        internal = {n: v for n, v in c["enums"]["MessageType"]["members"]}["internal"]
        idresp = {n: v for n, v in c["enums"]["Internal"]["members"]}.get("I_ID_RESPONSE")
        row = c["VALID_PAYLOADS"].get(str(internal), {}).get(str(idresp))
        form = descr.norm(row["d"]) if row else None
        ok = form is not None and form[0] == "INT_RANGE" and form[1] == 1 and form[2] == c["MAX_NODE_ID"] == 254
        res.add("C06-R2", f"{ver}: allocator bound and I_ID_RESPONSE rule agree on 1..254", ok, c["module"], f"MAX_NODE_ID {c['MAX_NODE_ID']}, response rule {descr.show(form)}")
    allocator_gives_up_late(analysis, res, "C06-R2")
    # R3 from the handler paths
    specs = specs_for(analysis, tier)
    recs = common.pmap(analysis, pathsum.logic_records, specs)
    n = 0
    answered = 0
    for rs in recs:
        for r in rs:
            if r["kind"] != "val" or r["sub"] != "I_ID_REQUEST":
                continue
            n += 1
            ins = [m for m in r["muts"] if m["cat"] == "node-insert"]
            hr = r["handler_ret"]
            if hr["kind"] == "none":
                res.add("C06-R3", "handler:handle_id_request / no reservation, no response", not ins, "mysensors/handler.py", "silent when nothing was reserved" if not ins else "a node is reserved but no id response is sent", r["witness"] if ins else None, context=r["ctx"])
                continue
            answered += 1
            pay = hr.get("overrides", {}).get("payload")
            ok = len(ins) == 1 and pay == ins[0]["key"]
            res.add("C06-R3", "handler:handle_id_request / the id in the response is the key reserved on this path", ok, "mysensors/handler.py", f"payload {pay}, inserted key {[m['key'] for m in ins]}", r["witness"] if not ok else None, context=r["ctx"])
            fresh = ins and any(f.startswith("notin:") and f.endswith("@GW.sensors") for f in ins[0]["facts"])
            res.add("C06-R3", "handler:handle_id_request / reserved id was not a known node", bool(fresh), "mysensors/__init__.py", "insertion dominated by `id not in sensors`", r["witness"] if not fresh else None, context=r["ctx"])
            last = max(m["idx"] for m in ins) if ins else -1
            alerted = any(a["idx"] > last for a in r["alerts"])
            res.add("C06-R5", "handler:handle_id_request / the reservation marks the state dirty (alert)", alerted, "mysensors/handler.py", "alert() follows the reservation, so the next save / stop() persists it" if alerted else "the reservation is not marked dirty: after a clean stop and restart the same id is handed out again", r["witness"] if not alerted else None, context=r["ctx"])
    if n < 10 or answered < 5:
        raise AnalysisError(f"C06-R3: only {n} id-request paths / {answered} answering paths found")
    common.check_no_key_removal(analysis, res, "C06-R4")
    # R5: the dirty flag set by the reservation must survive until a save really completed
    from . import c14

    before = len(res.obs)
    # ... which needs: alert() really marks dirty on each of its paths, and the clean stop closes the link
    # before its single final save (an id reserved after the last save would be handed out again after restart)
    c14.alert_and_stop(analysis, res, "C06-R5", "C06-R5")
    c14.pump_stops(analysis, res, "C06-R5")
    from . import c07

    c07.hold_queue_plain(analysis, res, "C06-R5")
    c14.flag_writers(analysis, res)
    for o in res.obs[before:]:
        o.rule = "C06-R5"
    res.reindex()
    # R5: the loader restores integer keys (ids are compared as ints): by evaluating the object hook on an
    # all-digit dict, wherever its body lives (C11-R3, shared)
    from . import c11

    info = analysis.p.func("persistence:MySensorsJSONDecoder.dict_to_object")
    c11.digit_keys_rule(analysis, res, "C06-R5", common.where(analysis, info, info.node))
    res.units = {"id_request_paths": n, "answering_paths": answered, "contexts": len(specs), "source_digest": analysis.p.digest()}
    res.not_decided = ["uniqueness if user code edits gateway.sensors directly"]
    res.trusted = ["arithmetic fact: max(keys)+k (k>=1) is not a key", "sa/extmodel.py"]
    return res
