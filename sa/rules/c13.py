"""C13 - Start-up survives damaged persistence files.

R1 content errors are covered: no exception class that a decoder raises because of file
   content (pickle: UnpicklingError, EOFError, AttributeError, ImportError, IndexError,
   ValueError; json: JSONDecodeError, UnicodeDecodeError) escapes safe_load_sensors, for the
   main and for the backup attempt; nothing in the handlers re-raises.
R2 decode before apply: in each _load_* the only mutation of the sensor map is one update()
   whose argument is the completed decode; a failing decode applies nothing.
R3 fallback order: a damaged backup is removed and not retried; the backup is only tried after
   the main load failed (shared with C12-R4).
"""
from __future__ import annotations

import json
import pickle

from ..engine import Analysis, describe_path
from ..frontend import AnalysisError
from ..report import RuleResult
from . import common, persist
from .c12 import analyse_load_rows_c12, load_worker

PROP = "C13"
CONTENT_ERRORS = {
    "pickle": (pickle.UnpicklingError, EOFError, AttributeError, ImportError, IndexError, ValueError),
    "json": (json.JSONDecodeError, UnicodeDecodeError, ValueError),
}


def start_worker(analysis: Analysis, flavour: str) -> dict:
    """start_persistence of one flavour: with persistence on, every path goes through safe_load_sensors."""
    from ..values import Sym

    SAFE = "persistence:Persistence.safe_load_sensors"
    ctx = analysis.context(analysis.versions[-1], "serial", flavour)
    it = analysis.new_interp(ctx)
    it.inline_skip = {SAFE}
    st, gw = analysis.gateway_state(it)
    tasks = Sym(("attr", gw.key(), "tasks"), ("cls", ctx.tasks))
    pkey = ("attr", tasks.key(), "persistence")
    m = analysis.p.find_method(ctx.tasks, "start_persistence")
    if m is None:
        raise AnalysisError(f"anchor vanished: {ctx.tasks}.start_persistence")
    outs = analysis.run_root(it, m.qual, [], tasks, st)
    if m.is_async:
        res = []
        for kind, s, v in outs:
            if kind == "val" and hasattr(v, "fn"):
                res.extend(it.call_func(s, v.fn, list(v.args), v.kwargs, m.node))
            else:
                res.append((kind, s, v))
        outs = res
    rows = []
    for out in outs:
        kind, s, v = out
        if kind == "raise":
            continue
        on = ("truthy", pkey) in s.facts
        # the load has completed (it ran: opaque event) before anything else of the persistence object is started
        load_i = [i for i, e in enumerate(s.events) if e.kind == "opaque" and e.name == SAFE]
        sched_i = [i for i, e in enumerate(s.events) if (e.kind in ("call", "opaque", "await") and ("schedule_save" in e.name or (hasattr(e.recv, "key") and "schedule_save" in repr(e.recv.key()))))]
        ordered = bool(load_i) and (not sched_i or load_i[0] < sched_i[0])
        rows.append({"on": on, "loads": len(load_i), "ordered": ordered, "witness": describe_path(out, 14)})
    return {"qual": m.qual, "rows": rows}


def start_rule(analysis: Analysis, res: RuleResult, rule: str) -> None:
    """Both start_persistence variants run the safe loader to completion before the save schedule starts."""
    # R4: the safe loader is what start-up uses, whatever files exist (main missing + intact backup included)
    for summ in common.pmap(analysis, start_worker, ["sync", "async"]):
        on = [r for r in summ["rows"] if r["on"]]
        if not on:
            res.add(rule, f"{summ['qual']} / loads the saved network when persistence is on", False, "mysensors/task.py", "no path with persistence on")
        for r in on:
            ok = r["loads"] >= 1 and r["ordered"]
            res.add(rule, f"{summ['qual']} / every start with persistence on runs safe_load_sensors to completion before the save schedule is started", ok, "mysensors/task.py", "safe_load_sensors() completes first on every path" if ok else "a path starts persistence without (first) running safe_load_sensors to completion - e.g. only when the main file exists, or concurrently with the first scheduled save, which then writes the still empty network over the file", r["witness"] if not ok else None)


def run(analysis: Analysis, tier: str) -> RuleResult:
    res = RuleResult(PROP)
    res.explanation = [
        "All abstract paths of safe_load_sensors for both formats, with one exceptional path per documented decoder error class: R1 no content-error class escapes (main or backup attempt); R2 the sensor map is mutated only by one update() of the completed decode, never on a failing path; R3 a damaged backup is removed and not retried.",
        "Documented raise sets: pickle docs (UnpicklingError, EOFError, AttributeError, ImportError, IndexError) plus ValueError; json: JSONDecodeError, UnicodeDecodeError.",
    ]
    persist.check_dispatch_shape(analysis)
    last = analysis.versions[-1]
    for summ in common.pmap(analysis, load_worker, [(e, (last, "serial", "sync")) for e in persist.EXTS]):
        ext = summ["ext"]
        content = CONTENT_ERRORS[ext]
        caught_classes = set()
        n_paths = 0
        for r in summ["rows"]:
            n_paths += 1
            for _i, name in r["catches"]:
                caught_classes.add(name)
            if r["kind"] == "raise":
                is_content = any(r["exc"] == c.__name__ for c in content) or r["exc"] in ("Error",)
                where = "backup" if any(l["bak"] for l in r["loads"]) else "main"
                if is_content:
                    res.add("C13-R1", f"safe_load_sensors[{ext}] / {r['exc']} from the {where} file is handled", False, "mysensors/persistence.py", f"a damaged {where} file raises {r['exc']} out of start-up ({r['exc_what']})", r["witness"])
                continue
            # R2: updates only after a decode, exactly one per successful load
            for ui, arg in r["updates"]:
                prior = [d for d, _n in r["decodes"] if d < ui]
                ok = bool(prior) and ("pickle.load" in arg or "json.load" in arg)
                res.add("C13-R2", f"_load_{ext} / the map is updated only with the completed decode", ok, "mysensors/persistence.py", "update(decode(file))" if ok else f"update argument {arg[:80]}", r["witness"] if not ok else None)
            ok_n = len(r["updates"]) <= 1
            res.add("C13-R2", f"safe_load_sensors[{ext}] / at most one file is applied (no partial merge)", ok_n, "mysensors/persistence.py", f"{len(r['updates'])} update(s) on the path", r["witness"] if not ok_n else None)
            # a path that caught a content error during the backup attempt removes the promoted file
            bak = [l for l in r["loads"] if l["bak"]]
            if bak and len(r["catches"]) >= 1 and any(ci > bak[0]["i"] for ci, _n in r["catches"]):
                ok_rm = any(a and a[0] == r["pf_key"] for _i, a in r["removes"]) and len(bak) == 1
                res.add("C13-R3", f"safe_load_sensors[{ext}] / a damaged backup is removed and not retried", ok_rm, "mysensors/persistence.py", "os.remove(persistence_file) after the promoted backup failed to load", r["witness"] if not ok_rm else None)
                ok_u = not r["updates"]
                res.add("C13-R3", f"safe_load_sensors[{ext}] / both files damaged: the gateway starts with an empty network", ok_u, "mysensors/persistence.py", "nothing applied", r["witness"] if not ok_u else None)
        for cls in content:
            covered = not any(r["kind"] == "raise" and r["exc"] == cls.__name__ for r in summ["rows"])
            res.add("C13-R1", f"safe_load_sensors[{ext}] / content error {cls.__name__} cannot escape start-up", covered, "mysensors/persistence.py", "caught around both the main and the backup load" if covered else "escapes")
        if n_paths < 8:
            raise AnalysisError(f"C13: only {n_paths} paths through safe_load_sensors[{ext}]")
        before = len(res.obs)
        analyse_load_rows_c12(res, summ)
        for o in res.obs[before:]:
            o.rule = "C13-R3"
        res.reindex()
        if not caught_classes:
            res.add("C13-R1", f"safe_load_sensors[{ext}] / damaged content is caught", False, "mysensors/persistence.py", "no handler catches a decoder error")
    # R2: the JSON object hook must not touch the network while the document is still being parsed
    from ..effects import json_projection
    from .c11 import decoder_side_effects

    fx = decoder_side_effects(analysis, json_projection(analysis.p, analysis=analysis)["Sensor"])
    res.add("C13-R2", "persistence:MySensorsJSONDecoder / the object hook has no effect on the gateway's maps (a document that fails to parse leaves no partial merge)", not fx, "mysensors/persistence.py", "pure construction" if not fx else f"the hook mutates long-lived state ({fx[0]}): json runs it on every completed inner object, so a truncated file has already inserted nodes when the decode error is caught")
    start_rule(analysis, res, "C13-R4")
    res.units = {"formats": list(persist.EXTS), "source_digest": analysis.p.digest()}
    res.not_decided = ["exceptions outside the documented raise sets (crafted pickles)", "valid JSON of the wrong shape"]
    res.assumptions = ["raise sets of pickle.load / json.load as documented (sa/extmodel.py)", "OSError is an environment fault, not a content error"]
    res.trusted = ["sa/extmodel.py"]
    return res
