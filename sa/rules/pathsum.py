"""Per-path records of the Gateway.logic root, shared by the handler-path rules.

A record is a picklable summary of one abstract path: which command / sub-type was
dispatched, which handlers ran, the classified state mutations, alert calls, outbound sinks
and the shape of the reply, each with its position in the event trace.
"""
from __future__ import annotations

from typing import Dict, List, Optional

from ..effects import PERSISTED, Classifier, render
from ..engine import Analysis, describe_path
from ..values import BoundV, Const, EnumMemV, ExtV, FuncV, Obj, Sym, TupleV, Unknown, V
from . import common
from .c01 import MODULAR, SEND_QUALS


_INBOUND = {}


def vdesc(it, st, v) -> str:
    """Stable, readable description of an abstract value."""
    if v is None:
        return "-"
    if isinstance(v, V) and not isinstance(v, Const) and v.key() in _INBOUND:
        return _INBOUND[v.key()]
    if isinstance(v, Const):
        return f"const:{v.value!r}"
    if isinstance(v, EnumMemV):
        if len(v.names) == 1:
            return f"enum:{v.enum}.{v.names[0]}"
        return f"enum:{v.enum}.*"
    if isinstance(v, Obj):
        return f"obj:{v.oid}"
    if isinstance(v, BoundV):
        return f"bound:{v.info.qual}({vdesc(it, st, v.recv)})"
    if isinstance(v, FuncV):
        return f"fn:{v.info.qual}"
    if isinstance(v, ExtV):
        return f"ext:{v.name}"
    if isinstance(v, TupleV):
        return "(" + ",".join(vdesc(it, st, i) for i in v.items) + ")"
    k = v.key()
    r = render(k)
    if r != "?":
        return f"sym:{r}"
    return f"val:{k!r}"[:120]


def fact_tags(facts, msgkey) -> List[str]:
    out = []
    for f in facts or ():
        if f[0] in ("truthy", "falsy") and isinstance(f[1], tuple):
            r = render(f[1])
            if r.endswith(".new_state") or r.endswith(".reboot") or r.endswith(".metric"):
                out.append(f"{f[0]}:{r}")
        elif f[0] in ("in", "notin"):
            out.append(f"{f[0]}:{render(f[1])}@{render(f[2])}")
        elif f[0] == "enumeq":
            out.append(f"enumeq:{f[2]}.{f[3]}")
        elif f[0] == "validated":
            out.append("validated")
    return sorted(set(out))


def logic_records(analysis: Analysis, spec) -> List[dict]:
    ctx = analysis.context(*spec)
    it = analysis.new_interp(ctx)
    it.inline_skip = set(MODULAR)
    st, gw = analysis.gateway_state(it)
    line = Sym(("root", "line"), "str")
    outs = analysis.run_root(it, "__init__:Gateway.logic", [line], gw, st)
    cl = Classifier(analysis.p, analysis)
    return [record(analysis, it, cl, out, ctx.name) for out in outs]


def record(analysis, it, cl: Classifier, out, ctxname: str, root="__init__:Gateway.logic") -> dict:
    kind, st, v = out
    msgkey = common.inbound_message_key(st.events, root)
    _INBOUND.clear()
    if msgkey is not None:
        _INBOUND[msgkey] = "inbound"
        for attr in ("node_id", "child_id", "type", "ack", "sub_type", "payload"):
            val = st.mem.get((msgkey, "a", attr))
            if val is not None and not isinstance(val, Const):
                _INBOUND.setdefault(val.key(), f"inbound.{attr}")
    rec = {
        "ctx": ctxname,
        "kind": kind,
        "validated": any(f[0] == "validated" for f in st.facts),
        "type": None,
        "sub": None,
        "handlers": [],
        "muts": [],
        "alerts": [],
        "sinks": [],
        "routes": [],
        "calls": [],
        "setters": [],
        "reply": None,
        "ret": vdesc(it, st, v) if kind == "val" else f"raise:{v.cls.__name__}",
        "witness": None,
        "nevents": len(st.events),
    }
    for f in st.facts:
        if f[0] == "enumeq":
            if f[2] == "MessageType":
                rec["type"] = f[3]
            elif f[2] in ("Internal", "Stream"):
                rec["sub"] = f[3]
    objs_new: Dict[tuple, dict] = {}
    copies: Dict[tuple, tuple] = {}
    rec["inbound_rewrites"] = []
    validated_at = next((i for i, e in enumerate(st.events) if e.kind == "exit" and e.name == "message:Message.validate"), None)
    for idx, e in enumerate(st.events):
        if e.kind == "store" and msgkey is not None and validated_at is not None and idx > validated_at and isinstance(e.recv, V) and e.recv.key() == msgkey and e.name in ("node_id", "child_id", "type", "ack", "sub_type", "payload"):
            rec["inbound_rewrites"].append({"idx": idx, "field": e.name, "func": e.func, "line": e.line})
        if e.kind == "enter":
            depth = len(e.stack)
            q = e.name
            if q.startswith("handler:") or q.endswith("._handle_presentation") or q.endswith("._handle_i_version"):
                rec["handlers"].append(q)
            caller = e.stack[-2] if len(e.stack) >= 2 else "<root>"
            if q == "__init__:Gateway.alert":
                arg = e.args[1] if len(e.args) > 1 else None
                rec["alerts"].append({"idx": idx, "inbound": arg is not None and msgkey is not None and arg.key() == msgkey, "func": caller, "line": e.line, "stack": list(e.stack)})
            if q.endswith("@set"):
                rec["setters"].append({"idx": idx, "prop": q.split(".")[-1][:-4], "arg": vdesc(it, st, e.args[1]) if len(e.args) > 1 else None, "recv": render(e.args[0].key()) if e.args else None, "func": caller, "line": e.line})
            if q.endswith(".add_job") and q.startswith("task:"):
                f = e.args[1] if len(e.args) > 1 else None
                extra = e.args[2:] if len(e.args) > 2 else ()
                if len(extra) == 1 and isinstance(extra[0], TupleV):
                    extra = extra[0].items
                fields = None
                if isinstance(f, BoundV) and isinstance(f.recv, Obj):
                    fields = {a: vdesc(it, st, st.mem.get((f.recv.key(), "a", a))) for a in ("node_id", "child_id", "type", "ack", "sub_type", "payload")}
                rec["sinks"].append({"kind": "add_job", "idx": idx, "func": caller, "line": e.line, "job": vdesc(it, st, f), "jobargs": [vdesc(it, st, a) for a in extra], "msg": (f.recv.key() if isinstance(f, BoundV) else None), "fields": fields, "facts": fact_tags(e.facts, msgkey), "stack": list(e.stack)})
            if q == "message:Message.copy":
                pass
            rec["calls"].append(q)
        elif e.kind == "exit":
            if e.name == "__init__:Gateway._route_message":
                rv = e.args[0] if e.args else None
                rec["routes"].append({"idx": idx, "ret": rv.key() if isinstance(rv, V) and not isinstance(rv, Const) else None, "none": isinstance(rv, Const) and rv.value is None, "func": e.func})
            if e.name == "message:Message.copy" and e.args and isinstance(e.args[0], Obj):
                pass
        elif e.kind == "opaque" and e.name == "__init__:Gateway.alert":
            arg = e.args[1] if len(e.args) > 1 else None
            rec["alerts"].append({"idx": idx, "inbound": arg is not None and msgkey is not None and arg.key() == msgkey, "func": e.func, "line": e.line, "stack": list(e.stack)})
        elif e.kind == "opaque" and e.name in SEND_QUALS:
            rec["sinks"].append({"kind": "send", "idx": idx, "func": e.func, "line": e.line, "job": vdesc(it, st, e.args[1] if len(e.args) > 1 else None), "jobargs": [], "msg": None, "facts": fact_tags(e.facts, msgkey), "stack": list(e.stack)})
        elif e.kind == "new" and e.name == "message:Message":
            objs_new[e.recv.key()] = {"func": e.func, "line": e.line, "data": vdesc(it, st, e.args[0]) if e.args else None, "idx": idx}
        else:
            c = cl.classify(e)
            if c is not None:
                val = None
                keyd = None
                if e.kind == "setitem":
                    keyd = vdesc(it, st, e.args[0])
                    val = vdesc(it, st, e.args[1]) if len(e.args) > 1 else None
                elif e.kind == "store":
                    val = vdesc(it, st, e.args[0]) if e.args else None
                elif e.kind == "append":
                    val = vdesc(it, st, e.args[0]) if e.args else None
                rec["muts"].append({"idx": idx, "cat": c[0], "desc": c[1], "func": e.func, "line": e.line, "key": keyd, "val": val, "facts": fact_tags(e.facts, msgkey), "persisted": c[0] in PERSISTED})
    # the message the top-level handler returned
    top_ret = None
    for e in st.events:
        if e.kind == "exit" and len(e.stack) == 1 and e.name != "__init__:Gateway.logic":
            pass
    # reply object: value returned by _route_message at depth of logic, or handler result
    handler_ret = None
    for e in st.events:
        if e.kind == "exit" and e.func == root and (e.name.startswith("handler:") or "._handle_" in e.name):
            handler_ret = e.retval
    rec["handler_ret"] = reply_desc(it, st, handler_ret, msgkey, objs_new)
    rec["msgkey"] = repr(msgkey)
    if kind == "val":
        enc = None
        for f in st.facts:
            if f[0] == "encodedof" and isinstance(v, V) and f[1] == v.key():
                enc = f[2]
        rec["ret_encodes"] = repr(enc) if enc is not None else None
        rec["ret_none"] = isinstance(v, Const) and v.value is None
        rec["ret_routed"] = enc is not None and any(r["ret"] == enc for r in rec["routes"])
    rec["final_facts"] = fact_tags(st.facts, msgkey)
    rec["witness"] = describe_path(out, limit=18)
    return rec


def reply_desc(it, st, v, msgkey, objs_new) -> dict:
    if v is None or (isinstance(v, Const) and v.value is None):
        return {"kind": "none"}
    if msgkey is not None and v.key() == msgkey:
        return {"kind": "inbound"}
    if isinstance(v, Obj) and v.cls == "message:Message":
        info = objs_new.get(v.key(), {})
        over = {}
        for e in st.events:
            if e.kind == "store" and isinstance(e.recv, Obj) and e.recv.key() == v.key() and not e.func.startswith("message:Message.__init__") and not e.func.startswith("message:Message.decode"):
                over[e.name] = vdesc(it, st, e.args[0]) if e.args else None
        src = "copy" if info.get("func") == "message:Message.copy" else f"new@{info.get('func')}"
        copy_of = None
        if src == "copy":
            # which message was copied: the receiver of the enclosing copy() call
            for e in st.events:
                if e.kind == "enter" and e.name == "message:Message.copy" and e.args:
                    copy_of = "inbound" if (msgkey is not None and e.args[0].key() == msgkey) else vdesc(it, st, e.args[0])
        return {"kind": src, "overrides": over, "copy_of": copy_of}
    return {"kind": "other", "desc": vdesc(it, st, v)}
