"""C01 - The message pump cannot be crashed or tricked by input.

R1  escape(root) = {} for every pump root, per context (protocol version x gateway family x
    flavour): no abstract path through the root with all repo callees inlined ends in an
    exception, given the external model and the listed assumptions.
R2  handler exhaustiveness: a missing registry entry shows up under R1 as
    "'NoneType' object is not callable".
R3  a line that is not decoded or not validated has no effect: every effect event on every
    path through Gateway.logic is dominated by the normal exit of msg.validate(<the gateway's
    protocol version>), and paths without it return None.
R4  user callbacks are isolated: an escaping `Exception` from a callback site is an R1 escape.
INV the global invariants the must-facts rely on (no key removal, key identity, job shape,
    header fields int-like).
"""
from __future__ import annotations

import ast
import struct
from typing import Dict, List

from ..engine import Analysis, describe_path
from ..frontend import AnalysisError, unparse
from ..report import RuleResult
from ..values import BoundV, Const, EnumMemV, ExtObj, ExtV, FuncV, Obj, Sym, TupleV, Unknown, V
from . import common
from .c02 import layout_agreement
from . import c03

PROP = "C01"

SEND_QUALS = {"transport:Transport.send", "transport:SyncTransport.send", "gateway_mqtt:MQTTTransport.send"}
# modular analysis: these are analysed as roots of their own and treated as opaque calls elsewhere
MODULAR = SEND_QUALS | {"__init__:Gateway.alert"}

# Suppressions of exactly one (function, exception class) each, with the reason.
ASSUMPTIONS = [
    ("A-OTA-RANGE", "ota:fw_int_to_hex", struct.error, "stored firmware type/version lie in 0..65535 (INV-OTA-RANGE, checked in this run: make_update rejects others) and images have at most 65535 blocks (the property's own quantifier: images that fit the 16-bit block counter), so struct.pack('<nH') of stored firmware ids, block counts and CRC-16 values is total"),
]
ASSUMPTION_NOTES = [
    "A-STR-IN: the argument of Gateway.logic is a str (handle_line passes the decoded packet, recv passes ';'.join(...))",
    "A-UNICODE: text handed to str.encode() is well-formed Unicode",
    "A-FLOOR: the gateway's const module is the highest table version not above its protocol version (get_const), so `protocol_version >= '2.0'` in is_sensor is decided by the context's table version",
    "A-VERSION: a version string that passed safe_is_version compares without exception in get_const / is_sensor",
    "A-CLOSE: close() of a pyserial / asyncio transport object does not raise",
    "A-TASKS: Gateway.tasks is set (true for every documented gateway class)",
    "A-HUMANIZE: voluptuous.humanize.humanize_error does not raise",
    "LEMMA-COPY: decode(encode(m)) raises nothing for a message m produced by decode whose header/payload were not overwritten with non-canonical values (needs the layout agreement C02-R1, checked in this run)",
    "LEMMA-VALIDATED: on the normal exit of Message.validate, type is a MessageType value and sub_type a member of that type's sub-type enum (table totality is C03-R1)",
    "G-NODEL / INV-KEY-ID: checked in this run, see obligations C01-INV",
]

EFFECT_KINDS = {"store", "setitem", "append", "appendleft", "dictpop", "seqpop", "clear", "update", "extend", "delitem"}
ALWAYS_EFFECT = {"cb", "opaque", "spawn", "executor"}
HEADER = {"node_id", "child_id", "type", "ack", "sub_type"}


from ..values import rooted  # noqa: E402


def is_effect(e) -> bool:
    if e.kind in ALWAYS_EFFECT:
        return True
    if e.kind in EFFECT_KINDS:
        return isinstance(e.recv, V) and rooted(e.recv.key())
    if e.kind == "call" and (e.name.startswith("exttransport.") or e.name == "?callable"):
        return True
    return False


def escape_key(exc) -> str:
    return f"{exc.func} / {exc.cls.__name__} / {exc.expr or exc.what}"


def discharge(exc):
    for name, func, cls, _reason in ASSUMPTIONS:
        if exc.func == func and issubclass(exc.cls, cls):
            return name
    return None


def summarise(analysis, it, outs, root, ctxname, check_r3=False, gw=None) -> dict:
    escapes = []
    r3 = []
    jobs = []
    hdr = []
    validate_args = set()
    n_effects = 0
    # module-level memo tables: a global container that only ever receives validator objects is a cache of
    # schemas, not message state; whether its key determines the schema is lemma C03-R4m of this run
    stored: Dict[tuple, set] = {}
    for _k, st, _v in outs:
        for e in st.events:
            if e.kind == "setitem" and isinstance(e.recv, V) and e.recv.key()[0] == "global" and len(e.args) == 2:
                val = e.args[1]
                stored.setdefault(e.recv.key(), set()).add(val.cls if isinstance(val, ExtObj) else "?")
    memo = {g for g, classes in stored.items() if all(c.startswith("vol.") for c in classes)}

    def memo_event(e) -> bool:
        if not memo or not isinstance(e.recv, V):
            return False
        if e.kind == "setitem":
            return e.recv.key() in memo
        if e.kind == "call" and e.name == "?callable":
            k = e.recv.key()
            return len(k) >= 2 and k[0] in ("get", "item") and k[1] in memo
        return False

    for out in outs:
        kind, st, v = out
        if kind == "raise":
            a = discharge(v)
            escapes.append({"key": escape_key(v), "cls": v.cls.__name__, "site": v.site, "what": v.what, "assumed": a, "witness": describe_path(out)})
        for e in st.events:
            if e.kind == "enter" and e.name == "message:Message.validate" and len(e.args) >= 2 and 2 <= len(e.stack) <= 4 and str(list(e.stack)[0]) == "__init__:Gateway.logic" and all(str(f).startswith("__init__:") for f in list(e.stack)[:-1]):
                # called from logic itself or from a helper method of the gateway on logic's behalf
                validate_args.add(repr(e.args[1].key()))
            if e.kind == "store" and e.name in HEADER and isinstance(e.recv, Obj) and e.recv.cls == "message:Message":
                val = e.args[0]
                if not it.ext.is_intlike(it, st, val):
                    hdr.append({"key": f"{e.func} / store {e.name}", "where": f"{e.func}:{e.line}", "val": repr(val.key())[:80]})
            if e.kind == "append" and isinstance(e.recv, V) and e.recv.key() == ("attr", ("attr", ("root", "GW"), "tasks"), "queue"):
                job = e.args[0] if e.args else None
                desc = "?"
                ok = False
                if isinstance(job, TupleV) and len(job.items) == 2:
                    f = job.items[0]
                    if isinstance(f, BoundV) and f.info.qual in ("message:Message.encode", "__init__:Gateway.logic"):
                        ok, desc = True, f.info.qual
                    elif isinstance(f, ExtV) and f.name == "builtins.str":
                        ok, desc = True, "str"
                    else:
                        desc = repr(f.key())[:80]
                jobs.append({"ok": ok, "desc": desc, "where": f"{e.func}:{e.line}", "func": e.func})
            if check_r3 and is_effect(e) and not memo_event(e):
                n_effects += 1
                if not any(f[0] == "validated" for f in (e.facts or ())):
                    r3.append({"key": f"{e.func} / {e.kind} {e.name}", "where": f"{e.func}:{e.line}", "detail": f"effect `{e.kind} {e.name}` reachable before the line was validated", "witness": describe_path(out)})
        if check_r3 and kind == "val" and not any(f[0] == "validated" for f in st.facts):
            if not (isinstance(v, Const) and v.value is None):
                r3.append({"key": "__init__:Gateway.logic / reply without validation", "where": "__init__:Gateway.logic", "detail": f"a path returns {v.key()!r} although the line was not validated", "witness": describe_path(out)})
    return {
        "root": root,
        "ctx": ctxname,
        "paths": len(outs),
        "escapes": escapes,
        "r3": r3,
        "jobs": jobs,
        "hdr": hdr,
        "validate_args": sorted(validate_args),
        "effects": n_effects,
        "unmodelled": sorted(it.ext.unmodelled),
        "used": sorted(it.ext.used),
        "steps": it.steps,
    }


def logic_worker(analysis: Analysis, spec) -> dict:
    ctx = analysis.context(*spec)
    it = analysis.new_interp(ctx)
    it.inline_skip = set(MODULAR)
    st, gw = analysis.gateway_state(it)
    line = Sym(("root", "line"), "str")
    outs = analysis.run_root(it, "__init__:Gateway.logic", [line], gw, st)
    return summarise(analysis, it, outs, "__init__:Gateway.logic", ctx.name, check_r3=True, gw=gw)


def aux_worker(analysis: Analysis, spec) -> dict:
    """Pump roots other than Gateway.logic: transports, adapters, the poll loop."""
    root, (version, family, flavour) = spec
    ctx = analysis.context(version, family, flavour)
    it = analysis.new_interp(ctx)
    st, gw = analysis.gateway_state(it)
    p = analysis.p
    if root == "send":
        tr = Sym(("root", "TR"), ("cls", ctx.transport))
        st.mem[(tr.key(), "a", "gateway")] = gw
        m = p.find_method(ctx.transport, "send")
        msg = Sym(("root", "message"), "str", nullable=True)
        outs = analysis.run_root(it, m.qual, [msg], tr, st)
        name = m.qual
    elif root == "alert":
        outs = analysis.run_root(it, "__init__:Gateway.alert", [Sym(("root", "msg"), ("cls", "message:Message"))], gw, st)
        name = "__init__:Gateway.alert"
    elif root == "recv":
        tr = Sym(("root", "TR"), ("cls", ctx.transport))
        st.mem[(tr.key(), "a", "gateway")] = gw
        st.mem[(gw.key(), "a", "tasks")] = Sym(("attr", gw.key(), "tasks"), ("cls", ctx.tasks))
        it.inline_skip = set(SEND_QUALS) | {"__init__:Gateway.logic"}
        m = p.find_method(ctx.transport, "recv")
        outs = analysis.run_root(it, m.qual, [Sym(("root", "topic"), "str"), Sym(("root", "payload"), None), Sym(("root", "qos"), "int", nullable=True)], tr, st)
        name = m.qual
    elif root == "handle_line":
        pr = Sym(("root", "PR"), ("cls", ctx.protocol))
        st.mem[(pr.key(), "a", "gateway")] = gw
        it.inline_skip = set(SEND_QUALS) | {"__init__:Gateway.logic"}
        m = p.find_method(ctx.protocol, "handle_line")
        outs = analysis.run_root(it, m.qual, [Sym(("root", "line"), "str")], pr, st)
        name = m.qual
    elif root == "poll":
        tasks = Sym(("attr", gw.key(), "tasks"), ("cls", ctx.tasks))
        it.inline_skip = set(SEND_QUALS)
        if flavour == "sync":
            m = p.find_method(ctx.tasks, "_poll_queue")
            outs = analysis.run_root(it, m.qual, [], tasks, st)
        else:
            m = p.find_method(ctx.tasks, "add_job")
            outs = analysis.run_root(it, m.qual, [Unknown("callable", label="jobfunc")], tasks, st)
        name = m.qual
    else:
        raise AnalysisError(f"unknown aux root {root}")
    return summarise(analysis, it, outs, name, ctx.name)


def job_shape(analysis: Analysis, res: RuleResult) -> None:
    """INV-JOB-SHAPE: every producer of Tasks.queue appends a (func, args) pair."""
    mod = analysis.p.modules.get("task")
    if mod is None:
        raise AnalysisError("anchor vanished: module task")
    n = 0
    for node in ast.walk(mod.tree):
        if isinstance(node, ast.Call) and isinstance(node.func, ast.Attribute) and node.func.attr in ("append", "appendleft", "extend", "insert"):
            recv = node.func.value
            if isinstance(recv, ast.Attribute) and recv.attr == "queue":
                n += 1
                arg = node.args[0] if node.args else None
                fn = common.func_of_node(analysis, mod, node)
                if isinstance(arg, ast.Name) and fn in analysis.p.funcs:
                    # a local bound once to the pair: `job = func, args`
                    binds = [a.value for a in ast.walk(analysis.p.funcs[fn].node) if isinstance(a, ast.Assign) and len(a.targets) == 1 and isinstance(a.targets[0], ast.Name) and a.targets[0].id == arg.id]
                    if len(binds) == 1:
                        arg = binds[0]
                ok = node.func.attr == "append" and isinstance(arg, ast.Tuple) and len(arg.elts) == 2
                res.add("C01-INV", f"{fn} / {unparse(node)[:60]}", ok, common.where(analysis, mod, node), "job queue producer appends a (func, args) pair" if ok else "job queue producer does not append a 2-tuple; run_job unpacks `func, args = job`")
    if n < 1:
        raise AnalysisError("C01-INV: no producer of Tasks.queue found")


def run(analysis: Analysis, tier: str) -> RuleResult:
    res = RuleResult(PROP)
    res.explanation = [
        "Path-sensitive abstract interpretation (sa/interp.py) of every pump root with all repo callees inlined:",
        "C01-R1 no abstract path ends in an exception (escape set empty) under the external raise model;",
        "C01-R3 every effect on a path through Gateway.logic is dominated by the normal exit of msg.validate(gateway.protocol_version) and unvalidated paths return None;",
        "C01-INV the invariants the must-facts rely on (no key removal, key identity, job shape, int-like header fields).",
        "R2 (missing handler) and R4 (callback isolation) surface as R1 escapes.",
    ]
    res.assumptions = [f"{n}: {r}" for n, _f, _c, r in ASSUMPTIONS] + ASSUMPTION_NOTES
    res.trusted = ["sa/extmodel.py raise model of external callables", "python %s ast" % ".".join(map(str, __import__("sys").version_info[:3])), "reflection of registries and enum tables (import only)"]
    res.not_decided = ["OS-level liveness of the pump thread", "exceptions outside the documented raise sets (MemoryError, RecursionError)", "API misuse with non-int ids"]

    # lemma preconditions
    lay = layout_agreement(analysis)
    analysis.lemmas_enabled["copy"] = all(ok for _c, ok, _w, _d in lay)
    if not analysis.lemmas_enabled["copy"]:
        res.explanation.append("LEMMA-COPY disabled: encoder/decoder layout agreement (C02-R1) does not hold on this tree.")
    problems = common.check_seeds(analysis)
    if problems:
        raise AnalysisError("type seeds disagree with the constructors: " + "; ".join(problems[:4]))

    # lemma: the validators Message.validate applies are the reviewed, total ones (C03-R3/R4/R5 of this run);
    # the raise model of a schema call (vol.Invalid only) and the validated fact rest on it
    class _Lemma:
        extra = res.extra

        @staticmethod
        def add(rule, *a, **kw):
            res.add("C01-L:" + rule, *a, **kw)

    c03.conformance(analysis, _Lemma)
    c03.header_rules(analysis, _Lemma)
    c03.validators_total(analysis, _Lemma)
    # lemma: the pump's send is safe against the reader thread clearing the connection between its check and
    # its use (the path analysis itself is single-threaded): snapshot discipline C16-R1..R3 of this run
    from . import c16

    c16.send_discipline(analysis, _Lemma)
    # lemma: str.encode() in the send methods is total because inbound text holds no lone surrogates (C19-R1)
    from . import c19

    c19.inbound_text_encodable(analysis, _Lemma, "C19-R1")

    # INV-OTA-RANGE: what A-OTA-RANGE assumes about firmware type / version is established by the update call
    from . import c10

    for summ in common.pmap(analysis, c10.update_worker, [(analysis.versions[-1], "serial", "sync")]):
        sched = [r for r in summ["rows"] if r["req"]]
        okr = bool(sched) and all(r["ranged"] for r in sched)
        res.add("C01-INV", "ota:OTAFirmware.make_update / firmware type and version are stored only within 0..65535 (INV-OTA-RANGE, discharges A-OTA-RANGE for the packed ids)", okr, "mysensors/ota.py", "both stores are dominated by 0 <= type, version <= 65535" if okr else "an update call that returns normally can schedule a type / version the responders cannot pack: the node's next config request raises struct.error out of Gateway.logic", next((r["witness"] for r in sched if not r["ranged"]), None))

    common.check_no_key_removal(analysis, res, "C01-INV")
    common.check_key_identity(analysis, res, "C01-INV")
    job_shape(analysis, res)

    versions = analysis.versions
    families = ["serial", "tcp", "mqtt"]
    if tier == "quick":
        specs = [(v, f, "sync") for v in versions for f in families] + [(v, f, "async") for v in (versions[0], versions[2], versions[-1]) for f in families]
    else:
        specs = [(v, f, fl) for v in versions for f in families for fl in ("sync", "async")]
    aux_specs = []
    for fam in families:
        for fl in ("sync", "async"):
            aux_specs.append(("send", (versions[-1], fam, fl)))
            aux_specs.append(("alert", (versions[-1], fam, fl)))
            aux_specs.append(("poll", (versions[-1], fam, fl)))
            if fam == "mqtt":
                aux_specs.append(("recv", (versions[-1], fam, fl)))
            else:
                aux_specs.append(("handle_line", (versions[-1], fam, fl)))

    sums = common.pmap(analysis, logic_worker, specs) + common.pmap(analysis, aux_worker, aux_specs)
    total_paths = 0
    total_steps = 0
    unmodelled = set()
    roots = set()
    for s in sums:
        total_paths += s["paths"]
        total_steps += s["steps"]
        unmodelled |= set(s["unmodelled"])
        analysis.ext_used |= set(s["used"])
        roots.add(s["root"])
        res.contexts.append(f"{s['root']}@{s['ctx']}:{s['paths']}p")
        live = [e for e in s["escapes"] if not e["assumed"]]
        res.add("C01-R1", f"root {s['root']} escape set empty", not live, "", f"{s['paths']} abstract paths, {len(s['escapes'])} raise-ending, {len(s['escapes']) - len(live)} discharged by assumptions", context=s["ctx"])
        for e in live:
            res.add("C01-R1", e["key"], False, e["site"], f"{e['cls']} can escape {s['root']}: {e['what']}", e["witness"], context=s["ctx"])
        for e in s["escapes"]:
            if e["assumed"]:
                res.add("C01-R1", f"assumed {e['assumed']}: {e['key']}", True, e["site"], "discharged by the named assumption", context=s["ctx"])
        if s["root"] == "__init__:Gateway.logic":
            res.add("C01-R3", "effects of Gateway.logic dominated by validation", not s["r3"], "", f"{s['effects']} effect events on {s['paths']} paths all carry the validated fact", context=s["ctx"])
            for r in s["r3"]:
                res.add("C01-R3", r["key"], False, r["where"], r["detail"], r["witness"], context=s["ctx"])
            want = repr(("attr", ("root", "GW"), "protocol_version"))
            okv = s["validate_args"] == [want]
            res.add("C01-R3", "Gateway.logic validates against the gateway's protocol version", okv, "", f"validate() argument(s) seen: {s['validate_args']}" if s["validate_args"] else "no call of Message.validate directly from Gateway.logic on any path", context=s["ctx"])
        for j in s["jobs"]:
            res.add("C01-INV", f"job enqueued at {j['func']} is {j['desc']}", j["ok"], j["where"], "deferred job function is one of Message.encode / str / Gateway.logic (each analysed as a root or inline in the async contexts)" if j["ok"] else "unknown deferred job function: its totality is not analysed", context=s["ctx"])
        for h in s["hdr"]:
            res.add("C01-INV", h["key"] + " int-like", False, h["where"], f"a Message header field is assigned a value not known to be int-like ({h['val']}); Message.encode may then fail or raise TypeError", context=s["ctx"])
    if unmodelled:
        raise AnalysisError("external callables without a model reached from a pump root: " + ", ".join(sorted(unmodelled)))
    if len(sums) < 33 or len(roots) < 6:
        raise AnalysisError(f"C01-R1: only {len(sums)} root x context pairs / {len(roots)} roots analysed (anchor vanished)")
    res.units = {
        "modules": len(analysis.p.modules),
        "functions": len(analysis.p.funcs),
        "roots": sorted(roots),
        "root_context_pairs": len(sums),
        "abstract_paths": total_paths,
        "interpreter_steps": total_steps,
        "external_callables_modelled": len(analysis.ext_used),
        "source_digest": analysis.p.digest(),
    }
    res.exhaustive = tier == "thorough"
    return res
