"""C04 - Network state mirrors what the nodes reported; callbacks are exact (structural clauses).

R1 who-may-create: constructor / insertion call sites, and on every path an insertion is
   dominated by `key not in map` (first presentation wins) and happens only for the message
   kinds of the statement.
R2 who-may-write: values and node attributes are written only from the message kind that
   reports them, with that message's own sub-type / payload.
R3 alert discipline on every handler path: persisted mutation => exactly one alert after it,
   no persisted mutation after an alert, at most one alert, argument is the inbound message.
R4 the callback is isolated and the dirty flag is stored after it on every path.
R5 the three attribute setters are total and fall back to the constants of the statement.
"""
from __future__ import annotations

import ast
from typing import Dict, List

from ..engine import Analysis, describe_path
from ..frontend import AnalysisError, unparse
from ..report import RuleResult
from ..values import Const, Sym
from . import common, pathsum
from .c14 import alert_root, specs_for

PROP = "C04"

WHO_MAY_CALL = {
    # callee pattern -> allowed calling functions
    "Sensor(": {"__init__:Gateway.add_sensor", "persistence:MySensorsJSONDecoder.dict_to_object"},
    "ChildSensor(": {"sensor:Sensor.add_child_sensor", "sensor:Sensor.init_smart_sleep_mode", "persistence:MySensorsJSONDecoder.dict_to_object"},
    ".add_sensor(": {"handler:handle_presentation", "handler:handle_id_request"},
    ".add_child_sensor(": {"handler:handle_presentation"},
    ".update_child_value(": {"handler:handle_set"},
}
MIN_SITES = {"Sensor(": 2, "ChildSensor(": 3, ".add_sensor(": 2, ".add_child_sensor(": 1, ".update_child_value(": 1}

# which message kind may write which node attribute, and from which inbound field
ATTR_WRITERS = {
    "battery_level": ("internal", "I_BATTERY_LEVEL", "inbound.payload"),
    "sketch_name": ("internal", "I_SKETCH_NAME", "inbound.payload"),
    "sketch_version": ("internal", "I_SKETCH_VERSION", "inbound.payload"),
    "heartbeat": ("internal", "I_HEARTBEAT_RESPONSE", "inbound.payload"),
    "protocol_version": ("presentation", None, "inbound.payload"),
    "type": ("presentation", None, "inbound.sub_type"),
}


def who_may_call(analysis: Analysis, res: RuleResult) -> None:
    counts = {k: 0 for k in WHO_MAY_CALL}
    for mod in common.core_modules(analysis):
        for node in ast.walk(mod.tree):
            if not isinstance(node, ast.Call):
                continue
            f = node.func
            pat = None
            if isinstance(f, ast.Name) and f.id + "(" in WHO_MAY_CALL:
                pat = f.id + "("
            elif isinstance(f, ast.Attribute) and "." + f.attr + "(" in WHO_MAY_CALL:
                pat = "." + f.attr + "("
            if pat is None:
                continue
            fn = common.func_of_node(analysis, mod, node)
            counts[pat] += 1
            ok = common.owned_by(analysis, fn, WHO_MAY_CALL[pat])
            res.add("C04-R1" if pat != ".update_child_value(" else "C04-R2", f"{fn} / call {pat.strip('.(')}", ok, common.where(analysis, mod, node), "call site is one of the functions the statement allows to create / write this state" if ok else f"{pat.strip('.(')} is called from {fn}: nodes/children/values may appear through a path the protocol does not allow")
    for pat, n in counts.items():
        if n < MIN_SITES[pat]:
            raise AnalysisError(f"C04-R1: only {n} call site(s) of {pat} found, expected {MIN_SITES[pat]}")


def path_rules(res: RuleResult, recs_by_ctx) -> Dict[str, int]:
    stats = {"inserts": 0, "values": 0, "attrs": 0, "alert_paths": 0}
    for recs in recs_by_ctx:
        for r in recs:
            if r["kind"] != "val":
                continue
            handler = r["handlers"][-1] if r["handlers"] else "?"
            # ---- R1 insertions
            for m in r["muts"]:
                if m["cat"] == "node-insert":
                    stats["inserts"] += 1
                    guarded = any(f.startswith("notin:") and f.endswith("@GW.sensors") for f in m["facts"])
                    res.add("C04-R1", f"{m['func']} / node insertion dominated by `id not in sensors`", guarded, f"{m['func']}:{m['line']}", "existing node is never overwritten" if guarded else "a node can be inserted over an existing one (re-presentation would wipe its children)", r["witness"] if not guarded else None, context=r["ctx"])
                    kind_ok = (r["type"] == "presentation") or (r["type"] == "internal" and r["sub"] == "I_ID_REQUEST")
                    res.add("C04-R1", f"{handler} / nodes appear only through node presentation or id assignment", kind_ok, f"{m['func']}:{m['line']}", f"node inserted while handling {r['type']}/{r['sub']}", r["witness"] if not kind_ok else None, context=r["ctx"])
                    if r["type"] == "presentation":
                        okk = m["key"] == "inbound.node_id"
                        res.add("C04-R1", f"{handler} / presented node is stored under its own node id", okk, f"{m['func']}:{m['line']}", f"key {m['key']}", context=r["ctx"])
                elif m["cat"] == "child-insert":
                    stats["inserts"] += 1
                    guarded = any(f.startswith("notin:") and f.endswith(".children") for f in m["facts"])
                    known = any(f.startswith("in:") and f.endswith("@GW.sensors") for f in m["facts"])
                    res.add("C04-R1", f"{m['func']} / child insertion dominated by `child not in children`", guarded, f"{m['func']}:{m['line']}", "first presentation wins" if guarded else "a child can be overwritten by a later presentation", r["witness"] if not guarded else None, context=r["ctx"])
                    res.add("C04-R1", f"{handler} / children appear only under a known node", known, f"{m['func']}:{m['line']}", "dominated by node in sensors", r["witness"] if not known else None, context=r["ctx"])
                    res.add("C04-R1", f"{handler} / children appear only through presentation", r["type"] == "presentation", f"{m['func']}:{m['line']}", f"child inserted while handling {r['type']}", context=r["ctx"])
                    res.add("C04-R1", f"{handler} / presented child is stored under its own child id", m["key"] == "inbound.child_id", f"{m['func']}:{m['line']}", f"key {m['key']}", context=r["ctx"])
                elif m["cat"] in ("value-store", "value-store?"):
                    stats["values"] += 1
                    okk = r["type"] == "set" and m["key"] == "inbound.sub_type" and m["val"] == "inbound.payload"
                    res.add("C04-R2", f"{m['func']} / value stored is the reported one (values[msg.sub_type] = msg.payload) of a set message", okk, f"{m['func']}:{m['line']}", "plain overwrite: last value wins" if okk else f"values[{m['key']}] = {m['val']} while handling {r['type']}", r["witness"] if not okk else None, context=r["ctx"])
                elif m["cat"] == "node-remove":
                    res.add("C04-R1", f"{m['func']} / nodes and children are never removed", False, f"{m['func']}:{m['line']}", m["desc"], r["witness"], context=r["ctx"])
            # ---- R2 attribute writers
            for s in r["setters"]:
                w = ATTR_WRITERS.get(s["prop"])
                if w is None:
                    continue
                stats["attrs"] += 1
                okk = r["type"] == w[0] and (w[1] is None or r["sub"] == w[1]) and s["arg"] == w[2]
                res.add("C04-R2", f"{s['func']} / {s['prop']} is set from {w[2]} of a {w[0]}{'/' + w[1] if w[1] else ''} message", okk, f"{s['func']}:{s['line']}", "" if okk else f"{s['prop']} = {s['arg']} while handling {r['type']}/{r['sub']}", r["witness"] if not okk else None, context=r["ctx"])
            for m in r["muts"]:
                if m["cat"] == "attr-store" and m["desc"].rsplit(".", 1)[-1] in ("type", "sketch_name", "sketch_version"):
                    attr = m["desc"].rsplit(".", 1)[-1]
                    w = ATTR_WRITERS[attr]
                    stats["attrs"] += 1
                    okk = r["type"] == w[0] and (w[1] is None or r["sub"] == w[1]) and m["val"] == w[2]
                    res.add("C04-R2", f"{m['func']} / {attr} is set from {w[2]} of a {w[0]}{'/' + w[1] if w[1] else ''} message", okk, f"{m['func']}:{m['line']}", "" if okk else f"{attr} = {m['val']} while handling {r['type']}/{r['sub']}", r["witness"] if not okk else None, context=r["ctx"])
            # ---- R3 alert discipline
            pers = [m for m in r["muts"] if m["persisted"]]
            alerts = r["alerts"]
            if pers or alerts:
                stats["alert_paths"] += 1
            if len(alerts) > 1:
                res.add("C04-R3", f"{handler} / at most one alert per message", False, f"{alerts[1]['func']}:{alerts[1]['line']}", f"{len(alerts)} alert() calls on one path: the callback fires more than once for one message", r["witness"], context=r["ctx"])
            elif alerts:
                res.add("C04-R3", f"{handler} / at most one alert per message", True, f"{alerts[0]['func']}:{alerts[0]['line']}", "one alert on the path", context=r["ctx"])
            for a in alerts:
                rew = [w for w in r.get("inbound_rewrites", []) if w["idx"] < a["idx"]]
                res.add("C04-R3", f"{a['func']} / the callback sees the message as it was received (fields not rewritten before alert)", not rew, f"{a['func']}:{a['line']}", "no store to the inbound message's fields before alert()" if not rew else f"{rew[0]['func']}:{rew[0]['line']} overwrites `{rew[0]['field']}` of the inbound message before alert(): the callback receives fields that were never received (e.g. the outgoing reply built in place)", r["witness"] if rew else None, context=r["ctx"])
                res.add("C04-R3", f"{a['func']} / alert is passed the inbound message", a["inbound"], f"{a['func']}:{a['line']}", "callback sees the message that caused the change" if a["inbound"] else "alert() is called with something other than the handler's own message", r["witness"] if not a["inbound"] else None, context=r["ctx"])
                late = [m for m in pers if m["idx"] > a["idx"]]
                res.add("C04-R3", f"{a['func']} / no persisted mutation after alert", not late, f"{a['func']}:{a['line']}", "callback runs after the state reflects the message" if not late else f"{late[0]['cat']} {late[0]['desc']} happens after the callback fired", r["witness"] if late else None, context=r["ctx"])
            if pers:
                last = max(m["idx"] for m in pers)
                after = [a for a in alerts if a["idx"] > last]
                m = [x for x in pers if x["idx"] == last][0]
                res.add("C04-R3", f"{handler} / {m['cat']} in {m['func']} is reported by alert", bool(after), f"{m['func']}:{m['line']}", "state change is followed by the event callback" if after else "state-changing message without event callback", r["witness"] if not after else None, context=r["ctx"])
    return stats


def setter_root(analysis: Analysis, prop: str) -> dict:
    ctx = analysis.context(analysis.versions[-1], "serial", "sync")
    it = analysis.new_interp(ctx)
    st = it.new_state()
    sensor = Sym(("root", "S"), ("cls", "sensor:Sensor"))
    qual, _node, outs = common.setter_outs(analysis, it, st, "sensor:Sensor", prop, sensor, Sym(("root", "value"), None, nullable=True))
    rows = []
    for out in outs:
        kind, s, v = out
        stored = [e for e in s.events if e.kind == "store" and e.name == "_" + prop]
        fell_back = any(e.kind == "catch" for e in s.events)
        val = stored[-1].args[0] if stored else None
        rows.append({"kind": kind, "fallback": fell_back, "const": val.value if isinstance(val, Const) else None, "is_const": isinstance(val, Const), "stored": bool(stored), "exc": v.cls.__name__ if kind == "raise" else None, "witness": describe_path(out)})
    return {"prop": prop, "qual": qual, "rows": rows}


FALLBACK = {"battery_level": 0, "heartbeat": 0, "protocol_version": "1.4"}


def run(analysis: Analysis, tier: str) -> RuleResult:
    res = RuleResult(PROP)
    res.explanation = [
        "Structural clauses that make the node/child/value tree mirror the accepted messages by construction:",
        "R1/R2 who-may-call tables for constructors and writers plus, on every abstract path through Gateway.logic, insertions dominated by `key not in map`, keys and values taken from the inbound message's own fields, each kind of state written only by the message kind that reports it;",
        "R3 alert discipline per path (exactly one alert after the last persisted mutation, none before, argument is the inbound message);",
        "R4 callback isolation (alert() stores the dirty flag on the raising path as well); R5 the three setters are total with the statement's fallbacks.",
        "Lock-step equality with a reference model over histories is not decided.",
    ]
    who_may_call(analysis, res)
    # "nodes appear ... through id assignment": every id up to MAX_NODE_ID can be assigned (shared with C06-R2)
    from .c06 import allocator_gives_up_late

    allocator_gives_up_late(analysis, res, "C04-R1")
    # "accepted messages": what Message.validate accepts is the statement's header / payload rules, whatever was
    # validated before (C03-R4 / R4m as a lemma)
    from . import c03

    class _L:
        extra = res.extra

        @staticmethod
        def add(rule, *a, **kw):
            res.add("C04-L:" + rule, *a, **kw)

    c03.header_rules(analysis, _L)
    # the "unusable version falls back to 1.4" clause and the version payload rule rest on is_version's floor test
    c03.is_version_floor(analysis, res, "C04-L:C03-R3b")
    # reported and desired values are different objects: a desired-state record never shares its value map with the
    # child it belongs to (else a report clears itself and a desired value shows up as reported) - C08-R3, shared
    from . import c08

    c08.desired_records(analysis, res, "C04-R2")
    specs = specs_for(analysis, tier)
    recs = common.pmap(analysis, pathsum.logic_records, specs)
    res.contexts = ["/".join(s) for s in specs]
    stats = path_rules(res, recs)
    if stats["inserts"] < 10 or stats["values"] < 5 or stats["attrs"] < 20:
        raise AnalysisError(f"C04: too few instances examined {stats}")
    for summ in common.pmap(analysis, alert_root, [(analysis.versions[-1], "serial", "sync"), (analysis.versions[-1], "mqtt", "async")]):
        raising = [r for r in summ["rows"] if r["cb_raised"]]
        if not raising:
            res.add("C04-R4", "__init__:Gateway.alert / a raising callback is caught", False, "mysensors/__init__.py", "no path on which the callback's exception is caught inside alert()", context=summ["ctx"])
        for r in summ["rows"]:
            if r["kind"] != "val":
                res.add("C04-R4", "__init__:Gateway.alert / a raising callback changes nothing else", False, "mysensors/__init__.py", "the callback's exception escapes alert()", r["witness"], context=summ["ctx"])
            elif r["cb_raised"]:
                ok = r["dirty"] or r["off"]
                res.add("C04-R4", "__init__:Gateway.alert / dirty flag stored after a raising callback", ok, "mysensors/__init__.py", "the exceptional edge rejoins the normal path before need_save = True", r["witness"] if not ok else None, context=summ["ctx"])
    for summ in common.pmap(analysis, setter_root, ["battery_level", "heartbeat", "protocol_version"]):
        q = summ["qual"]
        for r in summ["rows"]:
            if r["kind"] == "raise":
                res.add("C04-R5", f"{q} / total", False, "mysensors/sensor.py", f"setter can raise {r['exc']}", r["witness"])
                continue
            res.add("C04-R5", f"{q} / total", True, "mysensors/sensor.py", "no exception escapes the setter")
            if r["fallback"]:
                want = FALLBACK[summ["prop"]]
                ok = r["is_const"] and r["const"] == want
                res.add("C04-R5", f"{q} / unusable value falls back to {want!r}", ok, "mysensors/sensor.py", f"stores {r['const']!r} on the rejecting path", r["witness"] if not ok else None)
            else:
                res.add("C04-R5", f"{q} / usable value is stored", r["stored"], "mysensors/sensor.py", "validated value stored")
        if not any(r["fallback"] for r in summ["rows"]):
            res.add("C04-R5", f"{q} / unusable value falls back to {FALLBACK[summ['prop']]!r}", False, "mysensors/sensor.py", "no rejecting path with a fallback found")
    res.units = {"contexts": len(specs), "paths": sum(len(r) for r in recs), **stats, "source_digest": analysis.p.digest()}
    res.not_decided = ["equality of the whole tree with the protocol meaning of a history (needs a reference model run)"]
    res.trusted = ["sa/effects.py classification", "sa/extmodel.py"]
    return res
