"""C19 - Behaviour depends only on the lines received (structural clauses only).

The statement itself is differential (same state and output for every segmentation of every byte
stream and for both flavours) and is NOT decided. Decided are the structural facts it rests on,
each a necessary condition whose breakage changes behaviour:

R1 framing is pyserial's and is configured as the statement says: for every protocol class the
   effective (MRO-resolved, reflected) TERMINATOR is b"\\n", the decoding is utf-8 with
   replacement, and data_received / handle_packet are pyserial's own (a repo override must hand
   its unchanged argument to the inherited method exactly once on every path).
R2 the only repo-owned chunk hand-over, the TCP reader loop, passes every non-empty chunk it
   received to protocol.data_received unchanged, exactly once, before it receives the next one.
R3 handle_line does the same thing in both flavours: per family the sync and the asyncio protocol
   class resolve to the same function, or their abstract paths agree; every job it creates is
   (gateway.logic, (line,)) with the line unchanged, at most one per line.
R4 deferred and inline execution agree: the threaded add_job appends the (func, args) pair when it
   is called from another thread and - like the asyncio add_job always does - runs the job at once
   and sends exactly its reply when a running job calls it (D16: deferring such a job put what a
   line triggers behind the lines already queued); the pump runs each popped job exactly once and
   hands exactly its result to transport.send before popping the next one (FIFO by C16-R4); a line
   that adds jobs has no reply of its own; a deferred job owns its message.
R5 MQTT: both flavours share one recv function, which enqueues logic with the mapped command.
"""
from __future__ import annotations

from typing import List

from ..engine import FAMILIES, Analysis, describe_path
from ..frontend import AnalysisError
from ..report import RuleResult
from ..values import BoundV, ExtObj, Const, Sym, TupleV, Unknown, V
from . import common
from .c01 import SEND_QUALS

PROP = "C19"
WANT_FRAMING = {"TERMINATOR": repr(b"\n"), "ENCODING": repr("utf-8"), "UNICODE_HANDLING": repr("replace")}
PYSERIAL = "serial.threaded:"


def refl_name(qual: str) -> str:
    mod, cls = qual.split(":")
    return f"mysensors.{mod}:{cls}" if mod != "__init__" else f"mysensors:{cls}"


def override_worker(analysis: Analysis, spec) -> dict:
    """A repo override of a framing method: must delegate its unchanged argument exactly once."""
    qual, method = spec
    info = analysis.p.find_method(qual, method)
    ctx = analysis.context(analysis.versions[-1], "serial", "sync")
    it = analysis.new_interp(ctx)
    st, gw = analysis.gateway_state(it)
    pr = Sym(("root", "PR"), ("cls", qual))
    st.mem[(pr.key(), "a", "gateway")] = gw
    data = Sym(("root", "data"), "bytes")
    rows = []
    # what a job does is not this rule's business (an override that ends up in handle_line would otherwise pull in
    # the whole dispatcher through the inline branch of add_job)
    it.inline_skip = set(SEND_QUALS) | {"__init__:Gateway.logic"}
    for out in analysis.run_root(it, info.qual, [data], pr, st):
        kind, s, v = out
        calls = [e for e in s.events if e.kind == "call" and e.name.split(".")[-1] == method]
        # ... and must not touch the framing state itself (the line buffer) or keep state of its own
        effects = [f"{e.kind} {e.name}" for e in s.events if e.kind in ("store", "setitem", "delitem", "append", "appendleft", "extend", "clear", "seqpop", "dictpop", "update", "insert")]
        ok = kind == "val" and len(calls) == 1 and calls[0].args and calls[0].args[0].key() == data.key() and not effects
        rows.append({"ok": ok, "effects": effects, "witness": describe_path(out, 14)})
    return {"qual": info.qual, "rows": rows}


def handle_line_worker(analysis: Analysis, spec) -> dict:
    fam, flavour = spec
    ctx = analysis.context(analysis.versions[-1], fam, flavour)
    it = analysis.new_interp(ctx)
    st, gw = analysis.gateway_state(it)
    pr = Sym(("root", "PR"), ("cls", ctx.protocol))
    st.mem[(pr.key(), "a", "gateway")] = gw
    m = analysis.p.find_method(ctx.protocol, "handle_line")
    add_jobs = {q for q in analysis.p.funcs if q.endswith(".add_job")}
    it.inline_skip = set(add_jobs)
    line = Sym(("root", "line"), "str")
    rows = []
    for out in analysis.run_root(it, m.qual, [line], pr, st):
        kind, s, v = out
        jobs = []
        for e in s.events:
            if e.kind == "opaque" and e.name in add_jobs:
                a = list(e.args[1:])
                f = a[0] if a else None
                is_logic = isinstance(f, BoundV) and f.info.qual == "__init__:Gateway.logic" and f.recv.key() == gw.key()
                same_line = len(a) == 2 and a[1].key() == line.key()
                jobs.append((is_logic, same_line))
        other = [f"{e.kind} {e.name}" for e in s.events if e.kind in ("store", "setitem", "append", "cb", "seqpop", "dictpop") or (e.kind == "call" and e.name.startswith("exttransport."))]
        rows.append({"kind": kind, "exc": v.cls.__name__ if kind == "raise" else None, "jobs": jobs, "other": other, "witness": describe_path(out, 12)})
    return {"fam": fam, "flavour": flavour, "qual": m.qual, "cls": ctx.protocol, "rows": rows}


def _result_key(call_event):
    """Key of the value an external / unknown callable returned at this call event (the interpreter names results
    after the call site)."""
    return ("u", f"res:{(call_event.func, call_event.line)!r}")


def add_job_worker(analysis: Analysis, flavour: str) -> dict:
    ctx = analysis.context(analysis.versions[-1], "serial", flavour)
    it = analysis.new_interp(ctx)
    st, gw = analysis.gateway_state(it)
    tasks = Sym(("attr", gw.key(), "tasks"), ("cls", ctx.tasks))
    it.inline_skip = set(SEND_QUALS)
    m = analysis.p.find_method(ctx.tasks, "add_job")
    f = Unknown("callable", label="jobfunc")
    arg = Sym(("root", "arg0"), None)
    qkey = ("attr", tasks.key(), "queue")
    trkey = ("attr", tasks.key(), "transport")
    rows = []
    for out in analysis.run_root(it, m.qual, [f, arg], tasks, st):
        kind, s, v = out
        appends = [e for e in s.events if e.kind in ("append", "appendleft", "extend", "insert") and isinstance(e.recv, V) and e.recv.key() == qkey]
        runs = [i for i, e in enumerate(s.events) if e.kind == "call" and e.name == "?callable" and isinstance(e.recv, V) and e.recv.key() == f.key()]
        run_args_ok = all(len(s.events[i].args) == 1 and s.events[i].args[0].key() == arg.key() for i in runs)
        sends = [(i, e) for i, e in enumerate(s.events) if e.kind == "opaque" and e.name in SEND_QUALS]
        pair_ok = len(appends) == 1 and appends[0].kind == "append" and isinstance(appends[0].args[0], TupleV) and len(appends[0].args[0].items) == 2 and appends[0].args[0].items[0].key() == f.key() and isinstance(appends[0].args[0].items[1], TupleV) and [x.key() for x in appends[0].args[0].items[1].items] == [arg.key()]
        send_ok = len(sends) == 1 and len(runs) == 1 and runs[0] < sends[0][0] and sends[0][1].args and sends[0][1].args[0].key() == trkey and len(sends[0][1].args) > 1 and sends[0][1].args[1].key() == _result_key(s.events[runs[0]])
        reply_falsy = bool(runs) and any(f[0] in ("falsy", "isnone") and f[1] == _result_key(s.events[runs[0]]) for f in s.facts)
        if not sends and reply_falsy and len(runs) == 1:
            send_ok = True  # an empty reply need not be handed to send (send ignores it)
        # the test "am I called from the pump thread?" (threaded flavour): current_thread() is <attribute of tasks>
        on_pump, pump_attr = None, None
        for fct in s.facts:
            if fct[0] == "atom" and fct[1][0] in ("is", "eq") and "threading.current_thread" in repr(fct[1]):
                other = [k for k in fct[1][1:] if "threading.current_thread" not in repr(k)]
                if other and isinstance(other[0], tuple) and other[0][:2] == ("attr", tasks.key()):
                    on_pump, pump_attr = fct[2], other[0][2]
        rows.append({"kind": kind, "exc": v.cls.__name__ if kind == "raise" else None, "appends": len(appends), "pair_ok": pair_ok, "runs": len(runs), "run_args_ok": run_args_ok, "sends": len(sends), "send_ok": send_ok, "on_pump": on_pump, "pump_attr": pump_attr, "witness": describe_path(out, 12)})
    # which attribute holds the thread that runs the pump loop (threaded flavour): evaluated from start()
    pump_thread_attrs = []
    if flavour == "sync":
        it2 = analysis.new_interp(ctx)
        st2, _gw2 = analysis.gateway_state(it2)
        it2.inline_skip = {q for q in analysis.p.funcs if q.endswith(".connect")}
        startm = analysis.p.find_method(ctx.tasks, "start")
        for kind, s2, v2 in analysis.run_root(it2, startm.qual, [], tasks, st2):
            started = {e.recv.key() for e in s2.events if e.kind == "call" and e.name == "threading.Thread.start" and isinstance(e.recv, V)}
            for e in s2.events:
                if e.kind == "store" and isinstance(e.recv, V) and e.recv.key() == tasks.key() and e.args and isinstance(e.args[0], ExtObj) and e.args[0].cls == "threading.Thread":
                    tgt = e.args[0].kwargs.get("target") or (e.args[0].args[1] if len(e.args[0].args) > 1 else None)
                    if isinstance(tgt, BoundV) and tgt.info.qual.endswith("._poll_queue") and e.args[0].key() in started:
                        pump_thread_attrs.append(e.name)
    return {"flavour": flavour, "qual": m.qual, "rows": rows, "pump_thread_attrs": sorted(set(pump_thread_attrs))}


def pump_worker(analysis: Analysis, _spec) -> dict:
    ctx = analysis.context(analysis.versions[-1], "serial", "sync")
    it = analysis.new_interp(ctx)
    st, gw = analysis.gateway_state(it)
    tasks = Sym(("attr", gw.key(), "tasks"), ("cls", ctx.tasks))
    it.inline_skip = set(SEND_QUALS)
    qkey = ("attr", tasks.key(), "queue")
    problems = []
    n_jobs = 0
    outs = analysis.run_root(it, "task:SyncTasks._poll_queue", [], tasks, st)
    for out in outs:
        kind, s, v = out
        if kind == "raise":
            continue  # totality of the pump is C01-R1
        pending = None  # a popped job not yet run / sent
        state = "idle"
        last_run = None
        falsy_keys = {f[1] for f in s.facts if f[0] in ("falsy", "isnone")}
        for e in s.events:
            if e.kind in ("seqpop", "dictpop") and isinstance(e.recv, V) and e.recv.key() == qkey:
                empty_reply = last_run is not None and _result_key(last_run) in falsy_keys
                if state == "popped" or (state == "ran" and not empty_reply):
                    problems.append(("a second job is popped before the previous one was run and its reply sent", out))
                if e.name != "popleft":
                    problems.append((f"jobs are taken with {e.name}, not from the left end", out))
                state = "popped"
                n_jobs += 1
            elif e.kind == "call" and e.name == "?callable" and state == "popped" and "job0" in repr(e.recv.key() if isinstance(e.recv, V) else ""):
                state = "ran"
                last_run = e
            elif e.kind == "opaque" and e.name in SEND_QUALS:
                reply = e.args[1] if len(e.args) > 1 else None
                if state == "ran":
                    if not (isinstance(reply, V) and last_run is not None and reply.key() == _result_key(last_run)):
                        problems.append(("the pump sends something other than the reply of the job it just ran", out))
                    state = "idle"
                elif state == "popped":
                    problems.append(("a job is popped but not run before the pump sends", out))
                    state = "idle"
                else:
                    if not (isinstance(reply, Const) and reply.value is None):
                        problems.append(("the pump sends a reply although no job was run", out))
        if state == "ran" and kind == "val" and not (last_run is not None and _result_key(last_run) in falsy_keys):
            problems.append(("the reply of the last job is never sent", out))
    return {"paths": len(outs), "jobs": n_jobs, "problems": [(p, describe_path(o, 16)) for p, o in problems[:4]]}


def tcp_reader_worker(analysis: Analysis, _spec) -> dict:
    ctx = analysis.context(analysis.versions[-1], "tcp", "sync")
    it = analysis.new_interp(ctx)
    st, gw = analysis.gateway_state(it)
    tr = Sym(("root", "TT"), ("cls", "gateway_tcp:TCPTransport"))
    outs = analysis.run_root(it, "gateway_tcp:TCPTransport.run", [], tr, st)
    problems = []
    n_recv = n_handed = 0
    for out in outs:
        kind, s, v = out
        last = None  # the chunk received and not yet handed over
        for e in s.events:
            if e.kind != "call":
                continue
            short = e.name.split(".")[-1]
            if short in ("recv", "recv_into", "read") and "sock" in repr(e.recv.key() if isinstance(e.recv, V) else ""):
                n_recv += 1
                last = e
            elif short == "data_received":
                n_handed += 1
                arg = e.args[0] if e.args else None
                src = repr(arg.key()) if isinstance(arg, V) else ""
                if last is None:
                    problems.append(("data_received is called without a chunk having been received", out))
                elif not (".recv:" in src or src.startswith("('u', '") and "recv" in src) or "binop" in src or "slice" in src or "strip" in src or "decode" in src or "replace" in src:
                    problems.append((f"the chunk handed to data_received is {src[:80]}, not the received bytes unchanged", out))
                last = None
        # a truthy chunk that was never handed over before the next receive / the end is a dropped chunk
    # a received chunk may be skipped only when it is empty: after a receive, the next step of the loop is the
    # hand-over, or it is taken under `not data`
    for out in outs:
        kind, s, v = out
        evs = [e for e in s.events if e.kind in ("call", "catch", "loopcut")]
        for i, e in enumerate(evs):
            if not (e.kind == "call" and e.name.split(".")[-1] == "recv" and "sock" in repr(e.recv.key() if isinstance(e.recv, V) else "")):
                continue
            nxt = evs[i + 1] if i + 1 < len(evs) else None
            if nxt is None or nxt.kind != "call" or nxt.name.split(".")[-1] == "data_received":
                continue  # handed over, or the receive itself failed / the path ends here
            fs = nxt.facts or ()
            known_empty = any(f[0] in ("falsy", "isnone") and "recv" in repr(f[1]) for f in fs)
            known_data = any(f[0] == "truthy" and "recv" in repr(f[1]) for f in fs)
            if not known_empty:
                problems.append(("a received chunk is skipped on a path that is not taken under `not data`: non-empty chunks can be dropped", out))
    return {"paths": len(outs), "recv": n_recv, "handed": n_handed, "problems": [(p, describe_path(o, 16)) for p, o in problems[:4]]}


def mqtt_recv_worker(analysis: Analysis, flavour: str) -> dict:
    ctx = analysis.context(analysis.versions[-1], "mqtt", flavour)
    it = analysis.new_interp(ctx)
    st, gw = analysis.gateway_state(it)
    tr = Sym(("root", "TR"), ("cls", ctx.transport))
    st.mem[(tr.key(), "a", "gateway")] = gw
    m = analysis.p.find_method(ctx.transport, "recv")
    add_jobs = {q for q in analysis.p.funcs if q.endswith(".add_job")}
    it.inline_skip = set(add_jobs) | {"gateway_mqtt:BaseMQTTGateway.parse_mqtt_to_message"}
    rows = []
    for out in analysis.run_root(it, m.qual, [Sym(("root", "topic"), "str"), Sym(("root", "payload"), None), Sym(("root", "qos"), "int", nullable=True)], tr, st):
        kind, s, v = out
        jobs = []
        for e in s.events:
            if e.kind == "opaque" and e.name in add_jobs:
                a = list(e.args[1:])
                f = a[0] if a else None
                jobs.append(isinstance(f, BoundV) and f.info.qual == "__init__:Gateway.logic" and len(a) == 2 and "parse_mqtt_to_message" in repr(a[1].key()))
        rows.append({"kind": kind, "jobs": jobs, "witness": describe_path(out, 10)})
    return {"flavour": flavour, "qual": m.qual, "rows": rows}


def inbound_text_encodable(analysis: Analysis, res, rule: str) -> None:
    """Lemma for C01: what the line readers hand to the gateway can be encoded again. Text decoded with
    'replace' / 'ignore' holds no lone surrogates; with 'surrogateescape' it can (a later strict `.encode()` of a
    reply that copies the payload raises UnicodeEncodeError in the pump), and 'strict' raises in the reader."""
    classes = analysis.refl["classes"]
    for q in sorted({FAMILIES[f][i] for f in FAMILIES for i in (4, 5) if FAMILIES[f][i]}):
        r = classes.get(refl_name(q))
        if r is None or not r.get("framing"):
            raise AnalysisError(f"{rule}: no reflected framing for {q}")
        got = r["framing"].get("UNICODE_HANDLING")
        ok = got in ("'replace'", "'ignore'")
        res.add(rule, f"{q} / inbound bytes are decoded to text that can be encoded again", ok, "mysensors/transport.py", f"UNICODE_HANDLING = {got}" if ok else f"UNICODE_HANDLING = {got}: an inbound line with invalid UTF-8 either raises in the reader or leaves lone surrogates in stored payloads - the strict encode() of a later reply raises UnicodeEncodeError out of the pump")


def run(analysis: Analysis, tier: str) -> RuleResult:
    res = RuleResult(PROP)
    res.explanation = [
        "Structural clauses only - the differential statement (same state and output for every segmentation and both flavours) is not decided.",
        "R1 reflected, MRO-resolved framing parameters of every protocol class (terminator b'\\n', utf-8 with replacement) and framing methods owned by pyserial (a repo override must delegate its unchanged argument once); R2 every abstract path of the TCP reader loop hands each received chunk unchanged and exactly once to data_received;",
        "R3 handle_line resolves to one function for the sync and asyncio protocol of a family (or their paths agree) and only ever enqueues (gateway.logic, (line,)); R4 sibling agreement of deferred and inline job execution: append the pair / pop - run once - send its reply / run once - send its reply; R5 one MQTT recv for both flavours.",
    ]
    classes = analysis.refl["classes"]
    protos = sorted({FAMILIES[f][i] for f in FAMILIES for i in (4, 5) if FAMILIES[f][i]})
    if len(protos) < 3:
        raise AnalysisError(f"C19-R1: only {len(protos)} protocol classes known")
    overrides = []
    for q in protos:
        r = classes.get(refl_name(q))
        if r is None or not r.get("framing"):
            raise AnalysisError(f"C19-R1: no reflected framing for {q}")
        for attr, want in WANT_FRAMING.items():
            got = r["framing"].get(attr)
            res.add("C19-R1", f"{q} / effective {attr} is {want}", got == want, "mysensors/transport.py", f"{attr} = {got}" if got == want else f"{attr} = {got}: lines are framed / decoded differently from what the statement fixes (newline-terminated, utf-8 with replacement)")
        for meth in ("data_received", "handle_packet"):
            owner = r["defined_in"].get(meth) or ""
            if owner.startswith(PYSERIAL):
                res.add("C19-R1", f"{q} / {meth} is pyserial's (chunks are buffered until the terminator, then decoded as a whole)", True, "mysensors/transport.py", owner)
            else:
                overrides.append((q, meth))
    for summ in common.pmap(analysis, override_worker, overrides) if overrides else []:
        bad = [r for r in summ["rows"] if not r["ok"]]
        res.add("C19-R1", f"{summ['qual']} / hands its unchanged argument to the inherited method exactly once on every path", not bad and bool(summ["rows"]), "mysensors/transport.py", f"{len(summ['rows'])} path(s)" if not bad else "a repo override of a framing method does not simply delegate: framing now depends on how the stream was chunked unless proven otherwise", bad[0]["witness"] if bad else None)
    # R2
    t = common.pmap(analysis, tcp_reader_worker, ["x"])[0]
    res.add("C19-R2", "gateway_tcp:TCPTransport.run / every received chunk is handed to data_received unchanged, exactly once, in order", not t["problems"] and t["handed"] > 0, "mysensors/gateway_tcp.py", f"{t['paths']} paths, {t['recv']} receive and {t['handed']} hand-over events" if not t["problems"] else t["problems"][0][0], t["problems"][0][1] if t["problems"] else None)
    # R3
    hl = {(s["fam"], s["flavour"]): s for s in common.pmap(analysis, handle_line_worker, [(f, fl) for f in ("serial", "tcp") for fl in ("sync", "async")])}
    for (fam, fl), s in sorted(hl.items()):
        for r in s["rows"]:
            if r["kind"] == "raise":
                continue  # totality is C01-R1
            okj = all(a and b for a, b in r["jobs"]) and len(r["jobs"]) <= 1
            res.add("C19-R3", f"{s['qual']} / every job is (gateway.logic, (line,)) with the line unchanged, at most one per line", okj, "mysensors/transport.py", f"{len(r['jobs'])} job(s)" if okj else f"jobs {r['jobs']}: the line is transformed, duplicated or handed to something other than gateway.logic", r["witness"] if not okj else None, context=f"{fam}/{fl}")
            res.add("C19-R3", f"{s['qual']} / keeps no state between lines", not r["other"], "mysensors/transport.py", "no store / container mutation" if not r["other"] else f"handle_line has effects of its own: {r['other'][:3]}", r["witness"] if r["other"] else None, context=f"{fam}/{fl}")
    for fam in ("serial", "tcp"):
        a, b = hl[(fam, "sync")], hl[(fam, "async")]
        same = a["qual"] == b["qual"]
        if not same:
            sa = sorted((r["kind"], tuple(r["jobs"]), tuple(r["other"])) for r in a["rows"])
            sb = sorted((r["kind"], tuple(r["jobs"]), tuple(r["other"])) for r in b["rows"])
            same = sa == sb
        res.add("C19-R3", f"{fam}: the threaded and the asyncio protocol handle a line the same way", same, "mysensors/transport.py", f"{a['qual']} for both" if a["qual"] == b["qual"] else (f"{a['qual']} and {b['qual']} have the same path summaries" if same else f"{a['qual']} and {b['qual']} differ"))
    # R4
    aj = {s["flavour"]: s for s in common.pmap(analysis, add_job_worker, ["sync", "async"])}
    # threaded flavour: a job added from another thread (reader, controller) is appended as (func, args); a job added
    # by a running job - from the pump thread - is run at once, as the asyncio flavour does. Deferring it would put
    # the commands a line triggers (wake-up flush, presentation request) behind whatever lines are already queued:
    # the emitted sequence would depend on the flavour and on how the stream was chunked (D16)
    sq = aj["sync"]["qual"]
    inline_rows = [r for r in aj["sync"]["rows"] if r["kind"] == "val" and r["runs"] == 1]
    for r in aj["sync"]["rows"]:
        if r["kind"] == "raise":
            continue  # a raising job is C01
        if r["runs"]:
            ok = r["run_args_ok"] and r["send_ok"] and r["appends"] == 0 and r["on_pump"] is True
            res.add("C19-R4", f"{sq} / a job added by a running job is run once, at once, and exactly its reply is sent - only when called from the pump thread", ok, "mysensors/task.py", "current_thread() is the pump thread: reply = run_job(job); transport.send(reply)" if ok else f"runs {r['runs']} (args ok: {r['run_args_ok']}), send ok: {r['send_ok']}, appends {r['appends']}, pump-thread test: {r['on_pump']}", r["witness"] if not ok else None)
        else:
            ok = r["pair_ok"] and r["sends"] == 0 and r["on_pump"] is not True
            res.add("C19-R4", f"{sq} / a job added from another thread is appended as the (func, args) pair", ok, "mysensors/task.py", "queue.append((func, args))" if ok else f"appends {r['appends']} (pair ok: {r['pair_ok']}), sends {r['sends']}, pump-thread test: {r['on_pump']}", r["witness"] if not ok else None)
    attrs = {r["pump_attr"] for r in inline_rows if r["pump_attr"]}
    ok_n = bool(inline_rows) and bool(attrs) and attrs <= set(aj["sync"]["pump_thread_attrs"])
    res.add("C19-R4", f"{sq} / jobs added while a job runs are not deferred behind the lines already queued (same emitted order as the asyncio flavour, whatever the chunking)", ok_n, "mysensors/task.py", f"inline path under current_thread() is self.{sorted(attrs)[0]}, which start() sets to the started pump thread" if ok_n else ("every job is appended: what a wake-up line releases is sent after the replies to lines that were already waiting - the threaded gateway emits another order than the asyncio one, and its order depends on whether the pump ran between two chunks" if not inline_rows else f"the inline path is taken under a test of {sorted(attrs)} but start() stores the pump thread in {aj['sync']['pump_thread_attrs']}"), next((r["witness"] for r in aj["sync"]["rows"] if r["kind"] == "val"), None))
    for r in aj["async"]["rows"]:
        if r["kind"] == "raise":
            continue  # a raising job / cancellation is C01 / C20
        ok = r["runs"] == 1 and r["run_args_ok"] and r["send_ok"] and r["appends"] == 0
        res.add("C19-R4", f"{aj['async']['qual']} / runs exactly the given job once and hands exactly its reply to transport.send", ok, "mysensors/task.py", "reply = run_job((func, args)); transport.send(reply)" if ok else f"runs {r['runs']} (args ok: {r['run_args_ok']}), sends {r['sends']} (ok: {r['send_ok']}), appends {r['appends']}", r["witness"] if not ok else None)
    pw = common.pmap(analysis, pump_worker, ["x"])[0]
    res.add("C19-R4", "task:SyncTasks._poll_queue / each popped job is run once and exactly its reply is sent before the next job is popped", not pw["problems"] and pw["jobs"] > 0, "mysensors/task.py", f"{pw['paths']} paths, {pw['jobs']} pop events" if not pw["problems"] else pw["problems"][0][0], pw["problems"][0][1] if pw["problems"] else None)
    # deferred jobs see what inline jobs see: a job bound to a message must own that message (created on the
    # path for this job); a long-lived object rewritten per call gives the threaded flavour the last writer's
    # fields for every queued job, while the asyncio flavour encodes at once
    from . import c08, pathsum

    last = analysis.versions[-1]
    n_jobs = 0
    for recs in common.pmap(analysis, pathsum.logic_records, [(last, "serial", "sync"), (analysis.versions[0], "serial", "sync"), (last, "mqtt", "sync")]):
        for r in recs:
            nested = [sk for sk in r["sinks"] if sk["kind"] == "add_job"]
            if nested and r["kind"] == "val":
                # order of emitted commands: the asyncio flavour runs a nested job (and sends its reply) inside the
                # handler, before the line's own reply; the threaded flavour queues it behind the line's own reply
                ok_o = bool(r.get("ret_none"))
                res.add("C19-R4", f"{nested[0]['func']} / a line that queues further jobs has no reply of its own (the two flavours would send them in different orders)", ok_o, f"{nested[0]['func']}:{nested[0]['line']}", "the handler returns None on this path" if ok_o else f"the path queues {len(nested)} job(s) and also returns a reply: the threaded gateway writes the reply first and the queued command after it, the asyncio gateway the other way round", r["witness"] if not ok_o else None, context=r["ctx"])
            for sk in r["sinks"]:
                if sk["kind"] != "add_job":
                    continue
                n_jobs += 1
                job = sk.get("job") or ""
                if sk.get("msg") is None and (job.startswith("ext:builtins.str") or "Gateway.logic" in job):
                    continue  # str(<held line>) / logic(<line>): the argument is an immutable string
                own = isinstance(sk.get("msg"), tuple) and sk["msg"][:1] == ("obj",) and "message:Message.encode" in job
                res.add("C19-R4", f"{sk['func']} / a deferred job is bound to a message created for that job", own, f"{sk['func']}:{sk['line']}", "fresh Message object" if own else f"the job is {job[:60]} bound to {sk.get('msg')!r}, not to a message created on this path - an object that outlives the call: queued jobs all see its latest fields when the pump finally encodes them, the asyncio flavour encodes each at once", r["witness"] if not own else None, context=r["ctx"])
    if n_jobs < 5:
        raise AnalysisError(f"C19-R4: only {n_jobs} deferred jobs found on the paths of Gateway.logic")
    # the job queue neither drops nor reorders (a bounded deque silently discards the oldest job: only the
    # threaded flavour has a queue)
    c08.queue_access(analysis, res, "C19-R4")
    # R5
    mq = {s["flavour"]: s for s in common.pmap(analysis, mqtt_recv_worker, ["sync", "async"])}
    res.add("C19-R5", "mqtt: both flavours receive through the same function", mq["sync"]["qual"] == mq["async"]["qual"], "mysensors/gateway_mqtt.py", f"{mq['sync']['qual']} / {mq['async']['qual']}")
    for fl, s in mq.items():
        for r in s["rows"]:
            if r["kind"] == "raise":
                continue
            ok = all(r["jobs"]) and len(r["jobs"]) <= 1
            res.add("C19-R5", f"{s['qual']} / enqueues gateway.logic with the mapped command, at most once per message", ok, "mysensors/gateway_mqtt.py", f"{len(r['jobs'])} job(s)", r["witness"] if not ok else None, context=fl)
    res.need("C19-R1", 9, "framing obligations")
    res.need("C19-R4", 3, "job execution obligations")
    res.units = {"protocol_classes": protos, "functions": ["gateway_tcp:TCPTransport.run", "task:SyncTasks.add_job", "task:AsyncTasks.add_job", "task:SyncTasks._poll_queue", "task:Tasks.run_job"], "source_digest": analysis.p.digest()}
    res.not_decided = ["the differential statement itself: equality of state and output over all byte streams, segmentations and flavours", "pyserial's Packetizer / LineReader and the asyncio / pyserial reader loops (external)", "FIFO order of the job queue (C16-R4)"]
    res.trusted = ["pyserial Packetizer.data_received / LineReader.handle_packet", "reflection of class attributes (import only)", "sa/extmodel.py"]
    return res
