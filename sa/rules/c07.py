"""C07 - Nothing is sent to a sleeping node outside its wake window.

R1 every outbound sink (add_job site, transport.send site, the return of Gateway.logic) is
   classified on every abstract path: ROUTED (the message passed _route_message), NOT-SLEEPING
   (dominated by the false branch of the destination's sleeping test / unknown node), FLUSH
   (inside the wake-up flush, addressed to the waking node), GATEWAY-ADDRESSED (node id 0),
   INBOUND-DISPATCH (enqueues Gateway.logic itself), PUMP (sends a job result), RAW-API.
R2 the router: a message is returned for sending only if its node is unknown, not sleeping,
   or the message is a stream message; otherwise it is appended to the queue of the very node
   the sleeping test looked at, and None is returned.
R3 the hold queue is popped only by the flush; the flush is reached exactly from the wake-up
   announcements of each version, for a known node.
R4 on the sleeping branch of set_child_value no sink is reachable.
R5 every node owns its hold queue and desired-state map: each initialisation is a fresh container.
"""
from __future__ import annotations

import ast
from typing import Dict, List

from ..effects import render
from ..engine import Analysis, describe_path
from ..frontend import AnalysisError, unparse
from ..report import RuleResult
from ..values import BoundV, Const, EnumMemV, ExtV, Obj, Sym, TupleV, Unknown, V
from . import common, pathsum
from .c01 import MODULAR, SEND_QUALS
from .c14 import specs_for

PROP = "C07"

WAKE = {"1.4": set(), "1.5": set(), "2.0": {"I_HEARTBEAT_RESPONSE"}, "2.1": {"I_HEARTBEAT_RESPONSE"}, "2.2": {"I_PRE_SLEEP_NOTIFICATION"}}
FLUSH = "handler:handle_smartsleep"


def sleeping_facts(facts, nodekey) -> Dict[str, bool]:
    """What the path knows about the node `nodekey` at some point."""
    sens = ("attr", ("root", "GW"), "sensors")
    item = ("item", sens, nodekey)
    ns = ("attr", item, "new_state")
    return {
        "unknown_node": ("notin", nodekey, sens) in facts,
        "awake": ("falsy", ns) in facts,
        "sleeping": ("truthy", ns) in facts,
    }


def classify_sinks(it, out, root: str, gwkey) -> List[dict]:
    """Classify every sink event on one path."""
    kind, st, v = out
    rows = []
    msgkey = common.inbound_message_key(st.events)
    inbound_node = st.mem.get((msgkey, "a", "node_id")) if msgkey else None
    routed = set()
    for idx, e in enumerate(st.events):
        if e.kind == "exit" and e.name == "__init__:Gateway._route_message" and e.args and not isinstance(e.args[0], Const):
            routed.add(e.args[0].key())
        is_add_job = e.kind == "enter" and e.name.startswith("task:") and e.name.endswith(".add_job")
        is_send = e.kind == "opaque" and e.name in SEND_QUALS
        if not (is_add_job or is_send):
            continue
        caller = e.stack[-2] if (is_add_job and len(e.stack) >= 2) else e.func
        in_flush = FLUSH in e.stack
        row = {"site": caller, "line": e.line, "class": None, "detail": "", "kind": "add_job" if is_add_job else "send"}
        if is_send:
            if caller.startswith("task:"):
                row["class"] = "PUMP"
            elif caller == "__init__:Gateway.send":
                row["class"] = "RAW-API"
            else:
                row["class"] = None
                row["detail"] = "transport.send() called outside the pump and the public send()"
            rows.append(row)
            continue
        f = e.args[1] if len(e.args) > 1 else None
        extra = e.args[2:] if len(e.args) > 2 else ()
        if len(extra) == 1 and isinstance(extra[0], TupleV):
            extra = extra[0].items
        if isinstance(f, BoundV) and f.info.qual == "__init__:Gateway.logic":
            row["class"] = "INBOUND-DISPATCH"
        elif isinstance(f, BoundV) and f.info.qual == "message:Message.encode":
            m = f.recv
            node = st.mem.get((m.key(), "a", "node_id")) if isinstance(m, Obj) else None
            if m.key() in routed:
                row["class"] = "ROUTED"
            elif isinstance(node, Const) and node.value == 0:
                row["class"] = "GATEWAY-ADDRESSED"
            elif node is not None:
                nk = node.key()
                # sensor.sensor_id of sensors[k] is k (INV-KEY-ID)
                if isinstance(nk, tuple) and nk[0] == "attr" and nk[2] == "sensor_id" and isinstance(nk[1], tuple) and nk[1][0] == "item":
                    nk = nk[1][2]
                sf = sleeping_facts(e.facts, nk)
                if in_flush and inbound_node is not None and nk == inbound_node.key():
                    row["class"] = "FLUSH"
                elif sf["unknown_node"] or sf["awake"]:
                    row["class"] = "NOT-SLEEPING"
                else:
                    row["detail"] = f"command for node {render(nk)} is enqueued without passing the router, outside the flush, and the node is not known to be awake"
            else:
                row["detail"] = "destination node of the enqueued message is unknown to the analysis"
        elif isinstance(f, ExtV) and f.name == "builtins.str":
            arg = extra[0] if extra else None
            label = getattr(arg, "label", "") if arg is not None else ""
            want = None
            if inbound_node is not None:
                want = ("attr", ("item", ("attr", ("root", "GW"), "sensors"), inbound_node.key()), "queue")
            if in_flush and want is not None and label.startswith(f"popleft:{want!r}"):
                row["class"] = "FLUSH"
            else:
                row["detail"] = "a raw string job that is not a held reply popped from the waking node's own queue"
        else:
            row["detail"] = f"job function {f.key() if isinstance(f, V) else f!r} not recognised"
        rows.append(row)
    return rows


def logic_worker(analysis: Analysis, spec) -> dict:
    ctx = analysis.context(*spec)
    it = analysis.new_interp(ctx)
    it.inline_skip = set(MODULAR)
    st, gw = analysis.gateway_state(it)
    outs = analysis.run_root(it, "__init__:Gateway.logic", [Sym(("root", "line"), "str")], gw, st)
    sinks: Dict[tuple, dict] = {}
    bad = []
    ret_unrouted = []
    flush_entries = set()
    wake_no_flush = []
    pops = []
    nret = 0
    for out in outs:
        kind, s, v = out
        if kind != "val":
            continue
        for row in classify_sinks(it, out, "__init__:Gateway.logic", gw.key()):
            k = (row["site"], row["kind"], row["class"])
            sinks.setdefault(k, {"n": 0, "line": row["line"]})["n"] += 1
            if row["class"] is None:
                bad.append({**row, "witness": describe_path(out, 20)})
        # the reply returned by logic
        if not (isinstance(v, Const) and v.value is None):
            nret += 1
            enc = None
            for f in s.facts:
                if f[0] == "encodedof" and f[1] == v.key():
                    enc = f[2]
            routed = {e.args[0].key() for e in s.events if e.kind == "exit" and e.name == "__init__:Gateway._route_message" and e.args and not isinstance(e.args[0], Const)}
            if enc is None or enc not in routed:
                ret_unrouted.append(describe_path(out, 20))
        tname = sub = None
        for f in s.facts:
            if f[0] == "enumeq" and f[2] == "MessageType":
                tname = f[3]
            if f[0] == "enumeq" and f[2] in ("Internal", "Stream"):
                sub = f[3]
        # a wake-up announcement of a known node that does not reach the flush
        want_wake = WAKE.get(spec[0]) or set()
        if tname == "internal" and sub in want_wake and not any(e.kind == "enter" and e.name == FLUSH for e in s.events):
            mk = common.inbound_message_key(s.events)
            nd = s.mem.get((mk, "a", "node_id")) if mk else None
            if nd is not None and ("in", nd.key(), ("attr", ("root", "GW"), "sensors")) in s.facts:
                wake_no_flush.append(describe_path(out, 20))
        for e in s.events:
            if e.kind == "enter" and e.name == FLUSH:
                msgkey = common.inbound_message_key(s.events)
                node = s.mem.get((msgkey, "a", "node_id")) if msgkey else None
                known = node is not None and ("in", node.key(), ("attr", ("root", "GW"), "sensors")) in (e.facts or ())
                flush_entries.add((tname, sub, known))
            if e.kind == "seqpop" and isinstance(e.recv, V) and render(e.recv.key()).endswith(".sensors[*].queue"):
                pops.append(FLUSH if FLUSH in e.stack else e.func)
    return {"ctx": ctx.name, "version": spec[0], "paths": len(outs), "sinks": {f"{k[0]}|{k[1]}|{k[2]}": v for k, v in sinks.items()}, "bad": bad, "ret_unrouted": ret_unrouted, "replies": nret, "flush_entries": sorted(flush_entries, key=str), "wake_no_flush": wake_no_flush[:2], "pops": sorted(set(pops))}


def router_worker(analysis: Analysis, spec) -> dict:
    ctx = analysis.context(*spec)
    it = analysis.new_interp(ctx)
    st, gw = analysis.gateway_state(it)
    msg = Sym(("root", "S"), ("cls", "message:Message"))
    outs = analysis.run_root(it, "__init__:Gateway._route_message", [msg], gw, st)
    node = Sym(("attr", msg.key(), "node_id"), "int")
    typ = Sym(("attr", msg.key(), "type"), "int")
    sens = ("attr", gw.key(), "sensors")
    qkey = ("attr", ("item", sens, node.key()), "queue")
    stream = EnumMemV("MessageType", ctx.version, ("stream",)).key()
    pres = EnumMemV("MessageType", ctx.version, ("presentation",)).key()
    rows = []
    for out in outs:
        kind, s, v = out
        if kind != "val":
            rows.append({"ok": False, "what": "router raises", "witness": describe_path(out)})
            continue
        appends = [e for e in s.events if e.kind == "append"]
        sf = sleeping_facts(s.facts, node.key())

        def eqfact(member, truth):
            ka, kb = sorted([typ.key(), member], key=repr)
            return ("atom", ("eq", ka, kb), truth) in s.facts

        is_stream = eqfact(stream, True)
        is_pres = eqfact(pres, True)
        returns_msg = isinstance(v, V) and v.key() == msg.key()
        if returns_msg:
            ok = sf["unknown_node"] or sf["awake"] or is_stream
            rows.append({"ok": ok and not appends and not is_pres, "what": "returns the message for sending", "why": "node unknown" if sf["unknown_node"] else "node awake" if sf["awake"] else "stream message" if is_stream else "NO exemption holds on this path", "witness": describe_path(out)})
        else:
            none = isinstance(v, Const) and v.value is None
            if appends:
                a = appends[0]
                same_queue = isinstance(a.recv, V) and a.recv.key() == qkey
                enc_ok = False
                if a.args:
                    for f in s.facts:
                        if f[0] == "encodedof" and f[1] == a.args[0].key() and f[2] == msg.key():
                            enc_ok = True
                rows.append({"ok": none and len(appends) == 1 and same_queue and enc_ok and sf["sleeping"], "what": "holds the message", "why": f"appended to {render(a.recv.key()) if isinstance(a.recv, V) else '?'}; same node as the sleeping test: {same_queue}; encoded message: {enc_ok}; returns None: {none}", "witness": describe_path(out)})
            else:
                rows.append({"ok": none and (is_pres or not sf["sleeping"]), "what": "drops the message", "why": "presentation echo / not a message" if none else "returns something else", "witness": describe_path(out)})
    held = any(r["what"] == "holds the message" for r in rows)
    # a stream (firmware) message is never withheld: run the router on a message whose type is `stream`
    it2 = analysis.new_interp(ctx)
    st2, gw2 = analysis.gateway_state(it2)
    st2.mem[(msg.key(), "a", "type")] = EnumMemV("MessageType", ctx.version, ("stream",))
    stream_rows = []
    for out in analysis.run_root(it2, "__init__:Gateway._route_message", [msg], gw2, st2):
        kind, s, v = out
        passed = kind == "val" and isinstance(v, V) and v.key() == msg.key() and not any(e.kind == "append" for e in s.events)
        stream_rows.append({"ok": passed, "witness": describe_path(out)})
    # a presentation-type message (the echo the presentation handler returns) is dropped: never sent, never held
    it3 = analysis.new_interp(ctx)
    st3, gw3 = analysis.gateway_state(it3)
    st3.mem[(msg.key(), "a", "type")] = EnumMemV("MessageType", ctx.version, ("presentation",))
    pres_rows = []
    for out in analysis.run_root(it3, "__init__:Gateway._route_message", [msg], gw3, st3):
        kind, s, v = out
        dropped = kind == "val" and isinstance(v, Const) and v.value is None and not any(e.kind == "append" for e in s.events)
        pres_rows.append({"ok": dropped, "witness": describe_path(out)})
    return {"ctx": ctx.name, "rows": rows, "held": held, "stream_rows": stream_rows, "pres_rows": pres_rows}


def presentation_dropped(analysis: Analysis, res, rule: str) -> None:
    """The presentation handler returns the inbound message and relies on the router to discard it: a
    presentation-type message is neither sent nor parked in a sleeping node's hold queue (shared with C05)."""
    for summ in common.pmap(analysis, router_worker, [(v, "serial", "sync") for v in (analysis.versions[0], analysis.versions[-1])]):
        pr = summ["pres_rows"]
        ok = bool(pr) and all(r["ok"] for r in pr)
        res.add(rule, "__init__:Gateway._route_message / a presentation-type message is dropped (neither sent nor held)", ok, "mysensors/__init__.py", f"{len(pr)} path(s) return None without touching a queue" if ok else "a presentation echo can be returned for sending or parked in the hold queue of a sleeping node (and is then sent to the node at its next wake-up)", next((r["witness"] for r in pr if not r["ok"]), None), context=summ["ctx"])


def hold_queue_plain(analysis: Analysis, res: RuleResult, rule: str) -> None:
    """What the router puts into a node's hold queue is the encoded line (a str).  pickle writes the whole
    instance dict, the transient queue included, so an object that references the message / gateway / const
    module there makes every pickle save fail while a reply is withheld (shared by C11-R4, C06-R5, C14-R2)."""
    for summ in common.pmap(analysis, router_worker, [(analysis.versions[-1], "serial", "sync")]):
        held = [r for r in summ["rows"] if r["what"] == "holds the message"]
        okq = bool(held) and all(r["ok"] for r in held)
        res.add(rule, "__init__:Gateway._route_message / what is put into the node's hold queue is the encoded line (a str): the pickle of a node with withheld replies stays writable", okq, "mysensors/__init__.py", "queue.append(msg.encode())" if okq else (held[0]["why"] if held else "no holding path"), next((r["witness"] for r in held if not r["ok"]), None))


def set_child_value_worker(analysis: Analysis, spec) -> dict:
    ctx = analysis.context(*spec)
    it = analysis.new_interp(ctx)
    it.inline_skip = set(MODULAR)
    st, gw = analysis.gateway_state(it)
    args = [Sym(("root", "a_node"), "int"), Sym(("root", "a_child"), "int"), Sym(("root", "a_vtype"), "int"), Sym(("root", "a_value"), None)]
    outs = analysis.run_root(it, "__init__:Gateway.set_child_value", args, gw, st)
    sens = ("attr", gw.key(), "sensors")
    ns = ("attr", ("item", sens, args[0].key()), "new_state")
    rows = []
    for out in outs:
        kind, s, v = out
        sinks = [e for e in s.events if (e.kind == "enter" and e.name.startswith("task:") and e.name.endswith(".add_job")) or (e.kind == "opaque" and e.name in SEND_QUALS)]
        # sinks that are not the presentation request of is_sensor (which is routed)
        own = [e for e in sinks if "__init__:Gateway.is_sensor" not in e.stack]
        sleeping = ("truthy", ns) in s.facts
        awake = ("falsy", ns) in s.facts
        rows.append({"kind": kind, "sleeping": sleeping, "awake": awake, "own_sinks": len(own), "sink_facts_awake": all(("falsy", ns) in (e.facts or ()) for e in own), "witness": describe_path(out, 20)})
    return {"ctx": ctx.name, "rows": rows}


def check_connection_worker(analysis: Analysis, spec) -> dict:
    ctx = analysis.context(*spec)
    it = analysis.new_interp(ctx)
    it.inline_skip = set(MODULAR)
    st, gw = analysis.gateway_state(it)
    m = analysis.p.find_method(ctx.gateway, "check_connection")
    base = analysis.p.func("gateway_tcp:BaseTCPGateway.check_connection")
    outs = analysis.run_root(it, base.qual, [], gw, st)
    rows = []
    for out in outs:
        for row in classify_sinks(it, out, base.qual, gw.key()):
            rows.append(row)
    return {"ctx": ctx.name, "rows": rows}


def sink_sites(analysis: Analysis) -> List[tuple]:
    """Every syntactic sink in the package: add_job / transport.send call sites."""
    sites = []
    for mod in common.core_modules(analysis):
        for node in ast.walk(mod.tree):
            if isinstance(node, ast.Call) and isinstance(node.func, ast.Attribute):
                if node.func.attr == "add_job":
                    sites.append((common.func_of_node(analysis, mod, node), "add_job", common.where(analysis, mod, node), node))
                elif node.func.attr == "send" and unparse(node.func.value).endswith("transport"):
                    sites.append((common.func_of_node(analysis, mod, node), "send", common.where(analysis, mod, node), node))
    return sites


def structural_class(analysis: Analysis, site: str, kind: str, call: ast.Call) -> str:
    """Class of a sink site that follows from the shape of the call itself (no path needed)."""
    if kind == "add_job" and call.args and unparse(call.args[0]).endswith(".logic"):
        return "INBOUND-DISPATCH"  # enqueues the dispatcher itself with the received line
    if kind == "send":
        info = analysis.p.funcs.get(site)
        if info is not None and call.args and isinstance(call.args[0], ast.Name):
            arg = call.args[0].id
            # PUMP: the argument is the result of run_job in the same function
            for n in ast.walk(info.node):
                if isinstance(n, ast.Assign) and any(isinstance(t, ast.Name) and t.id == arg for t in n.targets) and "run_job(" in unparse(n.value):
                    return "PUMP"
            params = [a.arg for a in info.node.args.args]
            if info.cls is not None and "Gateway" in [c.split(":")[1] for c in analysis.p.mro(info.cls.qual) if not c.startswith("ext:")] and arg in params and info.name == "send":
                return "RAW-API"
    return ""


def container_freshness(analysis: Analysis, res: RuleResult) -> None:
    """R5: each node owns its hold queue and desired-state map (no object shared between nodes)."""
    mod = analysis.p.modules["sensor"]
    n = 0
    for node in ast.walk(mod.tree):
        if isinstance(node, ast.Assign):
            for t in node.targets:
                if isinstance(t, ast.Attribute) and isinstance(t.value, ast.Name) and t.attr in ("new_state", "queue", "children", "values"):
                    fn = common.func_of_node(analysis, mod, node)
                    v = node.value
                    fresh = (isinstance(v, ast.Dict) and not v.keys) or (isinstance(v, ast.Call) and unparse(v.func) in ("dict", "deque", "collections.deque") and not v.args and not v.keywords)
                    n += 1
                    res.add("C07-R5", f"{fn} / self.{t.attr} is a fresh container per node", fresh, common.where(analysis, mod, node), unparse(v)[:60] if fresh else f"self.{t.attr} = {unparse(v)[:60]}: the container may be shared between nodes, so one node's sleep state or held traffic leaks to another")
    # the constructor and the pickle restore hook must both hand every node its own containers
    for fn in ("sensor:Sensor.__init__", "sensor:Sensor.__setstate__"):
        info = analysis.p.funcs.get(fn)
        if info is None:
            raise AnalysisError(f"anchor vanished: {fn}")
        bodies = [x for b in common.self_helper_bodies(analysis, info) for x in b.body]
        for attr in ("new_state", "queue"):
            ok = any(isinstance(st, ast.Assign) and any(unparse(t) == f"self.{attr}" for t in st.targets) and ((isinstance(st.value, ast.Dict) and not st.value.keys) or (isinstance(st.value, ast.Call) and unparse(st.value.func) in ("dict", "deque", "collections.deque") and not st.value.args)) for st in bodies)
            res.add("C07-R5", f"{fn} / gives the node its own `{attr}`", ok, common.where(analysis, info, info.node), f"self.{attr} = <fresh container>" if ok else f"{fn} does not assign a fresh `{attr}` container: nodes (e.g. all nodes restored from one pickle file) can share one sleep state / hold queue")
    if n < 3:
        raise AnalysisError(f"C07-R5: only {n} container initialisations found in sensor.py")


def run(analysis: Analysis, tier: str) -> RuleResult:
    res = RuleResult(PROP)
    res.explanation = [
        "Who-may-send rule over every outbound sink. R1: on every abstract path of Gateway.logic (all versions / families / flavours) and of the controller entry points every add_job / transport.send event is classified from the must-facts at that point (ROUTED, NOT-SLEEPING, FLUSH to the waking node, GATEWAY-ADDRESSED, INBOUND-DISPATCH, PUMP, RAW-API); every reply returned by logic is one that _route_message returned.",
        "R2: all paths of _route_message: a message is returned only if node unknown / awake / stream, else appended (encoded) to the queue of the same node the sleeping test read, returning None.",
        "R3: the hold queue is popped only in the flush, which is entered exactly from the wake-up announcement of each version for a known node. R4: no sink on the sleeping branch of set_child_value.",
        "Schedule-insensitive by construction: the rule holds per message, for any arrival order.",
    ]
    specs = specs_for(analysis, tier)
    sums = common.pmap(analysis, logic_worker, specs)
    res.contexts = ["/".join(s) for s in specs]
    seen_sites = {}
    total_sinks = 0
    for s in sums:
        for k, info in s["sinks"].items():
            site, kind, cls = k.split("|")
            total_sinks += info["n"]
            seen_sites.setdefault((site, kind), set()).add(cls)
        for b in s["bad"]:
            res.add("C07-R1", f"{b['site']} / {b['kind']} classified", False, f"{b['site']}:{b['line']}", b["detail"] or "unclassifiable sink", b["witness"], context=s["ctx"])
        ok = not s["ret_unrouted"]
        res.add("C07-R1", "__init__:Gateway.logic / every returned reply passed the router", ok, "mysensors/__init__.py", f"{s['replies']} replying paths" if ok else "a reply is returned for sending without passing _route_message", s["ret_unrouted"][0] if s["ret_unrouted"] else None, context=s["ctx"])
        # R3
        want = WAKE.get(s["version"])
        got = {(t, sub) for t, sub, _k in s["flush_entries"]}
        if want is not None:
            okw = {sub for _t, sub in got} == want and all(t == "internal" for t, _ in got)
            res.add("C07-R3", f"{s['version']}: the flush is reached exactly from {sorted(want) or 'nothing'}", okw, "mysensors/handler.py", f"flush entered from {sorted(got, key=str)}", context=s["ctx"])
        if want is not None and want:
            res.add("C07-R3", f"{s['version']}: every wake-up announcement of a known node reaches the flush (whatever its payload)", not s["wake_no_flush"], "mysensors/handler.py", "no announcement path skips handle_smartsleep" if not s["wake_no_flush"] else "a path handles the node's sleep announcement without entering the flush (e.g. returns early on a falsy payload such as heartbeat 0): the node is never flagged as sleeping and its traffic is not withheld", s["wake_no_flush"][0] if s["wake_no_flush"] else None, context=s["ctx"])
        unknown = [e for e in s["flush_entries"] if not e[2]]
        res.add("C07-R3", "handler:handle_smartsleep / entered only for a known node", not unknown, "mysensors/handler.py", "dominated by is_sensor(node)" if not unknown else f"flush can run for an unknown node ({unknown})", context=s["ctx"])
        badpops = [f for f in s["pops"] if f != FLUSH]
        res.add("C07-R3", "Sensor.queue is popped only by the flush", not badpops, "mysensors/handler.py", f"pop sites: {s['pops']}", context=s["ctx"])
    # controller entry points
    last = analysis.versions[-1]
    for s in common.pmap(analysis, set_child_value_worker, [(v, "serial", fl) for v in (analysis.versions[0], last) for fl in ("sync", "async")]):
        n_sleep = 0
        for r in s["rows"]:
            if r["sleeping"]:
                n_sleep += 1
                ok = r["own_sinks"] == 0
                res.add("C07-R4", "__init__:Gateway.set_child_value / no sink on the sleeping branch", ok, "mysensors/__init__.py", "desired value recorded, nothing enqueued" if ok else "a command is enqueued although the node is sleeping", r["witness"] if not ok else None, context=s["ctx"])
            elif r["own_sinks"]:
                ok = r["awake"] and r["sink_facts_awake"]
                total_sinks += r["own_sinks"]
                seen_sites.setdefault(("__init__:Gateway.set_child_value", "add_job"), set()).add("NOT-SLEEPING" if ok else "None")
                res.add("C07-R1", "__init__:Gateway.set_child_value / add_job classified", ok, "mysensors/__init__.py", "dominated by the false branch of is_smart_sleep_node of the destination" if ok else "command enqueued without the node being known awake", r["witness"] if not ok else None, context=s["ctx"])
        if n_sleep == 0:
            raise AnalysisError("C07-R4: no sleeping-branch path found in set_child_value")
    for s in common.pmap(analysis, check_connection_worker, [(last, "tcp", "sync"), (last, "tcp", "async")]):
        for r in s["rows"]:
            total_sinks += 1
            seen_sites.setdefault((r["site"], r["kind"]), set()).add(str(r["class"]))
            res.add("C07-R1", f"{r['site']} / {r['kind']} classified", r["class"] is not None, f"{r['site']}:{r['line']}", r["class"] or r["detail"], context=s["ctx"])
    # R2 router
    presentation_dropped(analysis, res, "C07-R2")
    # nothing is sent after stop(): the pump re-tests the stop event before every job and the event is one-shot
    from . import c14

    c14.pump_stops(analysis, res, "C07-R1")
    for s in common.pmap(analysis, router_worker, [(v, "serial", "sync") for v in analysis.versions]):
        if not s["held"]:
            res.add("C07-R2", "__init__:Gateway._route_message / traffic for a sleeping node is held", False, "mysensors/__init__.py", "no path of the router diverts a message into the node's queue", context=s["ctx"])
        for r in s["rows"]:
            res.add("C07-R2", f"__init__:Gateway._route_message / {r['what']}", r["ok"], "mysensors/__init__.py", r.get("why", ""), r["witness"] if not r["ok"] else None, context=s["ctx"])
        bad = [r for r in s["stream_rows"] if not r["ok"]]
        res.add("C07-R2", "__init__:Gateway._route_message / a stream (firmware) message always passes, also for a sleeping node", bool(s["stream_rows"]) and not bad, "mysensors/__init__.py", f"{len(s['stream_rows'])} path(s) return the message" if not bad else "a firmware response for a sleeping node is withheld or dropped: the node's config / block requests go unanswered until its next wake-up", bad[0]["witness"] if bad else None, context=s["ctx"])
    # syntactic sink enumeration: every site is either classified by its own shape (pump, dispatch,
    # raw API) or must have been reached and classified on the analysed paths
    sites = sink_sites(analysis)
    for site, kind, where, call in sites:
        sc = structural_class(analysis, site, kind, call)
        if sc:
            res.add("C07-R1", f"{site} / {kind} site is {sc}", True, where, "classified by the shape of the call")
            continue
        classes = seen_sites.get((site, kind))
        ok = bool(classes) and "None" not in classes and None not in classes
        res.add("C07-R1", f"{site} / {kind} site is covered by the sleeping-node discipline on every path", ok, where, f"classes seen: {sorted(map(str, classes))}" if classes else "an outbound sink that no analysed root reaches or classifies: it is not covered by the sleeping-node discipline")
    if len(sites) < 6:
        raise AnalysisError(f"C07-R1: only {len(sites)} sink sites found, expected at least 6")
    container_freshness(analysis, res)
    # R6: "once a node has announced smart sleep": the sleeping test reads the node's desired-state map, which
    # only the wake-up announcement fills; nothing may empty or replace it afterwards
    common.check_no_key_removal(analysis, res, "C07-R6")
    from .c11 import getstate_live_mutations

    lm = getstate_live_mutations(analysis)
    res.add("C07-R6", "sensor:Sensor.__getstate__ / a pickle save does not empty the live node's sleep state or hold queue", not lm, "mysensors/sensor.py", "only the copied instance dict is edited" if not lm else f"__getstate__ mutates objects shared with the live sensor ({lm[0]}): after every periodic save the node is no longer flagged as sleeping and its withheld replies are gone")
    # ... and a periodic save does not replace the live Sensor objects (a re-load inside the save would reset the
    # sleep state, hold queues and reboot flags of every node): the C12 save-path clause, shared
    from . import c12, persist

    sub = RuleResult(PROP)
    persist.check_dispatch_shape(analysis)
    for summ in common.pmap(analysis, c12.save_worker, [(e, (analysis.versions[-1], "serial", "sync")) for e in persist.EXTS]):
        c12.analyse_save_rows(sub, summ)
    for o in sub.obs:
        if "does not modify the live state" in o.construct:
            res.add("C07-R6", o.construct, o.ok, o.where, o.detail, o.witness)
    res.units = {"contexts": len(specs), "paths": sum(s["paths"] for s in sums), "sink_events_classified": total_sinks, "sink_sites": len(sites) + 1, "source_digest": analysis.p.digest()}
    res.not_decided = ["timing of the burst"]
    res.assumptions = ["INV-KEY-ID (C01-INV): sensors[k].sensor_id == k", "user code that calls Gateway.send() with hand-built strings is outside the rule (documented raw API)"]
    res.trusted = ["sa/extmodel.py", "sa/interp.py must-facts"]
    return res
