"""C16 - Sending races safely with connection loss and shutdown (discipline clauses).

Interleavings cannot be executed statically; decided is the discipline that makes every
interleaving safe:
R1 lockset: the shared fields Transport.protocol / <protocol>.transport have writers that hold
   no lock in common with the sender, hence they are racy.
R2 single-read (snapshot) discipline: in every function that tests and then dereferences a racy
   field from a thread other than the reader's (Transport.send, Transport.disconnect), each
   racy attribute is loaded at most once per path, also inside the error handler.
R3 drop-or-write-once: on every path of send there is at most one write; its OSError is
   caught; the handler closes and triggers the reconnect callback exactly once and does not
   retry the write; nothing escapes send.
R4 queue discipline: Tasks.queue is touched only by append and, in run_job, a truth test and
   popleft; run_job() without an argument has a single caller (the pump); SyncTransport.send
   serialises senders under its lock.
"""
from __future__ import annotations

import ast
from typing import List

from ..engine import Analysis, describe_path
from ..frontend import AnalysisError, unparse
from ..report import RuleResult
from ..values import Sym, V
from . import common

PROP = "C16"
RACY = ("protocol", "transport")


def writers(analysis: Analysis):
    """(function, attr, under_lock) for every store to self.protocol / self.transport in transport code."""
    out = []
    for modname in ("transport", "gateway_tcp", "gateway_serial"):
        mod = analysis.p.modules.get(modname)
        if mod is None:
            continue
        for info in analysis.p.funcs.values():
            if info.module is not mod or info.cls is None:
                continue
            for node in ast.walk(info.node):
                if isinstance(node, ast.Assign):
                    for t in node.targets:
                        if isinstance(t, ast.Attribute) and t.attr in RACY and isinstance(t.value, ast.Name) and t.value.id == "self":
                            locked = False
                            for w in ast.walk(info.node):
                                if isinstance(w, ast.With) and any("_lock" in unparse(i.context_expr) for i in w.items):
                                    if any(n is node for n in ast.walk(w)):
                                        locked = True
                            out.append((info.qual, t.attr, locked, common.where(analysis, info, node)))
    return out


def path_worker(analysis: Analysis, spec) -> dict:
    qual, flavour = spec
    ctx = analysis.context(analysis.versions[-1], "serial", flavour)
    it = analysis.new_interp(ctx)
    it.trace_loads = set(RACY)
    st, gw = analysis.gateway_state(it)
    tr = Sym(("root", "TR"), ("cls", ctx.transport))
    st.mem[(tr.key(), "a", "gateway")] = gw
    info = analysis.p.func(qual)
    args = [Sym(("root", "message"), "str", nullable=True)] if qual.endswith(".send") else []
    outs = analysis.run_root(it, qual, args, tr, st)
    rows = []
    for out in outs:
        kind, s, v = out
        loads = {"protocol": 0, "transport": 0}
        for e in s.events:
            if e.kind == "load":
                # loads in helpers called from the function count as well (the race window is the same)
                if e.name == "protocol" and isinstance(e.recv, V) and e.recv.key() == tr.key():
                    loads["protocol"] += 1
                elif e.name == "transport" and isinstance(e.recv, V) and "protocol" in repr(e.recv.key()):
                    loads["transport"] += 1
        writes = [i for i, e in enumerate(s.events) if e.kind == "call" and e.name == "exttransport.write"]
        closes = [i for i, e in enumerate(s.events) if e.kind == "call" and e.name == "exttransport.close"]
        reconnects = [i for i, e in enumerate(s.events) if e.kind == "call" and e.name == "?callable" and isinstance(e.recv, V) and "conn_lost_callback" in repr(e.recv.key())]
        caught = [i for i, e in enumerate(s.events) if e.kind == "catch" and e.func == qual]
        clears = [i for i, e in enumerate(s.events) if e.kind == "store" and e.name == "protocol"]
        # stores into the protocol object itself: its transport and its reconnect callback belong to the connection
        # hooks (reader thread) and the constructor
        proto_stores = sorted({e.name for e in s.events if e.kind == "store" and e.name in ("transport", "conn_lost_callback") and isinstance(e.recv, V) and "protocol" in repr(e.recv.key())})
        rows.append({"proto_stores": proto_stores, "kind": kind, "exc": f"{v.cls.__name__} at {v.site}: {v.what}" if kind == "raise" else None, "loads": loads, "writes": writes, "closes": closes, "reconnects": reconnects, "caught": caught, "clears": clears, "witness": describe_path(out, 20)})
    return {"qual": qual, "flavour": flavour, "rows": rows}


def queue_discipline(analysis: Analysis, res: RuleResult) -> None:
    mod = analysis.p.modules["task"]
    parents = {}
    for node in ast.walk(mod.tree):
        for ch in ast.iter_child_nodes(node):
            parents[ch] = node
    n = 0
    for node in ast.walk(mod.tree):
        if isinstance(node, ast.Attribute) and node.attr == "queue" and isinstance(node.value, ast.Name) and node.value.id == "self":
            par = parents.get(node)
            fn = common.func_of_node(analysis, mod, node)
            if isinstance(par, ast.Attribute) and isinstance(parents.get(par), ast.Call):
                kind = par.attr
            elif isinstance(par, (ast.If, ast.While)) or (isinstance(par, ast.UnaryOp) and isinstance(par.op, ast.Not)):
                kind = "truth-test"
            elif isinstance(par, ast.Assign):
                kind = "init" if fn.endswith(".__init__") else "reassigned"
            else:
                kind = f"other:{type(par).__name__}"
            n += 1
            ok = (kind == "append") or (kind in ("popleft", "truth-test") and fn in ("task:Tasks.run_job", "task:SyncTasks._poll_queue")) or kind == "init"
            if kind == "popleft":
                ok = fn == "task:Tasks.run_job"
            res.add("C16-R4", f"{fn} / Tasks.queue access `{kind}`", ok, common.where(analysis, mod, node), "thread-safe deque operations: append by any producer, popleft by the single consumer" if ok else "the job queue is accessed in a way that is not safe / not FIFO under concurrent producers")
    if n < 4:
        raise AnalysisError(f"C16-R4: only {n} accesses of Tasks.queue found")
    # who takes jobs from the queue: run_job pops only when its job argument is None; a helper that forwards an
    # optional parameter to it is a consumer exactly when it is itself called without that argument
    def none_callers(target: str, depth: int = 0) -> List[str]:
        """Functions that (transitively) call method `target` without a job / with a defaulted one."""
        found: List[str] = []
        for m in common.core_modules(analysis):
            for node in ast.walk(m.tree):
                if not (isinstance(node, ast.Call) and isinstance(node.func, ast.Attribute) and node.func.attr == target):
                    continue
                fn = common.func_of_node(analysis, m, node)
                arg = node.args[0] if node.args else next((k.value for k in node.keywords if k.arg == "job"), None)
                if arg is None:
                    found.append(fn)
                elif isinstance(arg, ast.Constant) and arg.value is None:
                    found.append(fn)
                elif isinstance(arg, ast.Name) and depth < 3:
                    info = analysis.p.funcs.get(fn)
                    if info is not None:
                        params = [a.arg for a in info.node.args.args]
                        defaults = dict(zip(params[len(params) - len(info.node.args.defaults):], info.node.args.defaults))
                        d = defaults.get(arg.id)
                        if arg.id in params and isinstance(d, ast.Constant) and d.value is None:
                            # forwards its own optional job: whoever calls it without one is the consumer
                            found.extend(none_callers(fn.rsplit(".", 1)[-1], depth + 1))
        return found

    callers = sorted(set(none_callers("run_job")))
    res.add("C16-R4", "run_job() without a job (the call that pops the queue) is reached from the pump only", callers == ["task:SyncTasks._poll_queue"], "mysensors/task.py", f"consumers {callers}")
    info = analysis.p.func("transport:SyncTransport.send")
    ok = False
    for w in ast.walk(info.node):
        if isinstance(w, ast.With) and any("_lock" in unparse(i.context_expr) for i in w.items):
            if any(isinstance(c, ast.Call) and "send" in unparse(c.func) for c in ast.walk(w)):
                ok = True
    res.add("C16-R4", "transport:SyncTransport.send / senders are serialised under the transport lock", ok, common.where(analysis, info, info.node), "with self._lock: super().send(message)")


def write_worker(analysis: Analysis, qual: str) -> dict:
    """A repo-defined transport `write`: what can it raise into Transport.send (which handles OSError only)?"""
    ctx = analysis.context(analysis.versions[-1], "tcp", "sync")
    it = analysis.new_interp(ctx)
    st, gw = analysis.gateway_state(it)
    cls = qual.rsplit(".", 1)[0]
    tr = Sym(("root", "TT"), ("cls", cls))
    rows = []
    args = [Sym(("root", "data"), "bytes")] if qual.endswith(".write") else []
    for out in analysis.run_root(it, qual, args, tr, st):
        kind, s, v = out
        if kind == "raise":
            rows.append({"exc": v.cls.__name__, "os": issubclass(v.cls, OSError), "what": v.what, "witness": describe_path(out, 12)})
    return {"qual": qual, "rows": rows}


def iter_worker(analysis: Analysis, spec) -> dict:
    """State-rooted containers that Gateway.logic (the pump thread) iterates, per abstract path."""
    from ..effects import render
    from .c01 import MODULAR

    ctx = analysis.context(*spec)
    it = analysis.new_interp(ctx)
    it.trace_iters = True
    it.inline_skip = set(MODULAR)
    st, gw = analysis.gateway_state(it)
    seen = {}
    for out in analysis.run_root(it, "__init__:Gateway.logic", [Sym(("root", "line"), "str")], gw, st):
        kind, s, v = out
        for e in s.events:
            if e.kind == "iter":
                base = e.recv.args[0] if hasattr(e.recv, "args") and getattr(e.recv, "cls", "").startswith("dict_") and e.recv.args else e.recv
                seen.setdefault(render(base.key()), (f"{e.func}:{e.line}", describe_path(out, 14)))
    return {"ctx": ctx.name, "iters": seen}


def controller_written(analysis: Analysis) -> set:
    """Containers the controller's thread can grow: what set_child_value stores into on its paths."""
    from ..effects import render
    from .c01 import MODULAR

    ctx = analysis.context(analysis.versions[-1], "serial", "sync")
    it = analysis.new_interp(ctx)
    it.inline_skip = set(MODULAR)
    st, gw = analysis.gateway_state(it)
    args = [Sym(("root", "a_node"), "int"), Sym(("root", "a_child"), "int"), Sym(("root", "a_vtype"), None), Sym(("root", "a_value"), None)]
    written = set()
    for kind, s, v in analysis.run_root(it, "__init__:Gateway.set_child_value", args, gw, st):
        for e in s.events:
            if e.kind in ("setitem", "update", "setdefault") and isinstance(e.recv, V) and e.recv.key()[0] != "dictv":
                written.add(render(e.recv.key()))
    return written


def send_discipline(analysis: Analysis, res: RuleResult):
    """R1-R3: writers of the shared connection fields, snapshot discipline and drop-or-write-once on every path
    of send / disconnect.  (Also run by C01 as a lemma: a re-read racy field is an AttributeError in the pump.)"""
    ws = writers(analysis)
    if len(ws) < 3:
        raise AnalysisError(f"C16-R1: only {len(ws)} writers of the shared connection fields found")
    unlocked = [w for w in ws if not w[2]]
    racy = bool(unlocked)
    res.add("C16-R1", "shared connection fields are written without the sender's lock (racy)", True, "mysensors/transport.py", f"{len(unlocked)} of {len(ws)} writers hold no lock: " + ", ".join(sorted({w[0] for w in unlocked}))[:200])
    reader_side = [w for w in ws if "connection_lost" in w[0] or "_connection_lost" in w[0]]
    res.add("C16-R1", "the reader thread clears <protocol>.transport on connection loss", bool(reader_side), "mysensors/transport.py", ", ".join(sorted({w[0] for w in reader_side})))
    jobs = [("transport:Transport.send", "sync"), ("transport:Transport.send", "async"), ("transport:Transport.disconnect", "sync")]
    for summ in common.pmap(analysis, path_worker, jobs):
        q = summ["qual"]
        rows = summ["rows"]
        if len(rows) < 3:
            raise AnalysisError(f"C16: only {len(rows)} paths through {q}")
        saw_write = saw_handler = False
        for r in rows:
            if r["kind"] == "raise":
                res.add("C16-R3", f"{q} / nothing escapes into the pump", False, "mysensors/transport.py", r["exc"], r["witness"], context=summ["flavour"])
                continue
            ps = r.get("proto_stores") or []
            res.add("C16-R2", f"{q} / does not write the protocol object's transport or reconnect callback", not ps, "mysensors/transport.py", "only the connection hooks and the constructor write them" if not ps else f"{q} stores into protocol.{ps[0]}: the reader thread's connection_lost (which reads protocol.transport and calls the callback) or a concurrent send's error handler then finds None - AttributeError / TypeError instead of the lost callback and the reconnect", r["witness"] if ps else None, context=summ["flavour"])
            if racy:
                for attr in RACY:
                    ok = r["loads"][attr] <= 1
                    res.add("C16-R2", f"{q} / `{attr}` is read at most once per path (snapshot)", ok, "mysensors/transport.py", "one load, later uses go through the local" if ok else f"{r['loads'][attr]} loads of the racy attribute `{attr}` on one path: the reader thread can clear it between the check and the use", r["witness"] if not ok else None, context=summ["flavour"])
            if q.endswith(".send"):
                ok_w = len(r["writes"]) <= 1
                res.add("C16-R3", f"{q} / at most one write per path", ok_w, "mysensors/transport.py", f"{len(r['writes'])} write(s)", r["witness"] if not ok_w else None, context=summ["flavour"])
                if r["writes"]:
                    saw_write = True
                if r["caught"]:
                    saw_handler = True
                    ok_h = len(r["closes"]) == 1 and len(r["reconnects"]) == 1 and len(r["writes"]) == 1 and r["closes"][0] > r["caught"][0] and r["reconnects"][0] > r["caught"][0]
                    if ok_h:
                        ok_o = r["closes"][0] < r["reconnects"][0]
                        res.add("C16-R3", f"{q} / the broken connection is closed before the reconnect is started", ok_o, "mysensors/transport.py", "transport.close() precedes conn_lost_callback()" if ok_o else "the reconnect is started before the old connection is closed: the old reader thread's connection_lost then clears the transport of the NEW connection, later writes are dropped and stop() never closes the link", r["witness"] if not ok_o else None, context=summ["flavour"])
                    res.add("C16-R3", f"{q} / a failed write closes and reconnects exactly once, without retry", ok_h, "mysensors/transport.py", f"closes {len(r['closes'])}, reconnects {len(r['reconnects'])}, writes {len(r['writes'])}", r["witness"] if not ok_h else None, context=summ["flavour"])
                else:
                    ok_n = not r["reconnects"]
                    res.add("C16-R3", f"{q} / no reconnect without a failed write", ok_n, "mysensors/transport.py", "", r["witness"] if not ok_n else None, context=summ["flavour"])
            else:
                ok_c = bool(r["clears"])
                res.add("C16-R3", f"{q} / clears the protocol on every path", ok_c, "mysensors/transport.py", "self.protocol = None", r["witness"] if not ok_c else None, context=summ["flavour"])
                ok_cl = len(r["closes"]) <= 1
                res.add("C16-R3", f"{q} / closes the connection at most once", ok_cl, "mysensors/transport.py", f"{len(r['closes'])} close(s)", context=summ["flavour"])
        if q.endswith(".send"):
            res.add("C16-R3", f"{q} / writes the command when a connection exists", saw_write, "mysensors/transport.py", "a path writes", context=summ["flavour"])
            res.add("C16-R3", f"{q} / a failing write is handled", saw_handler, "mysensors/transport.py", "OSError handler present", context=summ["flavour"])
    # transports implemented in the repo: their write() may only fail with OSError, the one class send() handles
    writes = sorted(q for q, f in analysis.p.funcs.items() if q.endswith(".write") and f.cls is not None and any("ReaderThread" in b or "Transport" in b for b in analysis.p.mro(f.cls.qual)))
    # ... and their close() must not raise at all: send's error handler calls it outside any try (A-CLOSE is an
    # assumption about pyserial / asyncio transports, not about code in this repository)
    closes_ = sorted(q for q, f in analysis.p.funcs.items() if q.endswith(".close") and f.cls is not None and any("ReaderThread" in b or "Transport" in b for b in analysis.p.mro(f.cls.qual)))
    for summ in common.pmap(analysis, write_worker, closes_) if closes_ else []:
        bad = summ["rows"]
        res.add("C16-R3", f"{summ['qual']} / does not raise (it is called from send's OSError handler)", not bad, "mysensors/gateway_tcp.py", "no escaping path" if not bad else f"{bad[0]['exc']} can be raised ({bad[0]['what']}): closing an already closed connection raises inside send's error handler and ends the pump", bad[0]["witness"] if bad else None)
    for summ in common.pmap(analysis, write_worker, writes) if writes else []:
        bad = [r for r in summ["rows"] if not r["os"]]
        res.add("C16-R3", f"{summ['qual']} / fails only with OSError (the class Transport.send handles)", not bad, "mysensors/gateway_tcp.py", "nothing but OSError can be raised" if not bad else f"{bad[0]['exc']} can be raised ({bad[0]['what']}): it is not an OSError, escapes Transport.send and ends the pump", bad[0]["witness"] if bad else None)
    # the pump thread must not iterate a dict the controller's thread can add keys to (set_child_value runs on
    # the caller's thread): "dictionary changed size during iteration" would end the pump
    written = controller_written(analysis)
    wrote_new_state = sorted(w for w in written if "?" not in w)
    if not wrote_new_state:
        raise AnalysisError("C16-R5: set_child_value stores into no long-lived container on any path")
    for summ in common.pmap(analysis, iter_worker, [(analysis.versions[-1], "serial", "sync"), (analysis.versions[2] if len(analysis.versions) > 2 else analysis.versions[-1], "serial", "sync")]):
        clash = sorted(set(summ["iters"]) & set(wrote_new_state))
        res.add("C16-R5", "the pump iterates no container that the controller's thread grows", not clash, "mysensors/handler.py", f"iterated: {sorted(summ['iters'])[:4]}; grown by set_child_value: {wrote_new_state}" if not clash else f"{summ['iters'][clash[0]][0]} iterates {clash[0]}, which set_child_value (on the caller's thread) adds keys to: RuntimeError 'dictionary changed size during iteration' ends the pump", summ["iters"][clash[0]][1] if clash else None, context=summ["ctx"])
    # re-entrancy: SyncTransport.send calls the reconnect callback while it holds the (non-reentrant) send lock,
    # so whatever the transport registers as that callback must not take the same lock
    for cq, cls in sorted(analysis.p.classes.items()):
        init = cls.methods.get("__init__")
        send = cls.methods.get("send")
        if init is None or send is None:
            continue
        locks = {unparse(i.context_expr) for w in ast.walk(send.node) if isinstance(w, ast.With) for i in w.items if "lock" in unparse(i.context_expr).lower()}
        if not locks:
            continue
        cbs = []
        for c in ast.walk(init.node):
            if isinstance(c, ast.Call) and len(c.args) >= 2 and isinstance(c.args[1], ast.Attribute) and isinstance(c.args[1].value, ast.Name) and c.args[1].value.id == "self" and "Protocol" in unparse(c.func):
                cbs.append(c.args[1].attr)
        for name in cbs:
            seen, todo, offender = set(), [name], None
            while todo and offender is None:
                m = analysis.p.find_method(cq, todo.pop())
                if not hasattr(m, "node") or m.qual in seen:
                    continue
                seen.add(m.qual)
                for n in ast.walk(m.node):
                    if isinstance(n, ast.With) and any(unparse(i.context_expr) in locks for i in n.items):
                        offender = (m.qual, n)
                    elif isinstance(n, ast.Call) and isinstance(n.func, ast.Attribute) and n.func.attr == "acquire" and unparse(n.func.value) in locks:
                        offender = (m.qual, n)
                    elif isinstance(n, ast.Call) and isinstance(n.func, ast.Attribute) and isinstance(n.func.value, ast.Name) and n.func.value.id == "self":
                        todo.append(n.func.attr)
            res.add("C16-R3", f"{cq}.{name} / the reconnect callback does not take the send lock (send calls it while holding {sorted(locks)})", offender is None, common.where(analysis, init, init.node), "no acquisition on the callback's synchronous path" if offender is None else f"{offender[0]} acquires {sorted(locks)}: a failed write calls the callback from inside send, which already holds the non-reentrant lock - the sender deadlocks on itself")
    return ws


def run(analysis: Analysis, tier: str) -> RuleResult:
    res = RuleResult(PROP)
    res.explanation = [
        "Discipline clauses that make every interleaving of a sender with connection loss / disconnect safe: R1 the fields Transport.protocol and <protocol>.transport are written without the sender's lock (racy); R2 on every abstract path of Transport.send and Transport.disconnect each racy attribute is loaded at most once (snapshot into locals), including inside the error handler; R3 at most one write per path, its OSError caught, exactly one close + reconnect, no retry, nothing escapes; R4 the job queue is append / popleft only with a single consumer and senders serialised.",
        "Real interleavings, partial socket writes and fairness are not decided.",
    ]
    ws = send_discipline(analysis, res)
    queue_discipline(analysis, res)
    from .c08 import queue_access

    queue_access(analysis, res, "C16-R4")
    res.units = {"functions": ["transport:Transport.send", "transport:Transport.disconnect", "transport:SyncTransport.send", "task:Tasks.run_job"], "writers_of_shared_fields": len(ws), "source_digest": analysis.p.digest()}
    res.not_decided = ["actual interleavings", "completeness of a write on a non-blocking socket", "fairness"]
    res.assumptions = ["A-CLOSE: close() of a transport object does not raise", "write() of a closed transport raises OSError (pyserial PortNotOpenError / socket error), which send handles"]
    res.trusted = ["sa/extmodel.py"]
    return res
