"""C18 - Documented configuration is accepted and honoured (option-threading clause).

R1 keyword threading: for each of the six gateway classes the cooperative __init__ chain is
   interpreted abstractly along the MRO with the documented options of the class (all together
   and one at a time): the constructor must not raise TypeError (accepted / not rejected) and
   each option must reach its destination unchanged (honoured): the transport's timeout /
   reconnect_timeout / prefixes / retain, the gateway's event callback / port / baud / server
   address, the persistence object and file name, the protocol version through the sanitiser.
R2 in-repo call sites: every constructor call of a gateway class in mysensors/cli, the example
   scripts and the README's python blocks passes only keywords the class accepts.
R3 version sanitising: safe_is_version is total with fallback "1.4"; every CONST_VERSIONS value
   names a module of the package; get_const has the floor-selection shape.
R4 version strings are never ordered by raw AwesomeVersion comparison outside the sanitiser (the
   library's ordering is inconsistent across section counts); table selection and the 2.0
   feature guard go through a helper that compares numeric sections.
The numeric outcome for every version string (e.g. that 2.3 selects 2.2) remains a value-level
statement and is not decided beyond these structural clauses.
"""
from __future__ import annotations

import ast
import os
import re
from typing import Dict, List

from ..engine import FAMILIES, Analysis, describe_path
from ..frontend import AnalysisError, unparse
from ..report import RuleResult
from ..values import Const, DictV, Obj, Sym, Unknown, V
from . import common

PROP = "C18"

COMMON_OPTS = ["event_callback", "persistence", "persistence_file", "protocol_version"]
CLASS_OPTS = {
    "gateway_serial:SerialGateway": (["port"], ["baud", "timeout", "reconnect_timeout"]),
    "gateway_serial:AsyncSerialGateway": (["port"], ["baud", "timeout", "reconnect_timeout"]),
    "gateway_tcp:TCPGateway": (["host"], ["port", "timeout", "reconnect_timeout"]),
    "gateway_tcp:AsyncTCPGateway": (["host"], ["port", "timeout", "reconnect_timeout"]),
    "gateway_mqtt:MQTTGateway": (["pub_callback", "sub_callback"], ["in_prefix", "out_prefix", "retain"]),
    "gateway_mqtt:AsyncMQTTGateway": (["pub_callback", "sub_callback"], ["in_prefix", "out_prefix", "retain"]),
}


def ctx_for(analysis: Analysis, cls: str):
    for fam, t in FAMILIES.items():
        if cls == t[0]:
            return analysis.context(analysis.versions[-1], fam, "sync")
        if cls == t[1]:
            return analysis.context(analysis.versions[-1], fam, "async")
    raise AnalysisError(f"C18: class {cls} is not a known gateway class")


def construct_worker(analysis: Analysis, spec) -> dict:
    cls, opts, label = spec
    if cls not in analysis.p.classes:
        raise AnalysisError(f"anchor vanished: class {cls}")
    ctx = ctx_for(analysis, cls)
    it = analysis.new_interp(ctx)
    st = it.new_state()
    required, _optional = CLASS_OPTS[cls]
    pos = [Sym(("root", "opt_" + r), "usercb" if "callback" in r else "str") for r in required]
    kwargs: Dict[str, V] = {}
    for o in opts:
        ty = {"event_callback": "usercb", "persistence_file": "str", "protocol_version": "str", "timeout": "float", "reconnect_timeout": "float", "baud": "int", "port": "int", "in_prefix": "str", "out_prefix": "str", "retain": "bool", "persistence": "bool"}.get(o)
        kwargs[o] = Sym(("root", "opt_" + o), ty)
    if "persistence" in kwargs:
        st.add_fact(("truthy", kwargs["persistence"].key()))
    # a frame of the chain that has a parameter named like a given option must receive the caller's value,
    # not fall back to its own default (a sibling class that forgot to forward the keyword)
    it.trace_defaults = set(opts)
    # the handler registry tables are looked up through the context version
    try:
        outs = it.instantiate(st, cls, pos, kwargs, analysis.p.classes[cls].node)
    except RecursionError as exc:
        raise AnalysisError(f"C18: recursion constructing {cls}") from exc
    analysis.interp_steps += it.steps
    rows = []
    for out in outs:
        kind, s, v = out
        if kind == "raise":
            rows.append({"kind": kind, "exc": v.cls.__name__, "what": v.what, "site": v.site, "witness": describe_path(out, 16)})
            continue
        gw = v
        found: Dict[str, str] = {}

        def lookup(obj, attr):
            return s.mem.get((obj.key(), "a", attr)) if obj is not None else None

        tasks = lookup(gw, "tasks")
        transport = lookup(tasks, "transport") if tasks is not None else None
        pers = lookup(tasks, "persistence") if tasks is not None else None
        dest = {
            "event_callback": lookup(gw, "event_callback"),
            "timeout": lookup(transport, "timeout"),
            "reconnect_timeout": lookup(transport, "reconnect_timeout"),
            "in_prefix": lookup(transport, "in_prefix"),
            "out_prefix": lookup(transport, "out_prefix"),
            "retain": lookup(transport, "_retain"),
            "pub_callback": lookup(transport, "_pub_callback"),
            "sub_callback": lookup(transport, "_sub_callback"),
            "baud": lookup(gw, "baud"),
            "persistence_file": lookup(pers, "persistence_file") if isinstance(pers, V) else None,
        }
        if "serial" in cls.lower():
            dest["port"] = lookup(gw, "port")
        else:
            sa = lookup(gw, "server_address")
            if sa is not None and hasattr(sa, "items") and len(sa.items) == 2:
                dest["host"], dest["port"] = sa.items
        honoured = {}
        for o in list(opts) + required:
            want = ("root", "opt_" + o)
            if o == "persistence":
                honoured[o] = isinstance(pers, Obj)
            elif o == "protocol_version":
                pv = lookup(gw, "protocol_version")
                # the sanitiser passes the value through or falls back to "1.4"
                honoured[o] = pv is not None and (pv.key() == want or (isinstance(pv, Const) and pv.value == "1.4"))
                honoured["protocol_version (passed through)"] = None if not (pv is not None and pv.key() == want) else True
            else:
                d = dest.get(o)
                honoured[o] = d is not None and d.key() == want
        shadowed = sorted({e.name for e in s.events if e.kind == "default"})
        rows.append({"kind": kind, "honoured": honoured, "shadowed": shadowed, "witness": describe_path(out, 16)})
    return {"cls": cls, "label": label, "opts": list(opts), "rows": rows}


def starts_with_attr(v, owner_key, attr: str) -> bool:
    """Is the string value `owner.attr` followed by something (a + concatenation or an f-string)?"""
    want = ("attr", owner_key, attr)
    parts = getattr(v, "parts", None)
    if parts:
        return isinstance(parts[0], V) and parts[0].key() == want
    k = v.key() if isinstance(v, V) else None
    if isinstance(k, tuple) and len(k) > 1 and isinstance(k[1], str):
        return k[1].startswith(f"binop:Add:{want!r}:")
    return False


def downstream_worker(analysis: Analysis, flavour: str) -> dict:
    """Publish / subscribe callback events of the MQTT transport: which topic and retain flag they carry."""
    ctx = analysis.context(analysis.versions[-1], "mqtt", flavour)
    out = {"pub": 0, "pub_bad_prefix": [], "pub_bad_retain": [], "sub": 0, "sub_bad_prefix": []}
    for qual, arg in (("gateway_mqtt:MQTTTransport.send", Sym(("root", "message"), "str")), ("gateway_mqtt:MQTTTransport.handle_subscription", Sym(("root", "topic"), "str"))):
        it = analysis.new_interp(ctx)
        st, gw = analysis.gateway_state(it)
        tr = Sym(("root", "TR"), ("cls", ctx.transport))
        st.mem[(tr.key(), "a", "gateway")] = gw
        if qual.endswith("handle_subscription"):
            arg.minsep = {"/": 5}
        for kind, s, v in analysis.run_root(it, qual, [arg], tr, st):
            for e in s.events:
                if e.kind != "cb" or not e.args:
                    continue
                if qual.endswith(".send"):
                    out["pub"] += 1
                    if not starts_with_attr(e.args[0], tr.key(), "out_prefix"):
                        out["pub_bad_prefix"].append(repr(e.args[0].key())[:120])
                    ret = e.args[3] if len(e.args) > 3 else e.kwargs.get("retain")
                    if not (isinstance(ret, V) and ret.key() == ("attr", tr.key(), "_retain")):
                        out["pub_bad_retain"].append(repr(ret.key())[:80] if isinstance(ret, V) else "missing")
                else:
                    out["sub"] += 1
                    if not starts_with_attr(e.args[0], tr.key(), "in_prefix"):
                        out["sub_bad_prefix"].append(repr(e.args[0].key())[:120])
    return out


def _sections_compare_ok(analysis: Analysis, helper) -> bool:
    """version_at_least returns `sections(version)[:n] >= sections(minimum)[:n]` with n = max of both section
    counts: the two sides are the same sequence builder (a comprehension over range(n) of `.section(i)`, directly
    or through one module-level helper) applied to the parsed first and second parameter."""
    fn = helper.node
    params = [a.arg for a in fn.args.args]
    if len(params) < 2:
        return False
    env = {}
    for n in ast.walk(fn):
        if isinstance(n, ast.Assign) and len(n.targets) == 1 and isinstance(n.targets[0], ast.Name):
            env[n.targets[0].id] = n.value

    def parsed_from(name: str):
        """Which parameter does the local `name` hold, parsed as AwesomeVersion?"""
        v = env.get(name)
        if isinstance(v, ast.Call) and unparse(v.func) == "AwesomeVersion" and len(v.args) == 1 and isinstance(v.args[0], ast.Name):
            src = v.args[0].id
            return src if src in params else parsed_from(src) if src != name else None
        return None

    def builder(expr, depth=0):
        """-> (subject name, count expression text) of a section-sequence builder."""
        if isinstance(expr, ast.Name) and expr.id in env and depth < 3 and expr.id not in params:
            return builder(env[expr.id], depth + 1)
        comp = None
        if isinstance(expr, (ast.ListComp, ast.GeneratorExp)):
            comp = expr
        elif isinstance(expr, ast.Call) and isinstance(expr.func, ast.Name) and expr.func.id in ("tuple", "list") and len(expr.args) == 1 and isinstance(expr.args[0], (ast.ListComp, ast.GeneratorExp)):
            comp = expr.args[0]
        if comp is not None and len(comp.generators) == 1 and not comp.generators[0].ifs:
            g = comp.generators[0]
            e = comp.elt
            if isinstance(g.iter, ast.Call) and unparse(g.iter.func) == "range" and len(g.iter.args) == 1 and isinstance(g.target, ast.Name) and isinstance(e, ast.Call) and isinstance(e.func, ast.Attribute) and e.func.attr == "section" and isinstance(e.func.value, ast.Name) and len(e.args) == 1 and unparse(e.args[0]) == g.target.id:
                return e.func.value.id, unparse(g.iter.args[0])
            return None
        if isinstance(expr, ast.Call) and isinstance(expr.func, ast.Name) and depth < 2:
            callee = analysis.p.funcs.get(f"{helper.module.label}:{expr.func.id}")
            if callee is not None and not expr.keywords:
                rets = [r for r in ast.walk(callee.node) if isinstance(r, ast.Return)]
                cps = [a.arg for a in callee.node.args.args]
                if len(rets) == 1 and len(cps) == len(expr.args) and all(isinstance(a, ast.Name) for a in expr.args):
                    inner = builder(rets[0].value, depth + 1)
                    if inner is not None:
                        m = {cp: a.id for cp, a in zip(cps, expr.args)}
                        return m.get(inner[0], inner[0]), m.get(inner[1], inner[1])
        return None

    for n in ast.walk(fn):
        if isinstance(n, ast.Return) and isinstance(n.value, ast.Compare) and len(n.value.ops) == 1 and isinstance(n.value.ops[0], ast.GtE):
            lb, rb = builder(n.value.left), builder(n.value.comparators[0])
            if not lb or not rb or lb[1] != rb[1]:
                return False
            if parsed_from(lb[0]) != params[0] or parsed_from(rb[0]) != params[1]:
                return False
            cnt = env.get(lb[1])
            if not (isinstance(cnt, ast.Call) and unparse(cnt.func) == "max" and len(cnt.args) == 2):
                return False
            return {unparse(a) for a in cnt.args} == {f"{lb[0]}.sections", f"{rb[0]}.sections"}
    return False


def callsite_keywords(analysis: Analysis) -> List[dict]:
    root = analysis.p.root
    sources = []
    for rel in ("main.py", "async_main.py", "mqtt.py"):
        path = os.path.join(root, rel)
        if os.path.exists(path):
            sources.append((rel, open(path, encoding="utf-8").read()))
    readme = os.path.join(root, "README.md")
    if os.path.exists(readme):
        text = open(readme, encoding="utf-8").read()
        for i, block in enumerate(re.findall(r"```(?:py|python)\n(.*?)```", text, flags=re.S)):
            sources.append((f"README.md#block{i + 1}", block))
    for name, mod in analysis.p.modules.items():
        if name.startswith("cli"):
            sources.append((analysis.p.relpath(mod), mod.source))
    out = []
    names = {c.split(":")[1]: c for c in CLASS_OPTS}
    for where, src in sources:
        try:
            tree = ast.parse(src)
        except SyntaxError:
            continue
        for n in ast.walk(tree):
            if isinstance(n, ast.Call):
                f = n.func
                cname = f.attr if isinstance(f, ast.Attribute) else (f.id if isinstance(f, ast.Name) else None)
                if cname in names:
                    out.append({"where": f"{where}:{n.lineno}", "cls": names[cname], "kw": [k.arg for k in n.keywords if k.arg], "star": any(k.arg is None for k in n.keywords), "npos": len(n.args), "text": " ".join(unparse(n).split())[:90]})
    return out


def accepted_names(analysis: Analysis, cls: str) -> set:
    names = set()
    for c in analysis.p.mro(cls):
        if c.startswith("ext:"):
            continue
        init = analysis.p.classes[c].methods.get("__init__")
        if init is None:
            continue
        a = init.node.args
        names |= {x.arg for x in a.args[1:] + a.kwonlyargs}
    return names


def version_rules(analysis: Analysis, res: RuleResult) -> None:
    mod = analysis.p.modules["const"]
    cv = mod.assigns.get("CONST_VERSIONS")
    try:
        table = ast.literal_eval(cv)
    except (ValueError, TypeError):
        raise AnalysisError("C18-R3: CONST_VERSIONS is not a literal dict")
    for ver, dotted in table.items():
        ok = analysis.p.module_of_dotted(dotted) is not None
        res.add("C18-R3", f"CONST_VERSIONS[{ver!r}] names a module of the package", ok, "mysensors/const.py", dotted)
    res.add("C18-R3", "the five protocol versions have tables", sorted(table) == ["1.4", "1.5", "2.0", "2.1", "2.2"], "mysensors/const.py", f"{sorted(table)}")
    info = analysis.p.func("const:get_const")
    txt = unparse(info.node)
    # the selector may delegate to private helpers of the module and name its fallback in a constant
    for q, f in analysis.p.funcs.items():
        if f.module is info.module and f is not info and f.name.startswith("_") and common.owned_by(analysis, q, {"const:get_const"}):
            txt += "\n" + unparse(f.node)
    for nm, expr in info.module.assigns.items():
        if isinstance(expr, ast.Constant) and isinstance(expr.value, str) and nm in txt:
            txt += f"\n{nm} = {expr.value!r}"
    import re as _re

    shape = "sorted(CONST_VERSIONS, reverse=True)" in txt and bool(_re.search(r"version_at_least\(protocol_version, \w+\)|AwesomeVersion\(protocol_version\) >= AwesomeVersion\(\w+\)", txt)) and "'mysensors.const_14'" in txt
    res.add("C18-R3", "const:get_const / selects the highest table version not above the requested one, default 1.4", shape, common.where(analysis, info, info.node), "next(CONST_VERSIONS[v] for v in sorted(..., reverse=True) if requested >= v, 'mysensors.const_14')")
    # R4: version strings with different section counts must not be ordered by raw AwesomeVersion comparison
    n_cmp = 0
    for mod in common.core_modules(analysis):
        for n in ast.walk(mod.tree):
            if isinstance(n, ast.Compare) and len(n.ops) == 1 and isinstance(n.ops[0], (ast.Lt, ast.LtE, ast.Gt, ast.GtE)):
                l, r = unparse(n.left), unparse(n.comparators[0])
                if l.startswith("AwesomeVersion(") and r.startswith("AwesomeVersion("):
                    fn = common.func_of_node(analysis, mod, n)
                    n_cmp += 1
                    ok = fn == "validation:is_version"
                    res.add("C18-R4", f"{fn} / no raw AwesomeVersion ordering between a configured / presented version and a table version", ok, common.where(analysis, mod, n), "sanitiser only (lower bound 1.4, inside try)" if ok else f"`{unparse(n)}`: AwesomeVersion does not order versions with different section counts consistently ('2.0.0' >= '2.0' is False), so '2.0.0' selects the tables of an older protocol")
    helper = analysis.p.funcs.get("const:version_at_least")
    if helper is not None:
        okh = _sections_compare_ok(analysis, helper)
        res.add("C18-R4", "const:version_at_least / compares the numeric sections, missing sections as zero", okh, common.where(analysis, helper, helper.node), "[v.section(i) for i in range(n)] >= [m.section(i) for i in range(n)]")
        users = set()
        for mod in common.core_modules(analysis):
            for c in ast.walk(mod.tree):
                if isinstance(c, ast.Call) and unparse(c.func) == "version_at_least":
                    users.add(common.func_of_node(analysis, mod, c))
        covered = all(any(common.owned_by(analysis, u, {owner}) for u in users) for owner in ("const:get_const", "__init__:Gateway.is_sensor"))
        res.add("C18-R4", "table selection and the 2.0 feature guard use the numeric comparison", covered, "mysensors/const.py", f"used by {sorted(users)}")
    else:
        res.add("C18-R4", "a numeric version comparison helper exists", n_cmp == 1, "mysensors/const.py", "no helper and raw comparisons outside the sanitiser" if n_cmp != 1 else "")
    g = analysis.p.func("__init__:Gateway.__init__")
    gt = unparse(g.node)
    res.add("C18-R3", "__init__:Gateway.__init__ / the protocol version passes the sanitiser before it selects the tables", "protocol_version = safe_is_version(protocol_version)" in gt and "get_const(protocol_version)" in gt, common.where(analysis, g, g.node), "")
    # evaluated, not read off the text: every path of the setter (an @setter method or a factory-built property)
    # calls the sanitiser on the presented value before it stores, and never stores the raw value
    ctx = analysis.context(analysis.versions[-1], "serial", "sync")
    it = analysis.new_interp(ctx)
    node_obj = Sym(("root", "S"), ("cls", "sensor:Sensor"))
    raw = Sym(("root", "value"), None, nullable=True)
    sq, snode, souts = common.setter_outs(analysis, it, it.new_state(), "sensor:Sensor", "protocol_version", node_obj, raw)
    bad = None
    n_paths = 0
    for out in souts:
        kind, s0, v0 = out
        if kind != "val":
            bad = bad or f"the setter raises {v0.cls.__name__}"
            continue
        n_paths += 1
        stores = [i for i, e in enumerate(s0.events) if e.kind == "store" and isinstance(e.recv, V) and e.recv.key() == node_obj.key()]
        san = [i for i, e in enumerate(s0.events) if e.kind in ("enter", "opaque") and e.name == "validation:safe_is_version" and e.args and isinstance(e.args[0], V) and e.args[0].key() == raw.key()]
        if not stores or not san or min(san) > min(stores):
            bad = bad or "a path stores the presented version without calling safe_is_version on it first"
        elif any(isinstance(s0.events[i].args[0], V) and s0.events[i].args[0].key() == raw.key() for i in stores):
            bad = bad or "the raw presented value is stored"
        elif any(e.kind == "catch" for e in s0.events):
            # the fallback path of the sanitiser: an invalid or older string becomes "1.4" (not whatever the node had)
            last = s0.events[stores[-1]].args[0]
            if not (isinstance(last, Const) and last.value == "1.4"):
                bad = bad or f"an invalid or older presented version does not fall back to \"1.4\" (stored: {repr(last.key())[:60]}): the node keeps the tables of its previous version"
    res.add("C18-R3", "sensor:Sensor.protocol_version / a node's presented version passes the same sanitiser", bad is None and n_paths > 0, "mysensors/sensor.py", f"{sq}: {n_paths} path(s), each stores the result of safe_is_version(value)" if bad is None else bad)


def selector_worker(analysis: Analysis, _spec) -> dict:
    """Dataflow through get_const: where does the module path that is imported / looked up come from?"""
    ctx = analysis.context(analysis.versions[-1], "serial", "sync")
    it = analysis.new_interp(ctx)
    it.opaque_handlers.pop("const:get_const", None)
    it.opaque_handlers["const:version_at_least"] = lambda _it, st, info, args, kwargs, node: [("val", st, Unknown("bool", label="version_at_least(protocol_version, table)"))]
    st = it.new_state()
    pv = Sym(("root", "protocol_version"), "str")
    outs = analysis.run_root(it, "const:get_const", [pv], None, st)
    rows = []
    for out in outs:
        kind, s, v = out
        if kind != "val":
            rows.append({"kind": kind, "exc": f"{v.cls.__name__}: {v.what}", "witness": describe_path(out)})
            continue
        # the path value: argument of import_module, or the key of the module-cache lookup that is returned
        texts = []
        for e in s.events:
            if e.kind == "call" and e.name == "importlib.import_module" and e.args:
                texts.append(repr(e.args[0].key()))
        lab = getattr(v, "label", "") if isinstance(v, V) else ""
        if lab.startswith("item:") and "[" in lab:
            texts.append(lab[lab.index("[") :])
        elif isinstance(v, V) and isinstance(v.key(), tuple) and v.key() and v.key()[0] == "item":
            texts.append(repr(v.key()[2]))
        prov = []
        for txt in texts:
            core = txt.lstrip("[(")
            if "next:" in txt or "CONST_VERSIONS" in txt or core.startswith("'u', 'item:(\\'c\\', \\'dict\\'") or core.startswith("'u', \"item:('c', 'dict'"):
                prov.append(("floor-search", txt[:100]))
            elif "'get'" in txt or "get:" in txt:
                derived = any(tok in txt for tok in ("slice:", "str(", "binop:", "fstr:", "split", "strip(", "lower("))
                prov.append(("cache-by-derived-key" if derived else "cache-by-parameter", txt[:140]))
            elif txt.startswith("('c'") or txt.startswith("[('c'"):
                prov.append(("constant", txt[:80]))
            else:
                prov.append(("other", txt[:140]))
        rows.append({"kind": kind, "prov": prov, "witness": describe_path(out)})
    return {"rows": rows}


def run(analysis: Analysis, tier: str) -> RuleResult:
    res = RuleResult(PROP)
    res.explanation = [
        "R1: abstract interpretation of the whole cooperative constructor chain of each of the six gateway classes, with all documented options at once and with each option alone: no TypeError (accepted, not rejected by a frame without the name or **kwargs) and every option value arrives unchanged at its destination attribute (honoured);",
        "R2: keyword names at every in-repo constructor call site (cli, example scripts, README python blocks) are accepted by the class; R3 shape of the version tables / selector / sanitiser call sites.",
        "Because each frame treats keyword names independently, 'all together' + 'each alone' covers every subset. The version-floor semantics (AwesomeVersion ordering) is not decided.",
    ]
    jobs = []
    for cls, (req, opt) in CLASS_OPTS.items():
        allopts = COMMON_OPTS + opt
        jobs.append((cls, tuple(allopts), "all options"))
        jobs.append((cls, (), "no options"))
        for o in allopts:
            jobs.append((cls, (o,) if o != "persistence_file" else ("persistence", "persistence_file"), f"only {o}"))
    n = 0
    for summ in common.pmap(analysis, construct_worker, jobs):
        cls, label = summ["cls"], summ["label"]
        good = [r for r in summ["rows"] if r["kind"] == "val"]
        for r in summ["rows"]:
            if r["kind"] == "raise":
                n += 1
                res.add("C18-R1", f"{cls} / constructor accepts {label}", False, r["site"], f"{r['exc']}: {r['what']}", r["witness"])
        if good:
            n += 1
            res.add("C18-R1", f"{cls} / constructor accepts {label}", True, "", f"{len(good)} constructor path(s) complete")
            if any("protocol_version (passed through)" in r["honoured"] for r in good):
                passed = any(r["honoured"].get("protocol_version (passed through)") for r in good)
                res.add("C18-R1", f"{cls} / a usable protocol_version is stored as given ({label})", passed, "", "some constructor path stores the caller's version string")
            for r in good:
                for sh in r["shadowed"]:
                    fn, _, o = sh.rpartition(":")
                    res.add("C18-R1", f"{cls} / option {o} reaches every constructor frame that has a parameter of that name", False, "", f"{fn} has its own `{o}` parameter, which falls back to its default although the caller passed {o}: what that frame configures ignores the option", r["witness"])
                r["honoured"].pop("protocol_version (passed through)", None)
                for o, ok in r["honoured"].items():
                    res.add("C18-R1", f"{cls} / option {o} takes effect ({label})", ok, "", "value reaches its destination attribute unchanged" if ok else f"option {o} is accepted but its value does not reach the place it configures (dead parameter)", r["witness"] if not ok else None)
        elif not summ["rows"]:
            raise AnalysisError(f"C18-R1: no constructor path for {cls}")
    if n < 50:
        raise AnalysisError(f"C18-R1: only {n} constructor runs")
    sites = callsite_keywords(analysis)
    if len(sites) < 8:
        raise AnalysisError(f"C18-R2: only {len(sites)} in-repo constructor call sites found")
    for s in sites:
        acc = accepted_names(analysis, s["cls"])
        bad = [k for k in s["kw"] if k not in acc]
        res.add("C18-R2", f"{s['where'].rsplit(':', 1)[0]} / {s['text'][:70]}", not bad, s["where"], "keywords accepted" if not bad else f"keywords {bad} are not accepted by {s['cls']}")
    version_rules(analysis, res)
    from .c03 import is_version_floor

    is_version_floor(analysis, res, "C18-R3")
    # a version string selects THAT version's tables: every module's tables equal the reviewed reference of its own
    # version (a later module updating an imported table in place changes an older one) - C03-R1..R3 as a lemma
    from . import c03

    class _L:
        extra = res.extra

        @staticmethod
        def add(rule, *a, **kw):
            res.add("C18-L:" + rule, *a, **kw)

    c03.conformance(analysis, _L)
    # `persistence` takes effect for every accepted combination of the other options - with or without an event
    # callback every handled change marks the state unsaved, and stop() saves (C14-R1 / R2 as a lemma)
    from . import c14

    c14.alert_and_stop(analysis, res, "C18-L:C14-R1", "C18-L:C14-R2")
    # reconnect_timeout takes effect: it is the wait between connect attempts in all four connect loops (C20-R2)
    from . import c20

    for summ in common.pmap(analysis, c20.connect_worker, c20.CONNECTS):
        bad = [r for r in summ["rows"] if "sleep?" in r["seq"]]
        res.add("C18-R1", f"{summ['qual']} / reconnect_timeout is what the connect loop waits between attempts", not bad, "mysensors", "sleep(transport.reconnect_timeout)" if not bad else "a failed attempt waits something other than transport.reconnect_timeout: the option is stored but does not take effect", bad[0]["witness"] if bad else None)
    for summ in common.pmap(analysis, selector_worker, ["x"]):
        seen = False
        for r in summ["rows"]:
            if r["kind"] != "val":
                continue
            for kind_, txt in r["prov"]:
                seen = True
                ok = kind_ in ("floor-search", "constant", "cache-by-parameter")
                res.add("C18-R3", f"const:get_const / the table module is the one the floor search selects for this very version string ({kind_})", ok, "mysensors/const.py", txt if ok else f"the module path comes from {kind_} {txt}: two different version strings can share a table decided by whichever was resolved first", r["witness"] if not ok else None)
        if not seen:
            raise AnalysisError("C18-R3: no path of get_const imports / looks up a table module")
    # options that act through the topic mapping: honoured downstream (shared with C17-R2 / R4)
    from . import c17

    before = len(res.obs)
    c17.to_msg_ast(analysis, res)
    for summ in common.pmap(analysis, c17.to_msg_worker, ["x"]):
        acc = [r for r in summ["rows"] if r["kind"] == "val" and not r["none"]]
        for r in acc:
            res.add("C18-R1", "in_prefix is honoured: a topic is accepted only when its prefix equals the configured inbound prefix", r["prefix_equal"], "mysensors/gateway_mqtt.py", "prefix == transport.in_prefix on the accepting path", r["witness"] if not r["prefix_equal"] else None)
    for o in res.obs[before:]:
        if o.rule.startswith("C17"):
            o.rule = "C18-R1"
            o.construct = "in_prefix honoured / " + o.construct
    res.reindex()
    send = analysis.p.func("gateway_mqtt:MQTTTransport.send")
    sub = analysis.p.func("gateway_mqtt:MQTTTransport.handle_subscription")
    for row in common.pmap(analysis, downstream_worker, ["sync"]):
        res.add("C18-R1", "out_prefix is honoured: published topics are out_prefix + topic", row["pub"] > 0 and not row["pub_bad_prefix"], common.where(analysis, send, send.node), f"{row['pub']} publish event(s), topic = transport.out_prefix + mapped topic" if not row["pub_bad_prefix"] else f"published topic {row['pub_bad_prefix'][0]} does not start with the configured out_prefix")
        res.add("C18-R1", "retain is honoured: the flag is passed to the publish callback", row["pub"] > 0 and not row["pub_bad_retain"], common.where(analysis, send, send.node), "pub_callback(topic, payload, qos, transport._retain)" if not row["pub_bad_retain"] else f"retain argument is {row['pub_bad_retain'][0]}")
        res.add("C18-R1", "in_prefix is honoured: subscriptions are in_prefix + template", row["sub"] > 0 and not row["sub_bad_prefix"], common.where(analysis, sub, sub.node), f"{row['sub']} subscribe event(s), topic = transport.in_prefix + template" if not row["sub_bad_prefix"] else f"subscribed topic {row['sub_bad_prefix'][0]} does not start with the configured in_prefix")
    res.units = {"classes": list(CLASS_OPTS), "constructor_runs": n, "call_sites": len(sites), "source_digest": analysis.p.digest()}
    res.not_decided = ["the version-floor rule for three-part / unknown versions (AwesomeVersion ordering)", "intent of positional arguments in the README's first example"]
    res.trusted = ["sa/interp.py argument binding", "sa/extmodel.py"]
    return res
