"""C20 - Connections are supervised and the callbacks are exact (sibling-agreement clauses).

R1 lost-hook agreement: for every protocol class, connection_lost (resolved through the MRO)
   calls gateway.on_conn_lost(gateway, exc) exactly once under an `is not None` guard, calls
   the reconnect callback exactly once iff exc is truthy, and clears self.transport, on every
   path; connection_made calls on_conn_made exactly once.
R2 reconnect loops agree: in each of the four *_connect functions a failed attempt (every
   modelled failure class) sleeps transport.reconnect_timeout and tries again; success leaves
   the loop; no failure escapes; the threaded loops re-test transport.protocol each iteration;
   the asyncio loops are left only by success or cancellation.
R3 stop order: both stop() methods disconnect before stopping the pump / the final save;
   disconnect clears `protocol`; send tests it first.
R4 the OSError handler of send triggers exactly one reconnect (C16-R3).
R5 structure of the TCP watchdog: the drop condition compares last-answer time + 2 x
   reconnect_timeout with now, the probe condition last-probe time + reconnect_timeout; an answer
   restarts the disconnect timer, a new connection restarts both; the watchdog's OSError ends
   the connection in both flavours. (The timing guarantee itself is not decided.)
"""
from __future__ import annotations

import ast

from ..engine import Analysis, describe_path
from ..frontend import AnalysisError, FuncInfo, unparse
from ..report import RuleResult
from ..values import Const, ExcV, FutureV, Sym, Unknown, V
from . import common

PROP = "C20"
CONNECTS = [("gateway_serial:sync_connect", "serial", "sync"), ("gateway_serial:async_connect", "serial", "async"), ("gateway_tcp:sync_connect", "tcp", "sync"), ("gateway_tcp:async_connect", "tcp", "async")]


def protocol_classes(analysis: Analysis):
    base = "transport:BaseMySensorsProtocol"
    if base not in analysis.p.classes:
        raise AnalysisError("anchor vanished: transport:BaseMySensorsProtocol")
    return sorted(analysis.p.subclasses(base))


def hook_worker(analysis: Analysis, spec) -> dict:
    cls, hook, exc_kind = spec
    fam = "tcp" if "tcp" in cls.lower() else "serial"
    flavour = "async" if "Async" in cls else "sync"
    ctx = analysis.context(analysis.versions[-1], fam, flavour)
    it = analysis.new_interp(ctx)
    st, gw = analysis.gateway_state(it)
    pr = Sym(("root", "PR"), ("cls", cls))
    st.mem[(pr.key(), "a", "gateway")] = gw
    m = analysis.p.find_method(cls, hook)
    if not isinstance(m, FuncInfo):
        raise AnalysisError(f"C20: {cls}.{hook} does not resolve to a repo method")
    if hook == "connection_lost":
        if exc_kind == "none":
            arg = Const(None)
        else:
            arg = Sym(("root", "exc"), "exception")
            st.add_fact(("truthy", arg.key()), ("notnone", arg.key()))
        args = [arg]
        # pyserial / asyncio call connection_lost only after connection_made: the transport is set on entry
        st.add_fact(("notnone", ("attr", pr.key(), "transport")), ("truthy", ("attr", pr.key(), "transport")))
    else:
        args = [Sym(("root", "conn"), "exttransport")]
    outs = analysis.run_root(it, m.qual, args, pr, st)
    cbname = "on_conn_lost" if hook == "connection_lost" else "on_conn_made"
    cbkey = ("attr", gw.key(), cbname)
    rows = []
    for out in outs:
        kind, s, v = out
        cbs = [e for e in s.events if e.kind == "cb" and isinstance(e.recv, V) and e.recv.key() == cbkey]
        other_cbs = [e for e in s.events if e.kind == "cb" and e not in cbs]
        cb_args_ok = all(len(e.args) >= 1 and e.args[0].key() == gw.key() and (hook != "connection_lost" or (len(e.args) == 2 and e.args[1].key() == args[0].key())) for e in cbs)
        recon = [e for e in s.events if e.kind == "call" and e.name == "?callable" and isinstance(e.recv, V) and "conn_lost_callback" in repr(e.recv.key())]
        cleared = any(e.kind == "store" and e.name == "transport" and isinstance(e.args[0], Const) and e.args[0].value is None and isinstance(e.recv, V) and e.recv.key() == pr.key() for e in s.events)
        cb_set = ("notnone", cbkey) in s.facts or ("truthy", cbkey) in s.facts
        cb_unset = ("isnone", cbkey) in s.facts
        from_cb = kind == "raise" and v.what.startswith("user callback")
        rows.append({"kind": kind, "exc": f"{v.cls.__name__}: {v.what}" if kind == "raise" else None, "from_cb": from_cb, "ncb": len(cbs), "other_cbs": len(other_cbs), "cb_args_ok": cb_args_ok, "recon": len(recon), "cleared": cleared, "cb_set": cb_set, "cb_unset": cb_unset, "witness": describe_path(out, 18)})
    return {"cls": cls, "qual": m.qual, "hook": hook, "exc": exc_kind, "rows": rows}


def connect_worker(analysis: Analysis, spec) -> dict:
    qual, fam, flavour = spec
    ctx = analysis.context(analysis.versions[-1], fam, flavour)
    it = analysis.new_interp(ctx)
    st, gw = analysis.gateway_state(it)
    tr = Sym(("root", "TR"), ("cls", ctx.transport))
    st.mem[(tr.key(), "a", "gateway")] = gw
    info = analysis.p.func(qual)
    it.inline_skip = {"gateway_tcp:BaseTCPGateway.check_connection", "gateway_tcp:AsyncTCPGateway.check_connection"}
    outs = analysis.run_root(it, qual, [tr], None, st)
    if info.is_async:
        res = []
        for kind, s, v in outs:
            if kind == "val" and isinstance(v, FutureV):
                res.extend(it.call_func(s, v.fn, list(v.args), v.kwargs, info.node))
            else:
                res.append((kind, s, v))
        outs = res
    rtkey = ("attr", tr.key(), "reconnect_timeout")
    rows = []
    for out in outs:
        kind, s, v = out
        seq = []
        for e in s.events:
            if e.kind == "catch" and e.func != qual:
                continue
            if e.kind == "call" and e.name in ("serial.serial_for_url", "socket.create_connection", "serial_asyncio.create_serial_connection", "asyncio.wait_for"):
                seq.append("attempt")
            elif e.kind == "catch":
                seq.append("catch:" + e.name)
            elif e.kind == "call" and e.name in ("time.sleep", "asyncio.sleep"):
                ok = bool(e.args) and e.args[0].key() == rtkey
                seq.append("sleep" if ok else "sleep?")
            elif e.kind == "loopcut":
                seq.append("loop")
            elif e.kind == "load" and e.name == "protocol":
                seq.append("test-protocol")
            elif e.kind == "call" and (e.name.endswith(".start") or e.name.endswith(".connect")):
                seq.append("connected")
        timers = sorted({e.name for e in s.events if e.kind == "store" and e.name in ("tcp_check_timer", "tcp_disconnect_timer") and e.args and "time.time" in repr(e.args[0].key())})
        rows.append({"kind": kind, "exc": f"{v.cls.__name__} at {v.site}" if kind == "raise" else None, "cancelled": kind == "raise" and v.cls.__name__ == "CancelledError", "seq": seq, "timers": timers, "witness": describe_path(out, 22)})
    return {"qual": qual, "async": info.is_async, "rows": rows}


def watchdog_worker(analysis: Analysis, ctxspec) -> list:
    """Paths of the TCP connection check with the deadline comparisons they were taken under."""
    ctx = analysis.context(*ctxspec)
    it = analysis.new_interp(ctx)
    st, gw = analysis.gateway_state(it)
    it.inline_skip = {"__init__:Gateway.alert"}
    outs = analysis.run_root(it, "gateway_tcp:BaseTCPGateway.check_connection", [], gw, st)
    rows = []
    for out in outs:
        kind, s, v = out
        atoms = set()
        boundary = None
        for f in s.facts:
            if f[0] != "atom" or f[1][0] != "cmp":
                continue
            _c, op, lk, rk = f[1]
            truth = f[2]
            ls, rs = repr(lk), repr(rk)
            if "time.time" in rs and "time.time" not in ls:
                dl = ls
            elif "time.time" in ls and "time.time" not in rs:
                dl = rs
                op = {"Lt": "Gt", "Gt": "Lt", "LtE": "GtE", "GtE": "LtE"}.get(op, op)
            else:
                continue
            # deadline <op> now
            expired = (op in ("Lt", "LtE") and truth) or (op in ("Gt", "GtE") and not truth)
            dl = dl.replace("\\", "").replace("'", "").replace('"', "")
            which = "disconnect" if "tcp_disconnect_timer" in dl else ("check" if "tcp_check_timer" in dl else "?")
            uses_rt = "transport), reconnect_timeout)" in dl
            factor = 2 if "binop:Mult" in dl and "(c, int, 2)" in dl else 1
            if uses_rt and "binop:Add" in dl:
                atoms.add((which, factor, "expired" if expired else "pending"))
                if which == "check" and factor == 1:
                    # which side of the probe test does `last probe + reconnect_timeout == now` fall on?
                    if (op == "GtE" and truth) or (op == "Lt" and not truth):
                        boundary = "skips"
                    elif (op == "LtE" and truth) or (op == "Gt" and not truth):
                        boundary = "probes"
        probe = any(e.kind == "append" and e.args and "message:Message.encode" in repr(e.args[0].key()) for e in s.events) or any(e.kind == "opaque" and "add_job" in e.name for e in s.events) or any(e.kind == "enter" and e.name.endswith(".add_job") and len(e.args) > 1 and "message:Message.encode" in repr(e.args[1].key()) for e in s.events)
        restarts = any(e.kind == "store" and e.name == "tcp_check_timer" and e.args and "time.time" in repr(e.args[0].key()) for e in s.events)
        subs = [e.args[0] for e in s.events if e.kind == "store" and e.name == "sub_type" and e.args]
        is_version = bool(subs) and "I_VERSION" in repr(subs[-1].key())
        to_gw = any(e.kind == "store" and e.name == "child_id" and e.args and isinstance(e.args[0], Const) and e.args[0].value == 255 for e in s.events) and not any(e.kind == "store" and e.name == "node_id" and e.args and not (isinstance(e.args[0], Const) and e.args[0].value == 0) for e in s.events)
        rows.append({"kind": kind, "exc": v.cls.__name__ if kind == "raise" else None, "atoms": sorted(atoms), "check_boundary": boundary, "probe": probe, "restarts_check": restarts, "is_version": is_version, "to_gw": to_gw, "witness": describe_path(out, 14)})
    for r in rows:
        r["atoms"] = [tuple(a) for a in r["atoms"]]
    return rows


def async_check_worker(analysis: Analysis, ctxspec) -> list:
    """Paths of the asyncio variant of the connection check: drop-and-reconnect versus re-arm."""
    ctx = analysis.context(*ctxspec)
    it = analysis.new_interp(ctx)
    st, gw = analysis.gateway_state(it)
    it.inline_skip = {"__init__:Gateway.alert"}
    outs = analysis.run_root(it, "gateway_tcp:AsyncTCPGateway.check_connection", [], gw, st)
    rt = ("attr", ("attr", ("attr", gw.key(), "tasks"), "transport"), "reconnect_timeout")
    rows = []
    for out in outs:
        kind, s, v = out
        dropped = [i for i, e in enumerate(s.events) if e.kind == "catch" and e.name == "OSError" and e.func.startswith("gateway_tcp:AsyncTCPGateway.")]
        after = s.events[dropped[0]:] if dropped else []
        closed = any(e.kind == "call" and e.name == "exttransport.close" for e in after)
        recon = any(e.kind == "call" and e.name == "?callable" and isinstance(e.recv, V) and "conn_lost_callback" in repr(e.recv.key()) for e in after)
        rearm = [e for e in s.events if e.kind == "store" and e.name == "cancel_check_conn" and e.args and "asyncio.Handle.cancel" in repr(e.args[0].key())]
        cb_ok = delay_ok = delay_strict = False
        for e in rearm:
            h = getattr(e.args[0], "recv", None)
            hargs = list(getattr(h, "args", []) or [])
            if len(hargs) >= 2:
                dk = hargs[0].key()
                delay_ok = repr(rt) in repr(dk) or dk == rt
                # the base check probes only when MORE than reconnect_timeout has passed since the last probe
                # (`check_timer + reconnect_timeout >= now` returns early): a timer firing exactly reconnect_timeout
                # later lands on that boundary and every other tick is wasted - the delay must exceed the timeout
                import re as _re

                m = _re.match(r"^binop:Add:(.*):\('c', '(?:float|int)', ([0-9.eE+-]+)\)$", dk[1]) if isinstance(dk, tuple) and dk[0] == "u" else None
                m2 = _re.match(r"^binop:Add:\('c', '(?:float|int)', ([0-9.eE+-]+)\):(.*)$", dk[1]) if isinstance(dk, tuple) and dk[0] == "u" else None
                if m and m.group(1) == repr(rt):
                    delay_strict = float(m.group(2)) > 0
                elif m2 and m2.group(2) == repr(rt):
                    delay_strict = float(m2.group(1)) > 0
                else:
                    delay_strict = False
                cb_ok = "check_connection" in repr(hargs[1].key()) and repr(gw.key()) in repr(hargs[1].key())
        rows.append({"kind": kind, "dropped": bool(dropped), "closed": closed, "reconnect": recon, "rearmed": bool(rearm), "rearm_cb": cb_ok, "rearm_delay": delay_ok, "rearm_strict": delay_strict, "witness": describe_path(out, 16)})
    return rows


def answer_worker(analysis: Analysis, _spec) -> dict:
    ctx = analysis.context(analysis.versions[-1], "tcp", "sync")
    it = analysis.new_interp(ctx)
    st, gw = analysis.gateway_state(it)
    msg = Sym(("root", "msg"), ("cls", "message:Message"))
    outs = analysis.run_root(it, "gateway_tcp:BaseTCPGateway._handle_i_version", [msg], gw, st)
    vals = [o for o in outs if o[0] == "val"]
    def stores(s, name):
        return [e for e in s.events if e.kind == "store" and e.name == name]
    return {"paths": len(vals), "all_restart": all(any("time.time" in repr(e.args[0].key()) for e in stores(s, "tcp_disconnect_timer")) for _k, s, _v in vals), "touches_check": any(stores(s, "tcp_check_timer") for _k, s, _v in vals)}


def reader_exit_worker(analysis: Analysis, _spec) -> dict:
    """How the TCP reader loop ends: connection_lost(None) means "closed on request" to the protocol (no
    reconnect), so it may only be reported when the loop saw its run flag cleared."""
    ctx = analysis.context(analysis.versions[-1], "tcp", "sync")
    it = analysis.new_interp(ctx)
    st, gw = analysis.gateway_state(it)
    tr = Sym(("root", "TT"), ("cls", "gateway_tcp:TCPTransport"))
    bad = []
    n = 0
    for out in analysis.run_root(it, "gateway_tcp:TCPTransport.run", [], tr, st):
        kind, s, v = out
        if kind != "val" or any(e.kind == "loopcut" for e in s.events):
            continue
        lost = [e for e in s.events if e.kind == "call" and e.name.endswith("connection_lost")]
        if not lost:
            bad.append(("the reader loop ends without telling the protocol", describe_path(out, 16)))
            continue
        n += 1
        arg = lost[-1].args[0] if lost[-1].args else None
        if isinstance(arg, Const) and arg.value is None:
            stopped = any(f[0] == "falsy" and "alive" in repr(f[1]) for f in s.facts)
            if not stopped:
                bad.append(("the loop is left by a break without an error while the run flag is still set: connection_lost(None) looks like a requested close, so nobody reconnects", describe_path(out, 16)))
    return {"n": n, "bad": bad[:3]}


def reconnect_cb_worker(analysis: Analysis, spec) -> dict:
    """Evaluate the reconnect callback a transport class registers with its protocol object, for a transport
    with no connect task and for one that still holds an earlier (finished or pending) task."""
    from ..values import BoundV, ExtObj, FuncV, Obj

    flavour, cq = spec
    ctx = analysis.context(analysis.versions[-1], "serial", flavour)
    it = analysis.new_interp(ctx)
    st, gw = analysis.gateway_state(it)
    tr = Sym(("root", "TR"), ("cls", cq))
    connect = Unknown("callable", label="connect")
    rows = []
    registered = 0
    for kind, s, v in analysis.run_root(it, cq + ".__init__", [gw, connect], tr, st):
        if kind != "val":
            continue
        proto = s.mem.get((tr.key(), "a", "protocol"))
        cb = s.mem.get((proto.key(), "a", "conn_lost_callback")) if isinstance(proto, Obj) else None
        if not isinstance(cb, (FuncV, BoundV)):
            continue
        registered += 1
        for held, task in (("no earlier connect task", Const(None)), ("an earlier connect task is still stored", Unknown("task", label="earlier connect task"))):
            s2 = s.copy()
            s2.mem[(tr.key(), "a", "connect_task")] = task
            n0 = len(s2.events)
            for out in it.call(s2, cb, [], {}, cb.info.node):
                k2, s3, v3 = out
                evs = s3.events[n0:]
                started = False
                for e in evs:
                    if e.kind == "spawn" and e.args and isinstance(e.args[0], FutureV):
                        fn = e.args[0].fn
                        if (isinstance(fn, BoundV) and fn.recv.key() == tr.key() and fn.info.qual.endswith(".connect")) or fn.key() == connect.key():
                            started = True
                    if e.kind == "call" and e.name == "threading.Thread.start" and isinstance(e.recv, ExtObj):
                        tgt = e.recv.kwargs.get("target") or (e.recv.args[1] if len(e.recv.args) > 1 else None)
                        if tgt is not None and (tgt.key() == connect.key() or (isinstance(tgt, BoundV) and tgt.recv.key() == tr.key())):
                            started = True
                rows.append({"held": held, "kind": k2, "exc": f"{v3.cls.__name__} at {v3.site}" if k2 == "raise" else None, "started": started, "callback": cb.info.qual, "witness": describe_path(out, 14)})
    analysis.interp_steps += it.steps
    return {"cls": cq, "flavour": flavour, "registered": registered, "rows": rows}


def watchdog_structure(analysis: Analysis, res: RuleResult) -> None:
    """R5: structure of the TCP watchdog (which timer, which factor, which side of the comparison).

    The two-sided timing guarantee itself is a statement about wall-clock values and is not
    decided; these are the structural facts it rests on.
    """
    info = analysis.p.func("gateway_tcp:BaseTCPGateway.check_connection")
    w = common.where(analysis, info, info.node)

    rows = common.pmap(analysis, watchdog_worker, [(analysis.versions[-1], "tcp", "sync")])[0]
    drops = [r for r in rows if r["kind"] == "raise"]
    probes = [r for r in rows if r["kind"] == "val" and r["probe"]]
    skips = [r for r in rows if r["kind"] == "val" and not r["probe"]]
    res.add("C20-R5", "gateway_tcp:BaseTCPGateway.check_connection / the link is dropped when the last answer is older than 2 x reconnect_timeout", bool(drops) and all(r["exc"] == "OSError" and ("disconnect", 2, "expired") in r["atoms"] for r in drops), w, (f"{len(drops)} raising path(s), each under `tcp_disconnect_timer + 2 * transport.reconnect_timeout < now`" if all(("disconnect", 2, "expired") in r["atoms"] for r in drops) else "a raising path is not taken under `tcp_disconnect_timer + 2 * transport.reconnect_timeout < now` (other timer, factor, interval source or direction)") if drops else "no path raises", next((r["witness"] for r in drops if ("disconnect", 2, "expired") not in r["atoms"]), None))
    res.add("C20-R5", "gateway_tcp:BaseTCPGateway.check_connection / a silent link raises OSError into the reader loop", bool(drops) and all(r["exc"] == "OSError" for r in drops), w, "")
    okp = bool(probes) and all(("check", 1, "expired") in r["atoms"] and r["restarts_check"] for r in probes)
    res.add("C20-R5", "gateway_tcp:BaseTCPGateway.check_connection / a version probe is sent every reconnect_timeout", okp and all(("check", 1, "pending") in r["atoms"] or ("disconnect", 2, "expired") in r["atoms"] for r in skips), w, (f"{len(probes)} probing path(s) under `tcp_check_timer + transport.reconnect_timeout < now`, {len(skips)} skipping path(s) under its negation" if okp else "a probing path is not taken under `tcp_check_timer + transport.reconnect_timeout < now` or does not restart the probe timer") if probes else "no path sends the probe", next((r["witness"] for r in probes + skips if not (("check", 1, "expired") in r["atoms"] or ("check", 1, "pending") in r["atoms"])), None))
    res.add("C20-R5", "gateway_tcp:BaseTCPGateway.check_connection / the probe is I_VERSION to the gateway and restarts the probe timer", bool(probes) and all(r["is_version"] and r["to_gw"] and r["restarts_check"] for r in probes), w, "internal / I_VERSION to node 0 child 255, enqueued as a job; tcp_check_timer = now")
    h = analysis.p.func("gateway_tcp:BaseTCPGateway._handle_i_version")
    hrow = common.pmap(analysis, answer_worker, ["x"])[0]
    res.add("C20-R5", "gateway_tcp:BaseTCPGateway._handle_i_version / an answer restarts the disconnect timer", hrow["paths"] > 0 and hrow["all_restart"], common.where(analysis, h, h.node), "tcp_disconnect_timer = now on every path")
    res.add("C20-R5", "gateway_tcp:BaseTCPGateway._handle_i_version / an answer does not touch the probe timer (probes keep their own period)", not hrow["touches_check"], common.where(analysis, h, h.node), "only the disconnect timer is written" if not hrow["touches_check"] else "the answer also restarts tcp_check_timer: with the asyncio re-arm period of reconnect_timeout + 0.1 s an answer latency of 0.1-0.2 s makes every other probe be skipped, and a link that answers every probe is dropped after about 3 x reconnect_timeout")
    init = analysis.p.func("gateway_tcp:BaseTCPGateway.__init__")
    res.add("C20-R5", "gateway_tcp:BaseTCPGateway.__init__ / answers to the version probe are routed to the watchdog", "I_VERSION.set_handler" in unparse(init.node) and "_handle_i_version" in unparse(init.node), common.where(analysis, init, init.node), "")
    run = analysis.p.func("gateway_tcp:TCPTransport.run")
    ok = False
    cls = analysis.p.classes["gateway_tcp:TCPTransport"]
    for m in cls.methods.values():
        for n in ast.walk(m.node):
            if isinstance(n, ast.Try) and any("_check_connection()" in unparse(b) for b in n.body):
                for h in n.handlers:
                    if h.type is not None and "OSError" in unparse(h.type) and h.name:
                        # the error must end the loop: break, or be handed on (returned / stored) - not swallowed
                        uses = any(isinstance(x, ast.Name) and x.id == h.name for x in ast.walk(ast.Module(body=h.body, type_ignores=[])))
                        ends = any(isinstance(x, (ast.Break, ast.Return)) for x in ast.walk(ast.Module(body=h.body, type_ignores=[])))
                        if uses and ends:
                            ok = True
    res.add("C20-R5", "gateway_tcp:TCPTransport.run / the watchdog runs every loop iteration and its OSError ends the connection", ok, common.where(analysis, run, run.node), "try: self._check_connection() except OSError: break -> connection_lost(error)")
    # the reader loop reaches the watchdog without waiting for inbound data: every select() in the transport
    # returns at once (socket in the write set) or after a bounded time (numeric timeout at every call site)
    n_sel = 0
    for m in cls.methods.values():
        params = [p.arg for p in m.node.args.args]
        pdefaults = dict(zip(params[len(params) - len(m.node.args.defaults):], m.node.args.defaults))
        for n in ast.walk(m.node):
            if not (isinstance(n, ast.Call) and unparse(n.func) in ("select.select", "select")):
                continue
            n_sel += 1
            wl = n.args[1] if len(n.args) > 1 else None
            nonempty_w = isinstance(wl, (ast.List, ast.Tuple)) and len(wl.elts) > 0
            tm = n.args[3] if len(n.args) > 3 else next((k.value for k in n.keywords if k.arg == "timeout"), None)

            def bounded(expr) -> bool:
                if expr is None:
                    return False
                if isinstance(expr, ast.Constant):
                    return isinstance(expr.value, (int, float)) and not isinstance(expr.value, bool)
                if isinstance(expr, ast.Name) and expr.id in params:
                    # every call site of this method in the class must pass a numeric constant
                    sites = [c for mm in cls.methods.values() for c in ast.walk(mm.node) if isinstance(c, ast.Call) and isinstance(c.func, ast.Attribute) and c.func.attr == m.name]
                    idx = params.index(expr.id) - 1
                    vals = []
                    for c in sites:
                        v = c.args[idx] if idx < len(c.args) else next((k.value for k in c.keywords if k.arg == expr.id), pdefaults.get(expr.id))
                        vals.append(v)
                    return bool(sites) and all(isinstance(v, ast.Constant) and isinstance(v.value, (int, float)) and not isinstance(v.value, bool) for v in vals)
                return False

            okb = nonempty_w or bounded(tm)
            res.add("C20-R5", f"{m.qual} / select() does not wait for inbound data before the watchdog can run", okb, common.where(analysis, m, n), "the socket is in the write set (a connected socket is writable at once)" if nonempty_w else ("bounded timeout" if okb else "select() waits for readability only, with no timeout: on a silent link the loop never reaches the watchdog - no probe, no drop, no reconnect"))
    if n_sel < 1:
        raise AnalysisError("C20-R5: no select() call found in TCPTransport")
    a = analysis.p.func("gateway_tcp:AsyncTCPGateway.check_connection")
    arows = common.pmap(analysis, async_check_worker, [(analysis.versions[-1], "tcp", "async")])[0]
    silent = [r for r in arows if r["dropped"]]
    alive = [r for r in arows if not r["dropped"] and r["kind"] == "val"]
    ok_s = bool(silent) and all(r["kind"] != "val" or (r["closed"] and r["reconnect"] and not r["rearmed"]) for r in silent) and any(r["kind"] == "val" for r in silent)
    ok_a = bool(alive) and all(r["rearmed"] and r["rearm_cb"] and r["rearm_delay"] for r in alive)
    # the re-arm period against the probe test of the base check: when a tick that comes exactly reconnect_timeout
    # after the last probe is skipped by that test (`>=`), the period must exceed the timeout
    wrows = common.pmap(analysis, watchdog_worker, [(analysis.versions[-1], "tcp", "async")])[0]
    skips_on_boundary = any(r.get("check_boundary") == "skips" for r in wrows) and not any(r.get("check_boundary") == "probes" for r in wrows)
    ok_p = (not skips_on_boundary) or all(r["rearm_strict"] for r in alive if r["rearmed"])
    res.add("C20-R5", "gateway_tcp:AsyncTCPGateway.check_connection / the re-arm period exceeds reconnect_timeout (a tick exactly on the probe deadline is skipped by the base check)", ok_p, common.where(analysis, a, a.node), "call_later(reconnect_timeout + d, ...) with d > 0" if ok_p else "the check is re-armed after exactly reconnect_timeout, but the base check probes only when MORE than that has passed since the last probe: every other tick is skipped, a silent link is dropped after about 3 x reconnect_timeout instead of 2 x", next((r["witness"] for r in alive if r["rearmed"] and not r["rearm_strict"]), None))
    bad = next((r["witness"] for r in silent if r["kind"] == "val" and not (r["closed"] and r["reconnect"] and not r["rearmed"])), None) or next((r["witness"] for r in alive if not (r["rearmed"] and r["rearm_cb"] and r["rearm_delay"])), None)
    res.add("C20-R5", "gateway_tcp:AsyncTCPGateway.check_connection / re-arms itself and, when silent, closes and reconnects", ok_s and ok_a, common.where(analysis, a, a.node), f"{len(silent)} silent-link path(s): close + conn_lost_callback, no re-arm; {len(alive)} live path(s): call_later(reconnect_timeout + d, self.check_connection) published as cancel_check_conn" if ok_s and ok_a else "a silent link is not closed and handed to the reconnect callback, or a live link does not re-arm the check with the reconnect timeout", bad)


def run(analysis: Analysis, tier: str) -> RuleResult:
    res = RuleResult(PROP)
    res.explanation = [
        "Sibling agreement between the implementations of the same hook: R1 every abstract path of connection_lost, as resolved through the MRO of each protocol class, for exc None and exc truthy, calls on_conn_lost(gateway, exc) exactly once when it is set, triggers the reconnect callback exactly once iff exc is truthy, and clears the transport; connection_made calls on_conn_made exactly once;",
        "R2 every abstract path of the four connect loops: each failed attempt (all modelled failure classes) is followed by sleep(transport.reconnect_timeout) and another attempt, success leaves the loop, nothing but cancellation escapes; R3 stop order and disconnect.",
        "The two-sided timing guarantee of the TCP watchdog and exactly-once under arbitrary event sequences are not decided.",
    ]
    classes = protocol_classes(analysis)
    if len(classes) < 3:
        raise AnalysisError(f"C20-R1: only {len(classes)} protocol classes found")
    jobs = [(c, "connection_lost", k) for c in classes for k in ("none", "error")] + [(c, "connection_made", "-") for c in classes]
    for summ in common.pmap(analysis, hook_worker, jobs):
        cls, hook = summ["cls"], summ["hook"]
        tag = f"{cls}.{hook} (-> {summ['qual']})"
        if not any(r["cb_set"] for r in summ["rows"]):
            res.add("C20-R1", f"{tag} / calls the user's {'on_conn_lost' if hook == 'connection_lost' else 'on_conn_made'} callback", False, "mysensors/transport.py", "no path of this hook consults the user callback: the user is never told", summ["rows"][0]["witness"] if summ["rows"] else None)
        for r in summ["rows"]:
            if r["kind"] == "raise":
                if r["from_cb"]:
                    continue  # a raising user callback is the user's business (reader thread), not decided here
                res.add("C20-R1", f"{tag} / does not raise", False, "mysensors/transport.py", r["exc"], r["witness"])
                continue
            when = "" if hook != "connection_lost" else (" (exc None)" if summ["exc"] == "none" else " (exc set)")
            if r["cb_set"]:
                ok = r["ncb"] == 1 and r["cb_args_ok"]
                res.add("C20-R1", f"{tag} / user callback fires exactly once with (gateway{', exc' if hook == 'connection_lost' else ''}){when}", ok, "mysensors/transport.py", f"{r['ncb']} call(s), arguments ok: {r['cb_args_ok']}", r["witness"] if not ok else None)
            elif r["cb_unset"]:
                res.add("C20-R1", f"{tag} / no callback call when none is set{when}", r["ncb"] == 0, "mysensors/transport.py", "guarded by `is not None`", r["witness"] if r["ncb"] else None)
            if hook == "connection_lost":
                want = 1 if summ["exc"] == "error" else 0
                ok = r["recon"] == want
                res.add("C20-R1", f"{tag} / reconnect is triggered exactly {'once' if want else 'never'}{when}", ok, "mysensors/transport.py", f"{r['recon']} reconnect call(s)", r["witness"] if not ok else None)
                res.add("C20-R1", f"{tag} / clears self.transport{when}", r["cleared"], "mysensors/transport.py", "self.transport = None", r["witness"] if not r["cleared"] else None)
    for summ in common.pmap(analysis, connect_worker, CONNECTS):
        q = summ["qual"]
        rows = summ["rows"]
        if not rows:
            raise AnalysisError(f"C20-R2: no path through {q}")
        saw_retry = False
        for r in rows:
            seq = r["seq"]
            if r["kind"] == "raise" and not r["cancelled"]:
                res.add("C20-R2", f"{q} / a connect failure never ends the supervision", False, "mysensors", f"{r['exc']} escapes the connect loop: no further reconnect attempts", r["witness"])
                continue
            # every catch of a failed attempt is followed by a sleep(reconnect_timeout) and then another attempt / loop
            for i, x in enumerate(seq):
                if x.startswith("catch:") and "Cancelled" not in x:
                    rest = seq[i + 1 :]
                    if r["cancelled"] and (not rest or rest[0].startswith("catch:CancelledError")):
                        continue  # cancelled (stop) before the wait began: nothing to judge on this path
                    if rest and rest[0].startswith("catch:CancelledError"):
                        continue
                    ok = bool(rest) and rest[0] == "sleep"
                    cont = any(y in ("attempt", "loop", "test-protocol") for y in rest[1:]) or (r["kind"] == "raise" and r["cancelled"]) or (not summ["async"] and r["kind"] == "val" and "connected" not in rest)
                    if ok and cont:
                        saw_retry = True
                    res.add("C20-R2", f"{q} / a failed attempt ({x[6:]}) waits reconnect_timeout and retries", ok and cont, "mysensors", "sleep(transport.reconnect_timeout) then the next attempt" if ok and cont else f"after {x}: {rest[:4]}", r["witness"] if not (ok and cont) else None)
            if r["kind"] == "val":
                last_attempt = max((i for i, x in enumerate(seq) if x == "attempt"), default=None)
                async_success = summ["async"] and last_attempt is not None and not any(x.startswith("catch:") for x in seq[last_attempt:])
                if "connected" in seq or async_success:
                    res.add("C20-R2", f"{q} / success leaves the loop", True, "mysensors", "returns after connecting")
                    if q.startswith("gateway_tcp:"):
                        okt = r["timers"] == ["tcp_check_timer", "tcp_disconnect_timer"]
                        res.add("C20-R5", f"{q} / both watchdog timers restart on a new connection", okt, "mysensors/gateway_tcp.py", "tcp_check_timer = tcp_disconnect_timer = now on the connecting path" if okt else f"only {r['timers']} restarted on a connecting path: the watchdog measures the silence of the previous link", r["witness"] if not okt else None)
                elif summ["async"]:
                    res.add("C20-R2", f"{q} / the asyncio loop is left only by success or cancellation", False, "mysensors", f"returns without a connection: {seq}", r["witness"])
        res.add("C20-R2", f"{q} / failed attempts are retried", saw_retry, "mysensors", "some failing path retries")
        info = analysis.p.func(q)
        if not summ["async"]:
            loops = [n for n in ast.walk(info.node) if isinstance(n, ast.While)]
            ok = bool(loops) and any("transport.protocol" in unparse(l.test) for l in loops)
            res.add("C20-R2", f"{q} / the loop re-tests transport.protocol (cleared by disconnect) on every iteration", ok, common.where(analysis, info, info.node), "while transport.protocol:")
        else:
            txt = unparse(info.node)
            ok = "except asyncio.CancelledError" in txt and any(isinstance(h, ast.ExceptHandler) and h.type is not None and "CancelledError" in unparse(h.type) and any(isinstance(x, ast.Raise) for x in ast.walk(h)) for h in ast.walk(info.node))
            res.add("C20-R2", f"{q} / cancellation (stop) ends the loop", ok, common.where(analysis, info, info.node), "CancelledError is re-raised")
    # R3 stop order, on the paths of both stop() variants
    from .c14 import stop_root

    last = analysis.versions[-1]
    for summ in common.pmap(analysis, stop_root, [(last, "serial", "sync"), (last, "serial", "async")]):
        qual = summ["qual"]
        rows = [r for r in summ["rows"] if r["kind"] == "val"]
        bad = None
        for r in rows:
            others = r["stops"] + r["task_cancels"] + r["saves"] + r["cancels"]
            if not r["disconnects"] or (others and min(others) < min(r["disconnects"])):
                bad = r
        info = analysis.p.func(qual)
        res.add("C20-R3", f"{qual} / disconnects first", bool(rows) and bad is None, common.where(analysis, info, info.node), "transport.disconnect() precedes stopping the pump, cancelling the connect task and the final save" if bad is None else "something (stop event, connect-task cancellation, save) happens before the transport is disconnected", bad["witness"] if bad else None)
        if "Async" in qual:
            with_task = [r for r in rows if r["task_cancels"]]
            res.add("C20-R3", f"{qual} / cancels a pending connect task", bool(with_task), common.where(analysis, info, info.node), "connect_task.cancel() on the path with a live connect task: no reconnect attempts after stop()")
    info = analysis.p.func("transport:Transport.send")
    first = [s for s in info.node.body if isinstance(s, ast.If)]
    ok = bool(first) and "protocol" in unparse(first[0].test) and all(isinstance(x, ast.Return) for x in first[0].body)
    res.add("C20-R3", "transport:Transport.send / tests the connection first (no write after stop)", ok, common.where(analysis, info, info.node), unparse(first[0].test)[:80] if first else "")
    from .c14 import pump_stops

    pump_stops(analysis, res, "C20-R3")
    from . import c16

    class _L:
        extra = res.extra

        @staticmethod
        def add(rule, *a, **kw):
            res.add("C20-L:" + rule, *a, **kw)

    c16.send_discipline(analysis, _L)
    for summ in common.pmap(analysis, reconnect_cb_worker, [("sync", "transport:SyncTransport"), ("async", "transport:AsyncTransport")]):
        if not summ["rows"]:
            raise AnalysisError(f"C20-R2: no reconnect callback found on {summ['cls']}.protocol after __init__")
        for r in summ["rows"]:
            ok = r["kind"] == "val" and r["started"]
            res.add("C20-R2", f"{r['callback']} / the reconnect callback starts a connect attempt ({r['held']})", ok, "mysensors/transport.py", "a connect thread / task for this transport's connect is started" if ok else ("the callback raises " + r["exc"] if r["kind"] == "raise" else "the callback returns without starting a connect attempt: the loss is not followed by a reconnect"), r["witness"] if not ok else None, context=summ["flavour"])
    watchdog_structure(analysis, res)
    rx = common.pmap(analysis, reader_exit_worker, ["x"])[0]
    res.add("C20-R2", "gateway_tcp:TCPTransport.run / a link that ends without stop() is reported with an error (so that it is re-dialled)", rx["n"] > 0 and not rx["bad"], "mysensors/gateway_tcp.py", f"{rx['n']} loop exits: connection_lost(None) only after the run flag was cleared" if not rx["bad"] else rx["bad"][0][0], rx["bad"][0][1] if rx["bad"] else None)
    res.units = {"protocol_classes": classes, "connect_loops": [c[0] for c in CONNECTS], "source_digest": analysis.p.digest()}
    res.not_decided = ["the two-sided timing guarantee of the TCP watchdog", "exactly-once callbacks under arbitrary event sequences", "behaviour when a user callback itself raises on the reader thread"]
    res.assumptions = ["failure classes of the connect primitives as in sa/extmodel.py (SerialException, socket.timeout, OSError, asyncio.TimeoutError)"]
    res.trusted = ["sa/extmodel.py"]
    return res
