"""C10 - OTA sessions are gated, restartable and terminate (typestate clauses).

R1 gating: the only store into `requested` is in make_update, dominated by firmware existing;
   a firmware response is returned only on paths where a session store yielded the node's entry
   and the firmware record was found.
R2 transition structure extracted from all paths of the two responders: the config responder
   consults (requested, unstarted) and moves the node to unstarted, never touches started; the
   block responder consults (unstarted, started) and moves to started, never touches requested;
   make_update removes the node from unstarted and started before storing into requested.
R3 reboot flag writers: set True only by make_update, False only by node presentation and the
   constructors.
R4 malformed requests are ignored: the payload parse precedes every session mutation and its
   failure returns None without touching the session.
R5 the stream handler requires a known node.
"""
from __future__ import annotations

import ast
from typing import List

from ..effects import render
from ..engine import Analysis, describe_path
from ..frontend import AnalysisError, unparse
from ..report import RuleResult
from ..values import Const, Obj, Sym, TupleV, Unknown, V
from . import common, pathsum
from .c01 import discharge
from .c14 import specs_for

PROP = "C10"
STORES = ("requested", "unstarted", "started")
SPEC = {
    "ota:OTAFirmware.respond_fw_config": {"consults": ["requested", "unstarted"], "target": "unstarted", "never": "started"},
    "ota:OTAFirmware.respond_fw": {"consults": ["unstarted", "started"], "target": "started", "never": "requested"},
}


def store_name(key) -> str:
    r = render(key)
    for s in STORES + ("firmware",):
        if r.endswith("." + s):
            return s
    return r


def responder_worker(analysis: Analysis, spec) -> dict:
    qual, ctxspec = spec
    ctx = analysis.context(*ctxspec)
    it = analysis.new_interp(ctx)
    st, gw = analysis.gateway_state(it)
    ota = Sym(("root", "OTA"), ("cls", "ota:OTAFirmware"))
    st.mem[(ota.key(), "a", "_const")] = st.mem[(gw.key(), "a", "const")]
    msg = Obj("Message#inbound", "message:Message")
    node = Unknown("int", label="inbound.node_id")
    st.mem[(msg.key(), "a", "node_id")] = node
    st.mem[(msg.key(), "a", "payload")] = Unknown("str", label="inbound.payload")
    st.mem[(msg.key(), "a", "gateway")] = gw
    for a in ("child_id", "type", "ack", "sub_type"):
        st.mem[(msg.key(), "a", a)] = Unknown("int", label=f"inbound.{a}")
    st.add_fact(("canonical", msg.key()))
    outs = analysis.run_root(it, qual, [msg], ota, st)
    rows = []
    for out in outs:
        kind, s, v = out
        if kind == "raise" and discharge(v):
            continue  # A-OTA-RANGE: stored firmware ids / block counts fit 16 bits
        pops, moves, parse_idx, first_mut = [], [], None, None
        parse_failed = False
        parse_args = []
        for e in s.events:
            if e.kind == "enter" and e.name == "ota:fw_hex_to_int" and len(e.args) >= 2:
                pay = s.mem.get((msg.key(), "a", "payload"))
                parse_args.append((pay is not None and e.args[0].key() == pay.key(), e.args[1].value if isinstance(e.args[1], Const) else None))
        for i, e in enumerate(s.events):
            if e.kind == "call" and e.name in ("binascii.unhexlify", "struct.unpack"):
                parse_idx = i if parse_idx is None else parse_idx
            if e.kind == "catch" and e.func.startswith("ota:") and first_mut is None:
                parse_failed = True
            if e.kind in ("dictpop", "delitem", "clear") and isinstance(e.recv, V):
                nm = store_name(e.recv.key())
                hit = None
                pops.append({"store": nm, "key_is_node": bool(e.args) and e.args[0].key() == node.key(), "idx": i})
                first_mut = i if first_mut is None else first_mut
            if e.kind == "setitem" and isinstance(e.recv, V) and store_name(e.recv.key()) in STORES:
                valk = e.args[1].key() if len(e.args) > 1 else None
                moves.append({"store": store_name(e.recv.key()), "key_is_node": e.args[0].key() == node.key(), "val_is_popped": isinstance(valk, tuple) and valk and valk[0] == "get", "idx": i})
                first_mut = i if first_mut is None else first_mut
        replies = kind == "val" and not (isinstance(v, Const) and v.value is None)
        hit = any(f[0] == "notnone" and isinstance(f[1], tuple) and f[1] and f[1][0] == "get" and store_name(f[1][1]) in STORES for f in s.facts)
        fw_found = any(f[0] == "notnone" and isinstance(f[1], tuple) and f[1] and f[1][0] == "get" and store_name(f[1][1]) == "firmware" for f in s.facts)
        reply = None
        if replies and isinstance(v, Obj):
            sub = s.mem.get((v.key(), "a", "sub_type"))
            reply = {"sub": getattr(sub, "names", ("?",))[0] if sub is not None else "?", "is_copy": any(e.kind == "enter" and e.name == "message:Message.copy" and e.args and e.args[0].key() == msg.key() for e in s.events)}
        rows.append({"kind": kind, "exc": v.cls.__name__ if kind == "raise" else None, "pops": pops, "moves": moves, "replies": replies, "hit": hit, "fw_found": fw_found, "parse_idx": parse_idx, "first_mut": first_mut, "parse_failed": parse_failed, "parse_args": parse_args, "reply": reply, "witness": describe_path(out, 22)})
    return {"qual": qual, "ctx": ctx.name, "rows": rows}


def update_worker(analysis: Analysis, ctxspec) -> dict:
    ctx = analysis.context(*ctxspec)
    it = analysis.new_interp(ctx)
    st, gw = analysis.gateway_state(it)
    ota = Sym(("root", "OTA"), ("cls", "ota:OTAFirmware"))
    nid = Sym(("root", "a_nid"), "int")
    args = [nid, Sym(("root", "a_type"), "int"), Sym(("root", "a_ver"), "int"), Sym(("root", "a_bin"), "bytes", nullable=True)]
    it.inline_skip = {"ota:prepare_fw"}
    outs = analysis.run_root(it, "ota:OTAFirmware.make_update", args, ota, st)
    rows = []
    for out in outs:
        kind, s, v = out
        req = [(i, e) for i, e in enumerate(s.events) if e.kind == "setitem" and isinstance(e.recv, V) and store_name(e.recv.key()) == "requested"]
        pops = [(i, store_name(e.recv.key())) for i, e in enumerate(s.events) if e.kind == "dictpop" and isinstance(e.recv, V)]
        reboots = [(i, e) for i, e in enumerate(s.events) if e.kind == "store" and e.name == "reboot"]
        fw_known = any(f[0] == "in" and store_name(f[2]) == "firmware" for f in s.facts) or any(e.kind == "setitem" and isinstance(e.recv, V) and store_name(e.recv.key()) == "firmware" for e in s.events)
        node_known = any(f[0] == "in" and f[1] == nid.key() and render(f[2]).endswith("sensors") for f in s.facts)
        def in_u16(e, val) -> bool:
            """Is `val` known to lie in 0..65535 at event e (both bounds among the facts)?"""
            k = val.key()
            fs = e.facts or ()
            lo = any(f[0] == "atom" and f[1][0] == "cmp" and f[2] is True and ((f[1][1] == "LtE" and f[1][2] == ("c", "int", 0) and f[1][3] == k) or (f[1][1] == "GtE" and f[1][2] == k and f[1][3] == ("c", "int", 0))) for f in fs)
            hi = any(f[0] == "atom" and f[1][0] == "cmp" and f[2] is True and ((f[1][1] == "LtE" and f[1][2] == k and f[1][3] == ("c", "int", 65535)) or (f[1][1] == "Lt" and f[1][2] == k and f[1][3] == ("c", "int", 65536)) or (f[1][1] == "GtE" and f[1][2] == ("c", "int", 65535) and f[1][3] == k)) for f in fs)
            return lo and hi

        fw_stores = [e for e in s.events if e.kind == "setitem" and isinstance(e.recv, V) and store_name(e.recv.key()) == "firmware"]
        ranged = all(isinstance(e.args[1], TupleV) and len(e.args[1].items) == 2 and all(in_u16(e, x) for x in e.args[1].items) for _i, e in req) and all(isinstance(e.args[0], TupleV) and all(in_u16(e, x) for x in e.args[0].items) for e in fw_stores)
        bin_key = args[3].key()
        bin_given = ("notnone", bin_key) in s.facts or ("truthy", bin_key) in s.facts
        prepared = {f"opaque:{e.name}:{e.line}" for e in s.events if e.kind == "opaque" and e.name == "ota:prepare_fw" and e.args and isinstance(e.args[0], V) and e.args[0].key() == bin_key}
        stored_image = any(len(e.args) > 1 and any(lbl in repr(e.args[1].key()) for lbl in prepared) for e in fw_stores)
        rows.append({"bin_given": bin_given, "stored_image": stored_image, "fw_store_vals": [repr(e.args[1].key())[:80] for e in fw_stores if len(e.args) > 1], "kind": kind, "ranged": ranged, "req": [i for i, _e in req], "req_vals_tuple2": all(isinstance(e.args[1], TupleV) and len(e.args[1].items) == 2 for _i, e in req), "req_key_known": all(any(f[0] == "in" and f[1] == e.args[0].key() and render(f[2]).endswith("sensors") for f in (e.facts or ())) for _i, e in req), "pops": pops, "reboots": [(i, isinstance(e.args[0], Const) and e.args[0].value is True) for i, e in reboots], "fw_known": fw_known, "node_known": node_known, "witness": describe_path(out, 22)})
    return {"ctx": ctx.name, "rows": rows}


ZERO_SCENARIOS = [
    # (name, responder, session store, scheduled (type, version), loaded firmware keys, request words, reply expected)
    ("config for a firmware of type 0", "ota:OTAFirmware.respond_fw_config", "requested", (0, 5), [(0, 5)], (1, 1, 8, 0, 0), True),
    ("config for a firmware of version 0", "ota:OTAFirmware.respond_fw_config", "unstarted", (5, 0), [(5, 0)], (1, 1, 8, 0, 0), True),
    ("block of a firmware of type 0", "ota:OTAFirmware.respond_fw", "unstarted", (0, 5), [(0, 5)], (0, 5, 0), True),
    ("block of a firmware of version 0", "ota:OTAFirmware.respond_fw", "started", (5, 0), [(5, 0)], (5, 0, 3), True),
    ("block request naming type 0, which is not loaded", "ota:OTAFirmware.respond_fw", "started", (1, 1), [(1, 1)], (0, 1, 0), False),
    ("block request naming version 0, which is not loaded", "ota:OTAFirmware.respond_fw", "started", (1, 1), [(1, 1)], (1, 0, 0), False),
]


def zero_worker(analysis: Analysis, idx: int) -> dict:
    """Boundary evaluation: firmware type / version 0 are ordinary ids (exact session stores and request words)."""
    from ..values import DictV

    name, qual, store, sched, loaded, words, want_reply = ZERO_SCENARIOS[idx]
    ctx = analysis.context(analysis.versions[-1], "serial", "sync")
    it = analysis.new_interp(ctx)
    st, gw = analysis.gateway_state(it)
    ota = Sym(("root", "OTA"), ("cls", "ota:OTAFirmware"))
    st.mem[(ota.key(), "a", "_const")] = st.mem[(gw.key(), "a", "const")]
    for sname in STORES:
        st.mem[(ota.key(), "a", sname)] = DictV({7: TupleV([Const(sched[0]), Const(sched[1])])} if sname == store else {}, closed=True, label=f"store:{sname}")
    rec = lambda k: DictV({"blocks": Const(8), "crc": Const(4660), "data": Unknown("bytes", label=f"image{k}")}, closed=True, label=f"fw{k}")
    st.mem[(ota.key(), "a", "firmware")] = DictV({k: rec(k) for k in loaded}, closed=True, label="firmware")
    msg = Obj("Message#inbound", "message:Message")
    st.mem[(msg.key(), "a", "node_id")] = Const(7)
    st.mem[(msg.key(), "a", "payload")] = Unknown("str", label="inbound.payload")
    st.mem[(msg.key(), "a", "gateway")] = gw
    for a, val in (("child_id", 255), ("type", 4), ("ack", 0), ("sub_type", 0)):
        st.mem[(msg.key(), "a", a)] = Const(val)
    st.add_fact(("canonical", msg.key()))
    it.opaque_handlers["ota:fw_hex_to_int"] = lambda _it, s, _info, args, kwargs, node: [("val", s, TupleV([Const(w) for w in words]))]
    replies = nones = 0
    raises = []
    for out in analysis.run_root(it, qual, [msg], ota, st):
        kind, s, v = out
        if kind == "raise":
            if not discharge(v):
                raises.append(f"{v.cls.__name__}: {v.what}")
        elif isinstance(v, Const) and v.value is None:
            nones += 1
        else:
            replies += 1
    ok = not raises and ((replies > 0 and nones == 0) if want_reply else (replies == 0 and nones > 0))
    return {"name": name, "qual": qual, "want_reply": want_reply, "ok": ok, "detail": f"{replies} replying, {nones} silent path(s)" + (f", raises {raises[:1]}" if raises else "")}


def update_fw_worker(analysis: Analysis, ctxspec) -> dict:
    """The controller's update call: what it hands to make_update after loading the firmware file."""
    ctx = analysis.context(*ctxspec)
    it = analysis.new_interp(ctx)
    st, gw = analysis.gateway_state(it)
    it.inline_skip = {"ota:OTAFirmware.make_update", "ota:load_fw"}
    tasks = Sym(("attr", gw.key(), "tasks"), ("cls", ctx.tasks))
    m = analysis.p.find_method(ctx.tasks, "update_fw")
    if m is None:
        raise AnalysisError(f"anchor vanished: {ctx.tasks}.update_fw")
    args = [Sym(("root", "nids"), None), Sym(("root", "a_type"), "int"), Sym(("root", "a_ver"), "int"), Sym(("root", "fw_path"), "str", nullable=True)]
    outs = analysis.run_root(it, m.qual, args, tasks, st)
    rows = []
    for out in outs:
        kind, s, v = out
        for e in s.events:
            if e.kind == "opaque" and e.name == "ota:OTAFirmware.make_update":
                a = list(e.args[1:]) + [None] * 4
                img = e.kwargs.get("fw_bin", a[3])
                loaded = isinstance(img, V) and "ota:load_fw" in repr(img.key())
                none = img is None or (isinstance(img, Const) and img.value is None)
                nonempty = isinstance(img, V) and ("truthy", img.key()) in (e.facts or ())
                ids_ok = [isinstance(x, V) and x.key() == y.key() for x, y in zip(a[:3], args[:3])]
                rows.append({"loaded": loaded, "none": none, "nonempty": nonempty, "ids_ok": all(ids_ok), "img": repr(img.key())[:80] if isinstance(img, V) else str(img), "path_given": ("truthy", args[3].key()) in (e.facts or ()), "witness": describe_path(out, 16)})
    return {"qual": m.qual, "ctx": ctx.name, "rows": rows}


def session_retention(analysis: Analysis, res, rule: str) -> None:
    """A request - answerable or not - never takes a scheduled node out of its session (shared with C09: blocks
    can be requested in any order, any number of times)."""
    last = analysis.versions[-1]
    for summ in common.pmap(analysis, responder_worker, [(q, (last, "serial", "sync")) for q in SPEC]):
        q, sp = summ["qual"], SPEC[summ["qual"]]
        for r in summ["rows"]:
            if r["kind"] == "raise" or not r["hit"]:
                continue
            last_move = max((m["idx"] for m in r["moves"]), default=None)
            late = [p["store"] for p in r["pops"] if last_move is not None and p["idx"] > last_move]
            ok_keep = len(r["moves"]) == 1 and not late
            res.add(rule, f"{q} / a request never takes a scheduled node out of its session", ok_keep, "mysensors/ota.py", f"popped entry stored back into `{sp['target']}`" if ok_keep else ("the node's entry is popped from a session store and not stored back on this path: one unanswerable request ends the update" if not r["moves"] else f"the node is removed from {late} after being served: a repeated or out-of-order block request goes unanswered"), r["witness"] if not ok_keep else None, context=summ["ctx"])


def zero_rules(analysis: Analysis, res: RuleResult, rule: str) -> None:
    """0 is a valid firmware type / version: it is served when scheduled and loaded, and a request naming it is
    not mistaken for "nothing requested" (shared by C10-R1 and C09-R1)."""
    for r in common.pmap(analysis, zero_worker, list(range(len(ZERO_SCENARIOS)))):
        res.add(rule, f"{r['qual']} / {r['name']}: {'answered' if r['want_reply'] else 'not answered'}", r["ok"], "mysensors/ota.py", r["detail"] if r["ok"] else f"{r['detail']}: a type / version of 0 is treated as missing (truthiness test instead of `is None`)")


def reboot_writers(analysis: Analysis, res: RuleResult) -> None:
    n = 0
    for mod in common.core_modules(analysis):
        for node in ast.walk(mod.tree):
            if isinstance(node, ast.Assign):
                for t in node.targets:
                    if isinstance(t, ast.Attribute) and t.attr == "reboot":
                        fn = common.func_of_node(analysis, mod, node)
                        n += 1
                        val = node.value
                        if isinstance(val, ast.Constant) and val.value is True:
                            ok = common.owned_by(analysis, fn, {"ota:OTAFirmware.make_update"})
                            res.add("C10-R3", f"{fn} / reboot flag set", ok, common.where(analysis, mod, node), "set by the update call" if ok else "the reboot flag is set outside the update call")
                        elif isinstance(val, ast.Constant) and val.value is False:
                            ok = common.owned_by(analysis, fn, {"handler:handle_presentation", "sensor:Sensor.__init__", "sensor:Sensor.__setstate__"})
                            res.add("C10-R3", f"{fn} / reboot flag cleared", ok, common.where(analysis, mod, node), "cleared by node presentation / constructors" if ok else "the reboot flag is cleared by something other than the node presenting itself again")
                        else:
                            res.add("C10-R3", f"{fn} / reboot flag assigned a computed value", False, common.where(analysis, mod, node), unparse(node))
    if n < 2:
        raise AnalysisError(f"C10-R3: only {n} writers of the reboot flag found")


def run(analysis: Analysis, tier: str) -> RuleResult:
    res = RuleResult(PROP)
    res.explanation = [
        "Typestate clauses of the OTA session, extracted from every abstract path of respond_fw_config, respond_fw and make_update: which session stores are consulted in which order, where the node is moved, that a response needs a store hit and a firmware record, that the payload parse precedes every session mutation and its failure leaves the session untouched (R1, R2, R4);",
        "who may write the reboot flag (R3); the stream handler reaches the responders only for a known node (R5). Conformance of all interleavings to a reference automaton is not decided.",
    ]
    last = analysis.versions[-1]
    jobs = [(q, (v, "serial", "sync")) for q in SPEC for v in (analysis.versions[0], last)]
    for summ in common.pmap(analysis, responder_worker, jobs):
        q = summ["qual"]
        sp = SPEC[q]
        rows = summ["rows"]
        if not any(r["replies"] for r in rows):
            res.add("C10-R1", f"{q} / answers a scheduled node", False, "mysensors/ota.py", "no path returns a firmware response", context=summ["ctx"])
        if not any(r["parse_failed"] for r in rows):
            res.add("C10-R4", f"{q} / a malformed payload is caught", False, "mysensors/ota.py", "no path on which the payload parse fails and is handled: a malformed request raises instead of being ignored", context=summ["ctx"])
        for r in rows:
            if r["kind"] == "raise":
                res.add("C10-R4", f"{q} / malformed requests are ignored ({r['exc']} escapes)", False, "mysensors/ota.py", "the request raises instead of being ignored", r["witness"], context=summ["ctx"])
                continue
            words = 5 if q.endswith("config") else 3
            ok_parse = bool(r["parse_args"]) and all(whole and n == words for whole, n in r["parse_args"])
            res.add("C10-R4", f"{q} / the whole payload is parsed as {words} words", ok_parse, "mysensors/ota.py", "fw_hex_to_int(msg.payload, n): truncated, over-long or partly non-hex requests fail the parse" if ok_parse else f"the parser is not applied to the whole payload as {words} words ({r['parse_args']}): malformed requests are accepted", r["witness"] if not ok_parse else None, context=summ["ctx"])
            order = [p["store"] for p in r["pops"]]
            ok_order = order == sp["consults"][: len(order)] and all(p["key_is_node"] for p in r["pops"])
            res.add("C10-R2", f"{q} / consults {tuple(sp['consults'])} in order, keyed by the requesting node", ok_order, "mysensors/ota.py", f"consulted {order}", r["witness"] if not ok_order else None, context=summ["ctx"])
            touched = set(order) | {m["store"] for m in r["moves"]}
            ok_never = sp["never"] not in touched
            res.add("C10-R2", f"{q} / never touches `{sp['never']}`", ok_never, "mysensors/ota.py", "config is withheld once fetching began / no blocks before a config round" if ok_never else f"touches {sp['never']}", r["witness"] if not ok_never else None, context=summ["ctx"])
            ok_move = all(m["store"] == sp["target"] and m["key_is_node"] and m["val_is_popped"] for m in r["moves"]) and len(r["moves"]) <= 1
            res.add("C10-R2", f"{q} / moves the node's entry to `{sp['target']}`", ok_move, "mysensors/ota.py", f"moves {[(m['store']) for m in r['moves']]}", r["witness"] if not ok_move else None, context=summ["ctx"])
            if r["hit"]:
                # a request never takes a scheduled node out of its session: the popped entry is stored back
                # (whatever becomes of the request), and nothing removes it again afterwards
                last_move = max((m["idx"] for m in r["moves"]), default=None)
                late = [p["store"] for p in r["pops"] if last_move is not None and p["idx"] > last_move]
                ok_keep = len(r["moves"]) == 1 and not late
                res.add("C10-R2", f"{q} / a request never takes a scheduled node out of its session", ok_keep, "mysensors/ota.py", f"popped entry stored back into `{sp['target']}`" if ok_keep else ("the node's entry is popped from a session store and not stored back on this path: one unanswerable request ends the update" if not r["moves"] else f"the node is removed from {late} after being served: a repeated or out-of-order block request goes unanswered"), r["witness"] if not ok_keep else None, context=summ["ctx"])
            if r["replies"]:
                ok_g = r["hit"] and r["fw_found"] and len(r["moves"]) == 1
                res.add("C10-R1", f"{q} / a response needs a session entry and a firmware record", ok_g, "mysensors/ota.py", "store hit and firmware found on the replying path" if ok_g else "a firmware response is returned for a node that is not scheduled or without firmware", r["witness"] if not ok_g else None, context=summ["ctx"])
                want = "ST_FIRMWARE_CONFIG_RESPONSE" if q.endswith("config") else "ST_FIRMWARE_RESPONSE"
                ok_r = r["reply"] is not None and r["reply"]["sub"] == want and r["reply"]["is_copy"]
                res.add("C10-R1", f"{q} / the response is a copy of the request with sub-type {want}", ok_r, "mysensors/ota.py", str(r["reply"]), context=summ["ctx"])
            if r["parse_failed"]:
                ok_i = not r["replies"] and not r["pops"] and not r["moves"]
                res.add("C10-R4", f"{q} / a malformed payload changes nothing and gets no reply", ok_i, "mysensors/ota.py", "returns None before the session is consulted" if ok_i else "the session is mutated or a reply sent for a malformed request", r["witness"] if not ok_i else None, context=summ["ctx"])
            if r["first_mut"] is not None:
                ok_p = r["parse_idx"] is not None and r["parse_idx"] < r["first_mut"]
                res.add("C10-R4", f"{q} / the payload parse precedes every session mutation", ok_p, "mysensors/ota.py", "parse dominates the first store access" if ok_p else "the session is mutated before the payload is parsed", r["witness"] if not ok_p else None, context=summ["ctx"])
    for summ in common.pmap(analysis, update_worker, [(last, "serial", "sync")]):
        rows = summ["rows"]
        if not any(r["req"] for r in rows):
            res.add("C10-R1", "ota:OTAFirmware.make_update / schedules known nodes", False, "mysensors/ota.py", "no path of make_update stores a node into `requested`", context=summ["ctx"])
        for r in rows:
            if r["kind"] != "val":
                continue
            if r["node_known"] and r["fw_known"]:
                ok = bool(r["req"]) and any(t for _i, t in r["reboots"])
                res.add("C10-R2", "ota:OTAFirmware.make_update / every update call for a known node with firmware (re)schedules it and sets the reboot flag", ok, "mysensors/ota.py", "requested[node] stored and reboot set" if ok else "an update call for a known node with existing firmware returns without scheduling the node / setting the reboot flag (e.g. skipped as 'already requested')", r["witness"] if not ok else None, context=summ["ctx"])
            if r["req"] and r.get("bin_given"):
                oks = r["stored_image"]
                res.add("C10-R1", "ota:OTAFirmware.make_update / an update call that brings an image stores the record prepared from that image under (type, version)", oks, "mysensors/ota.py", "firmware[type, version] = prepare_fw(fw_bin)" if oks else f"a path schedules the node although the image passed in was not stored (stored: {r['fw_store_vals']}): the node is served an older image kept under the same (type, version)", r["witness"] if not oks else None, context=summ["ctx"])
            if r["req"]:
                first_req = min(r["req"])
                res.add("C10-R1", "ota:OTAFirmware.make_update / a node is scheduled only when the firmware exists", r["fw_known"], "mysensors/ota.py", "dominated by (type, version) in firmware", r["witness"] if not r["fw_known"] else None, context=summ["ctx"])
                res.add("C10-R1", "ota:OTAFirmware.make_update / only known nodes are scheduled", r["req_key_known"], "mysensors/ota.py", "node in sensors", r["witness"] if not r["req_key_known"] else None, context=summ["ctx"])
                res.add("C10-R1", "ota:OTAFirmware.make_update / session entries are (type, version) pairs", r["req_vals_tuple2"], "mysensors/ota.py", "INV-OTA-SHAPE", context=summ["ctx"])
                res.add("C10-R1", "ota:OTAFirmware.make_update / firmware type and version are stored only within 0..65535 (what the responders can pack)", r["ranged"], "mysensors/ota.py", "INV-OTA-RANGE: both stores are dominated by 0 <= type, version <= 65535" if r["ranged"] else "a type / version outside 0..65535 can be scheduled: the update call returns normally and the node's next config request raises struct.error out of Gateway.logic", r["witness"] if not r["ranged"] else None, context=summ["ctx"])
                before = {s for i, s in r["pops"] if i < first_req}
                ok = {"unstarted", "started"} <= before
                res.add("C10-R2", "ota:OTAFirmware.make_update / restart: the node is removed from unstarted and started before it is scheduled", ok, "mysensors/ota.py", f"popped before scheduling: {sorted(before)}", r["witness"] if not ok else None, context=summ["ctx"])
                okb = any(t for _i, t in r["reboots"])
                res.add("C10-R3", "ota:OTAFirmware.make_update / scheduling sets the reboot flag", okb, "mysensors/ota.py", "sensors[node].reboot = True", r["witness"] if not okb else None, context=summ["ctx"])
    from .c09 import strict_hex

    strict_hex(analysis, res, "C10-R4")
    zero_rules(analysis, res, "C10-R1")
    # the update call itself: a firmware file that does not load to a non-empty image schedules nothing
    for summ in common.pmap(analysis, update_fw_worker, [(last, "serial", "sync"), (last, "serial", "async")]):
        q = summ["qual"]
        if not summ["rows"]:
            res.add("C10-R6", f"{q} / reaches make_update", False, "mysensors/task.py", "no path of the update call reaches OTAFirmware.make_update", context=summ["ctx"])
        for r in summ["rows"]:
            res.add("C10-R6", f"{q} / passes the caller's node ids, type and version on unchanged", r["ids_ok"], "mysensors/task.py", "make_update(nids, fw_type, fw_ver, ...)", r["witness"] if not r["ids_ok"] else None, context=summ["ctx"])
            if r["path_given"]:
                ok = r["loaded"] and r["nonempty"]
                res.add("C10-R6", f"{q} / with a firmware path, nodes are scheduled only for a loaded, non-empty image", ok, "mysensors/task.py", "make_update is dominated by a truthiness test of load_fw's result" if ok else f"make_update is reached with image {r['img']} that is not known to be a non-empty load_fw result: a missing / invalid / empty firmware file still schedules the nodes (an empty image is padded to a page of 0xFF and served)", r["witness"] if not ok else None, context=summ["ctx"])
            else:
                res.add("C10-R6", f"{q} / without a firmware path no image is passed", r["none"], "mysensors/task.py", f"fw_bin = {r['img']}", r["witness"] if not r["none"] else None, context=summ["ctx"])
    # who may store into `requested`
    for mod in common.core_modules(analysis):
        for node in ast.walk(mod.tree):
            if isinstance(node, ast.Assign):
                for t in node.targets:
                    if isinstance(t, ast.Subscript) and isinstance(t.value, ast.Attribute) and t.value.attr == "requested":
                        fn = common.func_of_node(analysis, mod, node)
                        res.add("C10-R1", f"{fn} / store into `requested`", common.owned_by(analysis, fn, {"ota:OTAFirmware.make_update"}), common.where(analysis, mod, node), "only the update call schedules nodes")
    # firmware responses reach the node also when it sleeps (shared with C07-R2)
    from . import c07

    for summ in common.pmap(analysis, c07.router_worker, [(analysis.versions[-1], "serial", "sync")]):
        bad = [r for r in summ["stream_rows"] if not r["ok"]]
        res.add("C10-R7", "__init__:Gateway._route_message / firmware (stream) responses are never withheld or dropped by the router", bool(summ["stream_rows"]) and not bad, "mysensors/__init__.py", f"{len(summ['stream_rows'])} path(s) return the message" if not bad else "a firmware response for a sleeping node is withheld or dropped by the router", bad[0]["witness"] if bad else None)
    reboot_writers(analysis, res)
    # R5 from handler paths
    specs = [(v, "serial", "sync") for v in analysis.versions]
    n = 0
    n_reboot = n_pres = 0
    for rs in common.pmap(analysis, pathsum.logic_records, specs):
        for r in rs:
            if r["kind"] != "val":
                continue
            for m in r["muts"]:
                if m["cat"] == "reboot":
                    n_reboot += 1
                    node_pres = r["type"] == "presentation" and any(x["cat"] == "attr-store" and x["desc"].endswith("_protocol_version") for x in r["muts"])
                    okb = m["val"] == "const:False" and node_pres
                    res.add("C10-R3", "handler paths / the reboot flag is cleared exactly when the node presents itself again", okb, f"{m['func']}:{m['line']}", f"reboot = {m['val']} while handling {r['type']}/{r['sub']}", r["witness"] if not okb else None, context=r["ctx"])
            if r["type"] == "presentation" and any(x["cat"] == "attr-store" and x["desc"].endswith("_protocol_version") for x in r["muts"]):
                n_pres += 1
                cleared = any(m["cat"] == "reboot" and m["val"] == "const:False" for m in r["muts"])
                res.add("C10-R3", "handler paths / a node presentation clears the reboot flag", cleared, "mysensors/handler.py", "reboot = False on the node-presentation path", r["witness"] if not cleared else None, context=r["ctx"])
            if any(c.startswith("ota:OTAFirmware.respond_fw") for c in r["calls"]):
                n += 1
                known = any(f.startswith("in:") and f.endswith("@GW.sensors") for f in r["final_facts"])
                res.add("C10-R5", "handler:handle_stream / firmware responders run only for a known node", known, "mysensors/handler.py", "dominated by is_sensor(node)", r["witness"] if not known else None, context=r["ctx"])
                okt = r["type"] == "stream"
                res.add("C10-R5", "firmware responders are reached only from stream messages", okt, "mysensors/handler.py", f"reached while handling {r['type']}", context=r["ctx"])
    if n < 10:
        raise AnalysisError(f"C10-R5: only {n} responder paths found in the handler analysis")
    if n_pres < 5:
        raise AnalysisError(f"C10-R3: only {n_pres} node-presentation paths found")
    res.units = {"responder_paths": n, "source_digest": analysis.p.digest()}
    res.not_decided = ["conformance of all interleavings to a reference session automaton", "block index range"]
    res.trusted = ["sa/extmodel.py dict.pop model"]
    return res
