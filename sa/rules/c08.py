"""C08 - Withheld traffic reaches the sleeping node exactly once, in order (structural clauses).

R1 FIFO agreement of both queues (append-only producers, popleft-only consumers, no other access).
R2 flush shape on every abstract path: drain the hold queue until it is empty, each popped item
   enqueued exactly once and in pop order, strictly before the desired-value commands; one set
   command per (child, reported value type) whose desired value is not None, built from the
   child's id, that value type and that desired value.
R3 confirmation: a reported value clears the desired entry of the same (child, value type);
   nothing else clears a desired entry.
R4 lookup order of the value-request answer: pending desired value first, else the reported one.
R5 accepted implies deliverable: the desired value is recorded only after the very constructor
   the flush uses has built and validated the command for the same arguments.
R6 the flush cannot raise (shared with C01-R1: checked there for every context).
"""
from __future__ import annotations

import ast
from typing import List

from ..effects import render
from ..engine import Analysis, describe_path
from ..frontend import AnalysisError, unparse
from ..report import RuleResult
from ..values import BoundV, Const, ExtV, Obj, Sym, TupleV, Unknown, V
from . import common
from .c01 import MODULAR

PROP = "C08"
FLUSH = "handler:handle_smartsleep"
CTOR = "__init__:Gateway.create_message_to_set_sensor_value"


def queue_access(analysis: Analysis, res: RuleResult, rule: str = "C08-R1") -> None:
    n = 0
    for mod in common.core_modules(analysis):
        parents = {}
        for node in ast.walk(mod.tree):
            for ch in ast.iter_child_nodes(node):
                parents[ch] = node
        for node in ast.walk(mod.tree):
            if not (isinstance(node, ast.Attribute) and node.attr == "queue"):
                continue
            par = parents.get(node)
            fn = common.func_of_node(analysis, mod, node)
            kind = None
            if isinstance(par, ast.Attribute) and isinstance(parents.get(par), ast.Call) and parents[par].func is par:
                kind = par.attr
            elif isinstance(par, (ast.While, ast.If)) and par.test is node:
                kind = "truth-test"
            elif isinstance(par, ast.UnaryOp) and isinstance(par.op, ast.Not):
                kind = "truth-test"
            elif isinstance(par, ast.Assign) and node in par.targets:
                ctor_like = fn.split(".")[-1] in ("__init__", "__setstate__") or common.owned_by(analysis, fn, {q for q in analysis.p.funcs if q.split(".")[-1] in ("__init__", "__setstate__")})
                kind = "init" if ctor_like and "deque()" in unparse(par.value) else "reassigned"
            else:
                kind = f"other:{type(par).__name__}"
            n += 1
            ok = kind in ("append", "popleft", "truth-test", "init")
            res.add(rule, f"{fn} / queue access `{kind}`", ok, common.where(analysis, mod, node), "FIFO discipline: producers append, consumers popleft" if ok else f"queue is accessed by `{unparse(par)[:60]}`: order or exactly-once delivery is no longer guaranteed by construction")
    if n < 6:
        raise AnalysisError(f"C08-R1: only {n} queue accesses found")


def flush_worker(analysis: Analysis, spec) -> dict:
    ctx = analysis.context(*spec)
    it = analysis.new_interp(ctx)
    it.inline_skip = set(MODULAR)
    st, gw = analysis.gateway_state(it)
    msg = Sym(("root", "S"), ("cls", "message:Message"))
    st.mem[(msg.key(), "a", "gateway")] = gw
    node = Sym(("attr", msg.key(), "node_id"), "int")
    sens = ("attr", gw.key(), "sensors")
    st.add_fact(("in", node.key(), sens))
    outs = analysis.run_root(it, FLUSH, [msg], None, st)
    sensor = ("item", sens, node.key())
    qkey = ("attr", sensor, "queue")
    rows = []
    escapes = []
    for out in outs:
        kind, s, v = out
        problems = []
        if kind != "val":
            escapes.append({"key": f"{v.func} / {v.cls.__name__} / {v.expr or v.what}", "site": v.site, "what": v.what, "witness": describe_path(out, 20)})
            continue
        seq = []
        for e in s.events:
            if e.kind == "seqpop" and isinstance(e.recv, V) and e.recv.key() == qkey:
                seq.append(("pop", e))
            elif e.kind == "enter" and e.name.startswith("task:") and e.name.endswith(".add_job"):
                seq.append(("job", e))
            elif e.kind == "seqpop" and isinstance(e.recv, V) and render(e.recv.key()).endswith(".queue"):
                problems.append("pops another queue: " + render(e.recv.key()))
        pending = None
        desired_started = False
        npop = ndes = 0
        for e in s.events:
            if e.kind == "enter" and e.name == CTOR and FLUSH in e.stack and len(e.args) >= 5:
                k = e.args[4].key()
                if ("notnone", k) not in (e.facts or ()) and ("truthy", k) not in (e.facts or ()):
                    problems.append("a set command is built for a desired value that may be None (confirmed / never set)")
        for what, e in seq:
            if what == "pop":
                npop += 1
                if pending is not None:
                    problems.append("a popped reply is not enqueued before the next pop (lost or reordered)")
                if desired_started:
                    problems.append("held replies are released after desired-value commands (order)")
                pending = e
                continue
            f = e.args[1] if len(e.args) > 1 else None
            extra = e.args[2:]
            if len(extra) == 1 and isinstance(extra[0], TupleV):
                extra = extra[0].items
            if isinstance(f, ExtV) and f.name == "builtins.str":
                arg = extra[0] if extra else None
                label = getattr(arg, "label", "")
                if pending is None:
                    problems.append("a string job is enqueued that is not the reply just popped (duplicate)")
                elif not label.startswith(f"popleft:{qkey!r}"):
                    problems.append("the enqueued string is not the popped reply")
                pending = None
            elif isinstance(f, BoundV) and f.info.qual == "message:Message.encode" and isinstance(f.recv, Obj):
                desired_started = True
                ndes += 1
                m = f.recv
                attrs = {a: s.mem.get((m.key(), "a", a)) for a in ("node_id", "child_id", "type", "sub_type", "payload")}
                cid = render(attrs["child_id"].key()) if attrs["child_id"] is not None else "?"
                sub = render(attrs["sub_type"].key()) if attrs["sub_type"] is not None else "?"
                nid = render(attrs["node_id"].key()) if attrs["node_id"] is not None else "?"
                pay = getattr(attrs["payload"], "label", "") if attrs["payload"] is not None else ""
                if nid not in ("GW.sensors[*].sensor_id", "S.node_id"):
                    problems.append(f"desired-value command addressed to {nid}, not to the waking node")
                if cid not in ("GW.sensors[*].children[*].id", "key(GW.sensors[*].children)"):
                    problems.append(f"desired-value command for child {cid}, not the child being iterated")
                if sub != "key(GW.sensors[*].children[*].values)":
                    problems.append(f"value type {sub} does not range over the child's reported value types")
                if "new_state" not in pay or "values" not in pay:
                    problems.append("payload is not the pending desired value of that child")
                t = attrs["type"]
                from ..values import EnumMemV

                if not (isinstance(t, EnumMemV) and t.names == ("set",)):
                    problems.append("desired-value command is not a set command")
                # the desired value must be known not None at this point
                payv = attrs["payload"]
            else:
                problems.append("unrecognised job enqueued by the flush")
        if pending is not None:
            problems.append("a popped reply is never enqueued (lost)")
        # a desired value is skipped only when it is None (confirmed / never set), not when it is merely falsy
        for f in s.facts:
            if f[0] == "falsy" and isinstance(f[1], tuple) and f[1] and f[1][0] == "get":
                r_ = render(f[1])
                if ".new_state" in r_ and r_.count(".values") >= 1 and r_.endswith(".get(*)") and ".values.get(*)" in r_ and ("isnone", f[1]) not in s.facts:
                    problems.append("a pending desired value that is falsy but not None (\"\", 0) is skipped: it is never sent")
        drained = ("falsy", qkey) in s.facts or any(e.kind == "loopcut" for e in s.events)
        if not drained:
            problems.append("the hold queue is not drained until empty before the flush returns")
        rows.append({"problems": problems, "npop": npop, "ndes": ndes, "witness": describe_path(out, 24)})
    return {"ctx": ctx.name, "rows": rows, "escapes": escapes}


def desired_none_skipped(analysis: Analysis, res: RuleResult) -> None:
    """A desired value of None (confirmed / never set) must not produce a command."""
    info = analysis.p.func(FLUSH)
    ok = False
    for n in ast.walk(info.node):
        if isinstance(n, ast.If) and isinstance(n.test, ast.Compare) and isinstance(n.test.ops[0], ast.Is) and isinstance(n.test.comparators[0], ast.Constant) and n.test.comparators[0].value is None:
            if any(isinstance(b, ast.Continue) for b in n.body):
                ok = True
    res.add("C08-R2", f"{FLUSH} / confirmed (None) desired values are skipped", ok, common.where(analysis, info, info.node), "`if new_value is None: continue`")


def confirm_worker(analysis: Analysis, spec) -> dict:
    ctx = analysis.context(*spec)
    it = analysis.new_interp(ctx)
    st = it.new_state()
    sensor = Sym(("root", "S"), ("cls", "sensor:Sensor"))
    args = [Sym(("root", "a_child"), "int"), Sym(("root", "a_vtype"), "int"), Sym(("root", "a_value"), "str")]
    outs = analysis.run_root(it, "sensor:Sensor.update_child_value", args, sensor, st)
    ns = ("attr", sensor.key(), "new_state")
    ch = ("attr", sensor.key(), "children")
    rows = []
    for out in outs:
        kind, s, v = out
        stores = [e for e in s.events if e.kind == "setitem"]
        has_desired = ("in", args[0].key(), ns) in s.facts
        no_desired = ("notin", args[0].key(), ns) in s.facts or ("falsy", ns) in s.facts
        known_child = ("in", args[0].key(), ch) in s.facts
        val_store = [e for e in stores if isinstance(e.recv, V) and e.recv.key() == ("attr", ("item", ch, args[0].key()), "values")]
        clr = [e for e in stores if isinstance(e.recv, V) and e.recv.key() == ("attr", ("item", ns, args[0].key()), "values")]
        ok_clear = all(e.args[0].key() == args[1].key() and isinstance(e.args[1], Const) and e.args[1].value is None for e in clr)
        rows.append({"kind": kind, "has_desired": has_desired, "no_desired": no_desired, "known_child": known_child, "stored": len(val_store), "cleared": len(clr), "ok_clear": ok_clear, "witness": describe_path(out)})
    return {"rows": rows}


def lookup_worker(analysis: Analysis, spec) -> dict:
    ctx = analysis.context(*spec)
    it = analysis.new_interp(ctx)
    st = it.new_state()
    sensor = Sym(("root", "S"), ("cls", "sensor:Sensor"))
    args = [Sym(("root", "a_child"), "int"), Sym(("root", "a_vtype"), "int")]
    outs = analysis.run_root(it, "sensor:Sensor.get_desired_value", args, sensor, st)
    rows = []
    for out in outs:
        kind, s, v = out
        if kind == "raise":
            rows.append({"kind": kind, "ret": f"{v.cls.__name__}: {v.what}", "desired_pending": False, "witness": describe_path(out)})
            continue
        r = render(v.key()) if isinstance(v, V) and not isinstance(v, Const) else ("None" if isinstance(v, Const) and v.value is None else "?")
        desired_known = any(f[0] == "notnone" and ".new_state" in render(f[1]) and ".values" in render(f[1]) for f in s.facts)
        child_unknown = any(f[0] == "notin" and f[1] == args[0].key() and render(f[2]).endswith(".children") for f in s.facts)
        rows.append({"kind": kind, "ret": r, "desired_pending": desired_known, "child_unknown": child_unknown, "witness": describe_path(out)})
    return {"rows": rows}


def accept_worker(analysis: Analysis, spec) -> dict:
    ctx = analysis.context(*spec)
    it = analysis.new_interp(ctx)
    it.inline_skip = set(MODULAR)
    st, gw = analysis.gateway_state(it)
    args = [Sym(("root", "a_node"), "int"), Sym(("root", "a_child"), "int"), Sym(("root", "a_vtype"), "int"), Sym(("root", "a_value"), None)]
    outs = analysis.run_root(it, "__init__:Gateway.set_child_value", args, gw, st)
    rows = []
    for out in outs:
        kind, s, v = out
        rec_idx = [i for i, e in enumerate(s.events) if e.kind == "setitem" and isinstance(e.recv, V) and ".new_state" in render(e.recv.key()) and render(e.recv.key()).endswith(".values")]
        if not rec_idx:
            continue
        first = rec_idx[0]
        ctor_done = None
        for i, e in enumerate(s.events[:first]):
            if e.kind == "exit" and e.name == CTOR:
                ctor_done = i
        ctor_args_ok = False
        for e in s.events[:first]:
            if e.kind == "enter" and e.name == CTOR and len(e.args) >= 5:
                a = e.args
                ctor_args_ok = a[2].key() == args[1].key() and a[3].key() == args[2].key() and a[4].key() == args[3].key() and render(a[1].key()) == "GW.sensors[*]"
        st_e = s.events[first]
        stored_ok = st_e.args[0].key() == args[2].key() and st_e.args[1].key() == args[3].key()
        rows.append({"ctor_done": ctor_done is not None, "ctor_args_ok": ctor_args_ok, "stored_ok": stored_ok, "witness": describe_path(out, 20)})
    return {"ctx": ctx.name, "rows": rows}


def desired_store_worker(analysis: Analysis, spec) -> dict:
    """Sensor.set_child_desired_state: a call that returns normally has recorded the caller's value."""
    ctx = analysis.context(*spec)
    it = analysis.new_interp(ctx)
    st = it.new_state()
    sensor = Sym(("root", "S"), ("cls", "sensor:Sensor"))
    # the value type is whatever the caller passed (the API converts with int(): "2" is as good as 2)
    args = [Sym(("root", "a_child"), "int"), Sym(("root", "a_vtype"), None), Sym(("root", "a_value"), None)]
    rows = []
    for out in analysis.run_root(it, "sensor:Sensor.set_child_desired_state", args, sensor, st):
        kind, s, v = out
        if kind != "val":
            continue
        stores = [e for e in s.events if e.kind == "setitem" and isinstance(e.recv, V) and ".new_state" in render(e.recv.key()) and render(e.recv.key()).endswith(".values")]
        mine = [e for e in stores if len(e.args) == 2 and repr(args[1].key()) in repr(e.args[0].key()) and e.args[1].key() == args[2].key()]
        ok = bool(mine)
        int_key = all(it.ext.is_intlike(it, s, e.args[0]) for e in mine)
        rows.append({"ok": ok, "int_key": int_key, "key": repr(mine[0].args[0].key())[:80] if mine else None, "n": len(stores), "witness": describe_path(out, 14)})
    return {"rows": rows}


def ctor_validates_with_gateway_version(analysis: Analysis, res: RuleResult, rule: str = "C08-R5") -> None:
    info = analysis.p.func(CTOR)
    calls = [c for c in common.calls_in(info.node, "validate")]
    ok = bool(calls) and all(c.args and unparse(c.args[0]) == "self.protocol_version" for c in calls)
    res.add(rule, f"{CTOR} / validates against the gateway's protocol version", ok, common.where(analysis, info, info.node), "msg.validate(self.protocol_version): flush time and call time use the same version source" if ok else "the command constructor does not validate against the gateway's own version")
    body = info.node.body
    last = body[-1]
    okr = isinstance(last, ast.Return) and any(isinstance(s, ast.Expr) and isinstance(s.value, ast.Call) and unparse(s.value.func).endswith(".validate") for s in body)
    res.add(rule, f"{CTOR} / the command is validated before it is returned", okr, common.where(analysis, info, last), "validate() precedes the return")


def confirmation_rule(analysis: Analysis, res: RuleResult, rule: str) -> None:
    last = analysis.versions[-1]
    for summ in common.pmap(analysis, confirm_worker, [(last, "serial", "sync")]):
        seen = False
        for r in summ["rows"]:
            if r["kind"] != "val":
                res.add(rule, "sensor:Sensor.update_child_value / total", False, "mysensors/sensor.py", "raises", r["witness"])
                continue
            if r["known_child"] and r["has_desired"]:
                seen = True
                ok = r["cleared"] == 1 and r["ok_clear"] and r["stored"] == 1
                res.add(rule, "sensor:Sensor.update_child_value / a reported value clears the desired entry of the same (child, value type)", ok, "mysensors/sensor.py", "new_state[child].values[value_type] = None" if ok else f"{r['cleared']} clearing store(s), matching key/None: {r['ok_clear']}", r["witness"] if not ok else None)
            elif r["cleared"]:
                res.add(rule, "sensor:Sensor.update_child_value / desired entries are cleared only for a reported value of a known child", False, "mysensors/sensor.py", "clears a desired entry on a path without a report", r["witness"])
            if r["known_child"]:
                decided = r["has_desired"] or r["no_desired"]
                res.add(rule, "sensor:Sensor.update_child_value / every report of a known child consults the pending desired state", decided and r["stored"] == 1, "mysensors/sensor.py", "the reported value is stored and the desired-state test is reached on every path" if decided and r["stored"] == 1 else "a report of a known child can return without storing the value or without confirming a pending desired value (the stale desired value is then re-sent at every wake-up and answered to value requests)", r["witness"] if not (decided and r["stored"] == 1) else None)
        if not seen:
            res.add(rule, "sensor:Sensor.update_child_value / a reported value clears the desired entry of the same (child, value type)", False, "mysensors/sensor.py", "no path on which a reported value clears the pending desired value")
    # nothing else clears a desired entry
    for mod in common.core_modules(analysis):
        for node in ast.walk(mod.tree):
            if isinstance(node, ast.Assign) and isinstance(node.value, ast.Constant) and node.value.value is None:
                for t in node.targets:
                    if isinstance(t, ast.Subscript) and unparse(t.value).endswith(".values"):
                        fn = common.func_of_node(analysis, mod, node)
                        res.add(rule, f"{fn} / only update_child_value clears desired entries", fn == "sensor:Sensor.update_child_value", common.where(analysis, mod, node), unparse(node))


def lookup_rule(analysis: Analysis, res: RuleResult, rule: str, rule_total: str) -> None:
    last = analysis.versions[-1]
    for summ in common.pmap(analysis, lookup_worker, [(last, "serial", "sync")]):
        pending_rows = [r for r in summ["rows"] if r["desired_pending"]]
        if not pending_rows:
            res.add(rule, "sensor:Sensor.get_desired_value / pending desired value is answered first", False, "mysensors/sensor.py", "no path returns a pending desired value")
        for r in summ["rows"]:
            if r["kind"] != "val":
                res.add(rule_total, "sensor:Sensor.get_desired_value / cannot raise", False, "mysensors/sensor.py", f"the value-request lookup can raise ({r['ret']})", r["witness"])
                continue
            if r["desired_pending"]:
                ok = ".new_state" in r["ret"]
                res.add(rule, "sensor:Sensor.get_desired_value / pending desired value is answered first", ok, "mysensors/sensor.py", f"returns {r['ret']}", r["witness"] if not ok else None)
            else:
                if r["ret"] == "None":
                    ok = r["child_unknown"]
                    res.add(rule, "sensor:Sensor.get_desired_value / nothing only for a child the node does not have", ok, "mysensors/sensor.py", "returns None under `child not in children`" if ok else "returns None for a known child without consulting its reported values: the value request goes unanswered", r["witness"] if not ok else None)
                    continue
                ok = ".children" in r["ret"] and ".new_state" not in r["ret"]
                res.add(rule, "sensor:Sensor.get_desired_value / otherwise the reported value (or nothing)", ok, "mysensors/sensor.py", f"returns {r['ret']}", r["witness"] if not ok else None)


def accept_rule(analysis: Analysis, res: RuleResult, rule: str) -> None:
    vers = [v for v in analysis.versions if v >= "2.0"] or analysis.versions[-1:]
    for summ in common.pmap(analysis, accept_worker, [(v, "serial", "sync") for v in vers]):
        if not summ["rows"]:
            res.add(rule, "__init__:Gateway.set_child_value / a value set for a sleeping node is recorded as desired state", False, "mysensors/__init__.py", "no path of set_child_value records a desired value: values set while the node sleeps are lost", context=summ["ctx"])
        for r in summ["rows"]:
            ok = r["ctor_done"] and r["ctor_args_ok"]
            res.add(rule, "__init__:Gateway.set_child_value / desired value recorded only after the flush's constructor accepted it", ok, "mysensors/__init__.py", "create_message_to_set_sensor_value(sensor, child, value_type, value) completed before the store" if ok else "a desired value is recorded without having been validated the way the flush will build it: accepted at call time, may fail at wake-up", r["witness"] if not ok else None, context=summ["ctx"])
            res.add(rule, "__init__:Gateway.set_child_value / records the caller's value under the caller's value type", r["stored_ok"], "mysensors/sensor.py", "values[value_type] = value", r["witness"] if not r["stored_ok"] else None, context=summ["ctx"])
    ctor_validates_with_gateway_version(analysis, res, rule)
    for summ in common.pmap(analysis, desired_store_worker, [(analysis.versions[-1], "serial", "sync")]):
        if not summ["rows"]:
            res.add(rule, "sensor:Sensor.set_child_desired_state / an accepted desired value is recorded", False, "mysensors/sensor.py", "no path of set_child_desired_state returns normally")
        for r in summ["rows"]:
            if r["ok"]:
                res.add(rule, "sensor:Sensor.set_child_desired_state / the desired value is recorded under the integer value type (the key domain of reported values, which the flush iterates)", r["int_key"], "mysensors/sensor.py", f"key {r['key']}" if r["int_key"] else f"recorded under the caller's unconverted value type {r['key']}: a value set with value_type \"2\" is accepted, stored under the string key and never found by the wake-up flush", r["witness"] if not r["int_key"] else None)
            res.add(rule, "sensor:Sensor.set_child_desired_state / every call that returns normally has recorded values[value_type] = value for the child", r["ok"], "mysensors/sensor.py", "new_state[child].values[value_type] = value" if r["ok"] else "a path returns normally without recording the caller's value: the value is accepted but never sent at wake-up, and an older pending value is not replaced", r["witness"] if not r["ok"] else None)


def desired_records_worker(analysis: Analysis, scenario: str) -> dict:
    """Concrete-state evaluation of the two places that create desired-state records: the wake-up initialisation
    and the presentation of a new child on a node that is already in smart sleep mode. Children 7 (with a pending
    desired value 25 in new_state) and 8 (no record yet) exist; every container is an exact dict."""
    from ..values import Const, DictV, Obj

    ctx = analysis.context(analysis.versions[-1], "serial", "sync")
    it = analysis.new_interp(ctx)
    st = it.new_state()
    node = Obj("Sensor#S", "sensor:Sensor")

    def child(oid, cid, vals):
        c = Obj(oid, "sensor:ChildSensor")
        for a, v in (("id", Const(cid)), ("type", Const(6)), ("description", Const("d")), ("values", DictV(dict(vals), closed=True, label=f"values:{oid}"))):
            st.mem[(c.key(), "a", a)] = v
        return c

    c7, c8 = child("Child#7", 7, {0: Const("20")}), child("Child#8", 8, {0: Const("21")})
    d7 = child("Desired#7", 7, {0: Const("25")})
    st.mem[(node.key(), "a", "sensor_id")] = Const(1)
    st.mem[(node.key(), "a", "children")] = DictV({7: c7, 8: c8}, closed=True, label="children")
    st.mem[(node.key(), "a", "new_state")] = DictV({7: d7}, closed=True, label="new_state")
    if scenario == "wake-up":
        outs = analysis.run_root(it, "sensor:Sensor.init_smart_sleep_mode", [], node, st)
        new_ids = [8]
    else:
        outs = analysis.run_root(it, "sensor:Sensor.add_child_sensor", [Const(9), Const(6), Const("x")], node, st)
        new_ids = [9]
    problems = []
    n = 0
    for kind, s, v in outs:
        n += 1
        if kind != "val":
            problems.append(f"raises {v.cls.__name__}")
            continue
        ns = s.mem.get((node.key(), "a", "new_state"))
        ch = s.mem.get((node.key(), "a", "children"))
        if not (isinstance(ns, DictV) and ns.closed and isinstance(ch, DictV) and ch.closed):
            problems.append("the maps are replaced or changed in a way that cannot be followed")
            continue
        # the pending desired value of child 7 survives
        e7 = ns.entries.get(7)
        vals7 = s.mem.get((e7.key(), "a", "values")) if isinstance(e7, Obj) else None
        if not (isinstance(e7, Obj) and e7.key() == d7.key() and isinstance(vals7, DictV) and isinstance(vals7.entries.get(0), Const) and vals7.entries[0].value == "25"):
            problems.append("the existing desired-state record of child 7 (pending value 25) is replaced or emptied: pending desired values of other children are lost")
        for cid in new_ids:
            rec = ns.entries.get(cid)
            own = ch.entries.get(cid)
            if scenario == "wake-up" and rec is None:
                problems.append(f"child {cid} gets no desired-state record at wake-up")
                continue
            if scenario != "wake-up" and not (isinstance(own, Obj) and own.cls.endswith("ChildSensor")):
                problems.append(f"child {cid} is not added as a new ChildSensor")
            if rec is None:
                continue
            rv = s.mem.get((rec.key(), "a", "values")) if isinstance(rec, Obj) else None
            ov = s.mem.get((own.key(), "a", "values")) if isinstance(own, Obj) else None
            rid = s.mem.get((rec.key(), "a", "id")) if isinstance(rec, Obj) else None
            if not (isinstance(rec, Obj) and rec.cls.endswith("ChildSensor") and (own is None or rec.key() != own.key())):
                problems.append(f"the desired-state record of child {cid} is not a ChildSensor object of its own")
            elif not (isinstance(rv, DictV) and not rv.entries and (ov is None or rv.key() != ov.key())):
                problems.append(f"the desired-state record of child {cid} does not start with an empty value map of its own (it shares or copies the reported values: a report then clears itself, a desired value shows up as reported)")
            elif not (isinstance(rid, Const) and rid.value == cid):
                problems.append(f"the desired-state record of child {cid} carries another id")
    analysis.interp_steps += it.steps
    return {"scenario": scenario, "paths": n, "problems": sorted(set(problems))}


def desired_records(analysis: Analysis, res, rule: str) -> None:
    for r in common.pmap(analysis, desired_records_worker, ["wake-up", "late presentation"]):
        fn = "sensor:Sensor.init_smart_sleep_mode" if r["scenario"] == "wake-up" else "sensor:Sensor.add_child_sensor"
        ok = not r["problems"] and r["paths"] > 0
        res.add(rule, f"{fn} / desired-state records: existing ones are kept, new ones are fresh ChildSensor objects with an empty value map of their own ({r['scenario']})", ok, "mysensors/sensor.py", f"{r['paths']} path(s) on a node with one pending desired value" if ok else "; ".join(r["problems"]))


def run(analysis: Analysis, tier: str) -> RuleResult:
    res = RuleResult(PROP)
    res.explanation = [
        "R1 access kinds of Sensor.queue and Tasks.queue (syntax tree); R2 trace predicates over every abstract path of the wake-up flush (drain-until-empty, pop/enqueue pairing in order, replies before desired-value commands, commands built from the iterated child / reported value type / pending desired value);",
        "R3 all paths of update_child_value clear exactly the desired entry of the reported (child, value type); R4 all paths of get_desired_value return the pending desired value before the reported one; R5 on every path of set_child_value that records a desired value the flush's own constructor has completed for the same arguments first.",
        "Counting over histories (exactly-once as a global count) is not decided; R6 (flush totality) is C01-R1.",
    ]
    queue_access(analysis, res)
    vers = [v for v in analysis.versions if v >= "2.0"] or analysis.versions[-1:]
    n_paths = 0
    for summ in common.pmap(analysis, flush_worker, [(v, "serial", fl) for v in vers for fl in ("sync", "async")]):
        rows = summ["rows"]
        n_paths += len(rows)
        if not rows:
            raise AnalysisError(f"C08-R2: no path through the flush in {summ['ctx']}")
        res.add("C08-R2", f"{FLUSH} / held replies are released at wake-up", any(r["npop"] for r in rows), "mysensors/handler.py", "the flush pops the node's hold queue", context=summ["ctx"])
        res.add("C08-R2", f"{FLUSH} / pending desired values are sent at wake-up", any(r["ndes"] for r in rows), "mysensors/handler.py", "the flush enqueues set commands for desired values", context=summ["ctx"])
        for esc in summ["escapes"]:
            res.add("C08-R6", f"{FLUSH} / cannot raise: {esc['key']}", False, esc["site"], esc["what"], esc["witness"], context=summ["ctx"])
        probs = {}
        for r in rows:
            for p in r["problems"]:
                probs.setdefault(p, r["witness"])
        res.add("C08-R2", f"{FLUSH} / every path has the flush shape", not probs, "mysensors/handler.py", f"{len(rows)} paths: drain until empty, each popped reply enqueued once in order, then one set per pending desired value" if not probs else "; ".join(probs), None, context=summ["ctx"])
        for p, w in probs.items():
            res.add("C08-R2", f"{FLUSH} / {p}", False, "mysensors/handler.py", p, w, context=summ["ctx"])
    confirmation_rule(analysis, res, "C08-R3")
    desired_records(analysis, res, "C08-R3")
    lookup_rule(analysis, res, "C08-R4", "C08-R6")
    accept_rule(analysis, res, "C08-R5")
    res.units = {"flush_paths": n_paths, "source_digest": analysis.p.digest()}
    res.not_decided = ["exactly-once as a count over arbitrary histories"]
    res.trusted = ["sa/extmodel.py deque/dict models", "INV-KEY-ID"]
    return res
