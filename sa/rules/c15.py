"""C15 - Periodic saving heals itself.

R1 re-arm on every path: in the threaded schedule_save closure every path from the
   save_sensors() call - normal and exceptional for every exception class a save can raise
   (OSError from each file operation, RuntimeError / PicklingError / TypeError from the dump) -
   reaches the construction and start() of a Timer whose target is the closure itself; in the
   asyncio save loop every such path returns to the loop head (after the sleep), only
   CancelledError leaves the loop.
R2 the re-armed timer's cancel (resp. the task's cancel) is published to _cancel_save.
R3 a failed attempt keeps the state unsaved and the old file intact: C12-R1/R3 (checked there).
"""
from __future__ import annotations

from ..engine import Analysis, describe_path
from ..frontend import AnalysisError
from ..report import RuleResult
from ..values import BoundV, Const, ExtObj, ExtV, FuncV, FutureV, Sym, V
from . import common, persist

PROP = "C15"


def _setup(analysis: Analysis, flavour: str, ext: str):
    ctx = analysis.context(analysis.versions[-1], "serial", flavour)
    it = analysis.new_interp(ctx)
    persist.install_dispatch(analysis, it, ext)
    st, gw, p = persist.persistence_state(analysis, it)
    st.add_fact(("truthy", ("attr", p.key(), "need_save")))
    tasks = Sym(("attr", gw.key(), "tasks"), ("cls", ctx.tasks))
    save = BoundV(p, analysis.p.func("persistence:Persistence.save_sensors"))
    fac = analysis.p.find_method(ctx.tasks, "_schedule_factory")
    outs = it.call_func(st, BoundV(tasks, fac), [save], {}, fac.node)
    vals = [(s, v) for k, s, v in outs if k == "val"]
    if len(vals) != 1 or target_info(vals[0][1]) is None:
        raise AnalysisError(f"C15: {fac.qual} does not return a single scheduler callable (closure, bound method or partial)")
    return ctx, it, vals[0][0], vals[0][1], tasks, fac


def target_info(v):
    """The repo function behind a callable value: closure, bound method or functools.partial of one."""
    from ..values import PartialV

    while isinstance(v, PartialV):
        v = v.fn
    if isinstance(v, (FuncV, BoundV)):
        return v.info
    return None


def _is_handle_of(v, obj, cancel_name: str) -> bool:
    """Is `v` the object itself or its bound cancel method?"""
    if isinstance(v, ExtObj):
        return v.key() == obj.key()
    return isinstance(v, ExtV) and v.name == cancel_name and v.recv is not None and v.recv.key() == obj.key()


def published_attrs(analysis: Analysis, flavour: str) -> list:
    """Names of the attributes of the tasks object in which the scheduler publishes its cancel handle
    (evaluated, not assumed: `_cancel_save` today)."""
    summ = (sync_worker if flavour == "sync" else async_worker)(analysis, "json")
    if flavour == "sync":
        return sorted({a for r in summ["rows"] for a in r.get("pub_attrs", [])})
    return summ.get("pub_attrs", [])


def in_scope(func: str, *infos) -> bool:
    """Is `func` one of the given functions or nested in one of them?"""
    return any(i is not None and (func == i.qual or func.startswith(i.qual + ".")) for i in infos)


def sync_worker(analysis: Analysis, ext: str) -> dict:
    ctx, it, st, closure, tasks, fac = _setup(analysis, "sync", ext)
    cinfo = target_info(closure)
    outs = it.call(st, closure, [], {}, cinfo.node)
    analysis.interp_steps += it.steps
    rows = []
    for out in outs:
        kind, s, v = out
        timers = [e for e in s.events if e.kind == "call" and e.name == "threading.Timer.start" and isinstance(e.recv, ExtObj)]
        armed = [e for e in timers if len(e.recv.args) > 1 and target_info(e.recv.args[1]) is cinfo]
        # the handle stop() needs: the new timer, or its bound cancel, stored in an attribute of the tasks object
        pub = [e for e in s.events if e.kind == "store" and isinstance(e.recv, V) and e.recv.key() == tasks.key() and e.args and armed and _is_handle_of(e.args[0], armed[-1].recv, "threading.Timer.cancel")]
        pub_ok = bool(pub)
        pub_attrs = sorted({e.name for e in pub})
        # handled by the scheduler: in the closure, the factory or a helper of the tasks module they call
        failed = [e for e in s.events if e.kind == "catch" and (in_scope(e.func, cinfo, fac) or e.func.startswith("task:"))]
        save_i = [i for i, e in enumerate(s.events) if e.kind == "enter" and e.name == "persistence:Persistence.save_sensors"]
        arm_i = [i for i, e in enumerate(s.events) if e in armed]
        interval = armed[-1].recv.args[0].value if armed and isinstance(armed[-1].recv.args[0], Const) else None
        rows.append({"kind": kind, "exc": f"{v.cls.__name__} at {v.site}" if kind == "raise" else None, "armed": len(armed), "pub_ok": pub_ok, "failed": [e.name for e in failed], "save_first": bool(save_i and arm_i and save_i[0] < arm_i[-1]), "interval": interval, "pub_attrs": pub_attrs, "witness": describe_path(out, 24)})
    return {"qual": cinfo.qual, "ext": ext, "rows": rows}


def async_worker(analysis: Analysis, ext: str) -> dict:
    ctx, it, st, closure, tasks, fac = _setup(analysis, "async", ext)
    # schedule_save is async: run its body, find the spawned save task
    cinfo = target_info(closure)
    outs = it.call(st, closure, [], {}, cinfo.node)
    if cinfo.is_async:
        res0 = []
        for kind, s, v in outs:
            if kind == "val" and isinstance(v, FutureV):
                res0.extend(it.call_func(s, v.fn, list(v.args), v.kwargs, cinfo.node))
            else:
                res0.append((kind, s, v))
        outs = res0
    spawned = None
    pub = None
    pub_attrs = []
    st2 = None
    for kind, s, v in outs:
        if kind != "val":
            continue
        for e in s.events:
            if e.kind == "spawn" and e.args and isinstance(e.args[0], FutureV):
                spawned = e.args[0]
        task_objs = [e.args[0] for e in s.events if e.kind == "store" and e.args and isinstance(e.args[0], ExtObj) and e.args[0].cls == "asyncio.Task"]
        for e in s.events:
            if e.kind == "store" and isinstance(e.recv, V) and e.recv.key() == tasks.key() and e.args:
                val = e.args[0]
                if in_scope(getattr(target_info(val), "qual", ""), fac, cinfo) or (isinstance(val, (ExtObj, ExtV)) and (getattr(val, "cls", "") == "asyncio.Task" or getattr(val, "name", "") == "asyncio.Task.cancel")):
                    pub = val
                    pub_attrs.append(e.name)
        st2 = s
    if spawned is None or st2 is None:
        raise AnalysisError(f"C15: {cinfo.qual} does not create a save task")
    loop_fn = spawned.fn
    linfo = target_info(loop_fn)
    outs2 = it.call_func(st2.copy(), loop_fn, list(spawned.args), spawned.kwargs, linfo.node)
    rows = []
    for out in outs2:
        kind, s, v = out
        seq = []
        for e in s.events:
            if not in_scope(e.func, fac, linfo, cinfo) and not (e.kind == "enter" and e.name == "persistence:Persistence.save_sensors"):
                continue
            if e.kind == "enter" and e.name == "persistence:Persistence.save_sensors":
                seq.append("save")
            elif e.kind == "call" and e.name == "asyncio.sleep":
                seq.append("sleep")
            elif e.kind == "catch":
                seq.append(f"catch:{e.name}")
            elif e.kind == "loopcut":
                seq.append("loop")
        rows.append({"kind": kind, "exc": f"{v.cls.__name__} at {v.site}" if kind == "raise" else None, "seq": seq, "witness": describe_path(out, 26)})
    # the cancel closure
    cancel_ok = False
    pinfo = target_info(pub) if pub is not None else None
    if pinfo is not None:
        from ..frontend import unparse

        txt = unparse(pinfo.node)
        cancel_ok = ".cancel()" in txt and "await" in txt
    elif pub is not None:
        cancel_ok = True  # the task itself (or its cancel) is published: what stop() does with it is C14-R2
    analysis.interp_steps += it.steps
    return {"qual": linfo.qual, "ext": ext, "rows": rows, "published": pub is not None, "cancel_ok": cancel_ok, "sched": cinfo.qual, "pub_attrs": sorted(set(pub_attrs))}


def run(analysis: Analysis, tier: str) -> RuleResult:
    res = RuleResult(PROP)
    res.explanation = [
        "Exceptional-path analysis of the two scheduler closures with Persistence.save_sensors inlined for both file formats (one exceptional path per file operation / dump error class of the external model): R1 threaded: every path reaches Timer(..., schedule_save).start(); asyncio: no path leaves the loop except by CancelledError, a failing save is followed by the sleep and the next iteration; R2 the cancel handle is published.",
        "The period itself (10 s) is reported, not judged.",
    ]
    persist.check_dispatch_shape(analysis)
    for summ in common.pmap(analysis, sync_worker, list(persist.EXTS)):
        q = summ["qual"]
        rows = summ["rows"]
        if len(rows) < 6 or not any(r["failed"] for r in rows):
            res.add("C15-R1", f"{q}[{summ['ext']}] / a failing save is handled inside the scheduler", False, "mysensors/task.py", f"{len(rows)} paths, none on which a save error is caught by the scheduler", rows[0]["witness"] if rows else None)
        for r in rows:
            if r["kind"] == "raise":
                res.add("C15-R1", f"{q}[{summ['ext']}] / re-arms the timer after a failing save", False, "mysensors/task.py", f"{r['exc']} leaves the scheduler before the next timer is armed: the periodic save stops for good", r["witness"])
                continue
            ok = r["armed"] == 1
            label = "after a failing save" if r["failed"] else "after a successful save"
            res.add("C15-R1", f"{q}[{summ['ext']}] / re-arms the timer {label}", ok, "mysensors/task.py", f"Timer({r['interval']}, schedule_save).start() on the path" if ok else f"{r['armed']} timers armed on the path", r["witness"] if not ok else None)
            res.add("C15-R1", f"{q}[{summ['ext']}] / the save attempt precedes the re-arm", r["save_first"], "mysensors/task.py", "", r["witness"] if not r["save_first"] else None)
            res.add("C15-R2", f"{q}[{summ['ext']}] / the new timer (or its cancel) is published on the tasks object", r["pub_ok"], "mysensors/task.py", f"stored in {r['pub_attrs']}" if r["pub_ok"] else "stop() cannot cancel the re-armed timer", r["witness"] if not r["pub_ok"] else None)
    for summ in common.pmap(analysis, async_worker, list(persist.EXTS)):
        q = summ["qual"]
        rows = summ["rows"]
        saw_failed_continue = False
        for r in rows:
            seq = r["seq"]
            if r["kind"] == "raise":
                res.add("C15-R1", f"{q}[{summ['ext']}] / only cancellation leaves the save loop", False, "mysensors/task.py", f"{r['exc']} escapes the save task: periodic saving stops for good", r["witness"])
                continue
            if r["kind"] == "val":
                ok = any(x.startswith("catch:CancelledError") for x in seq)
                res.add("C15-R1", f"{q}[{summ['ext']}] / only cancellation leaves the save loop", ok, "mysensors/task.py", "loop exit after CancelledError" if ok else f"the loop ends without cancellation: {seq}", r["witness"] if not ok else None)
            # between two save attempts there is a sleep; a caught save failure is followed by the sleep
            busy = False
            last_save = None
            for i, x in enumerate(seq):
                if x == "save":
                    if last_save is not None and "sleep" not in seq[last_save:i]:
                        busy = True
                    last_save = i
            res.add("C15-R1", f"{q}[{summ['ext']}] / consecutive save attempts are separated by the sleep", not busy, "mysensors/task.py", "no busy loop" if not busy else f"two save attempts without a sleep in between: {seq}", r["witness"] if busy else None)
            for i, x in enumerate(seq):
                if x.startswith("catch:") and "Cancelled" not in x:
                    rest = seq[i + 1 :]
                    cont = "sleep" in rest and ("save" in rest or "loop" in rest or any(y.startswith("catch:CancelledError") for y in rest))
                    if cont:
                        saw_failed_continue = True
                    else:
                        res.add("C15-R1", f"{q}[{summ['ext']}] / a failing save returns to the loop head", False, "mysensors/task.py", f"after {x} the path does not continue with the sleep and the next attempt: {seq}", r["witness"])
        res.add("C15-R1", f"{q}[{summ['ext']}] / a failing save returns to the loop head", saw_failed_continue, "mysensors/task.py", "a path with a caught save error continues with the sleep and the next iteration" if saw_failed_continue else "no path on which a save error is caught and the loop continues")
        res.add("C15-R2", f"{summ['sched']} / the save task's cancel is published on the tasks object", summ["published"] and summ["cancel_ok"], "mysensors/task.py", f"stored in {summ['pub_attrs']}; it cancels and awaits the task" if summ["published"] and summ["cancel_ok"] else "nothing stop() could cancel the save task with is stored on the tasks object")
    # R3: a failed attempt keeps the state marked unsaved
    from . import c12, c14

    before = len(res.obs)
    c14.flag_writers(analysis, res)
    for summ in common.pmap(analysis, c12.save_worker, [(e, (analysis.versions[-1], "serial", "sync")) for e in persist.EXTS]):
        # every clause of the atomic replace (C12-R1..R3): a failing attempt keeps the state marked unsaved
        # and leaves a loadable previous copy, the next attempt writes the then-current state
        c12.analyse_save_rows(res, summ)
    # "a failed save leaves the previous file loadable": the loader looks at what such a save leaves behind
    # (main missing, old file in .bak) - the load-side clauses of C12-R4
    persist.check_dispatch_shape(analysis)
    for summ in common.pmap(analysis, c12.load_worker, [(e, (analysis.versions[-1], "serial", "sync")) for e in persist.EXTS]):
        c12.analyse_load_rows_c12(res, summ)
    for o in res.obs[before:]:
        o.rule = "C15-R3"
    res.reindex()
    res.units = {"formats": list(persist.EXTS), "source_digest": analysis.p.digest(), "interpreter_steps": analysis.interp_steps}
    res.not_decided = ["the wall-clock period", "integrity of the old file under a concurrent insert (the dump raises RuntimeError, which is one of the modelled failure classes)"]
    res.assumptions = ["sa/extmodel.py raise sets of the file operations and of pickle.dump / json.dump (OSError, RuntimeError, PicklingError, TypeError, ValueError, AttributeError)"]
    res.trusted = ["sa/extmodel.py"]
    return res
