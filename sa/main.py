"""Command line entry: python -m sa.main <property id> [--tier quick|thorough]."""
from __future__ import annotations

import argparse
import importlib
import json
import os
import sys
import time
import traceback


def main(argv=None) -> int:
    ap = argparse.ArgumentParser(prog="check")
    ap.add_argument("prop", nargs="?")
    ap.add_argument("--tier", default=os.environ.get("VERIF_TIER", "quick"), choices=["quick", "thorough"])
    ap.add_argument("--repo", default=None, help="tree to analyse (default $VERIF_REPO or /repo)")
    ap.add_argument("--json", action="store_true", help="print the evidence JSON on stdout, no VIOLATION lines")
    ap.add_argument("--no-evidence", action="store_true")
    ap.add_argument("--no-sensitivity", action="store_true", help="thorough tier without the mutant run")
    ap.add_argument("--explain", default=None, help="print a violation report written by an earlier run")
    ap.add_argument("--selftest", action="store_true", help="developer command: regression patches and mutants, strict")
    args = ap.parse_args(argv)
    if args.explain:
        with open(args.explain, encoding="utf-8") as fh:
            rep = json.load(fh)
        print(f"property {rep['property']} rule {rep['rule']}\nconstruct: {rep['construct']}\nat {rep['where']}\n{rep['detail']}")
        for w in rep.get("witness", []):
            print("  " + w)
        return 0
    if args.repo:
        os.environ["VERIF_REPO"] = args.repo
    if args.selftest:
        from . import selftest

        return selftest.main(args.prop)
    if not args.prop:
        ap.error("property id required")
    prop = args.prop.upper()
    started = time.time()
    from .frontend import AnalysisError
    from .report import finish

    try:
        try:
            mod = importlib.import_module(f"sa.rules.{prop.lower()}")
        except ModuleNotFoundError:
            print(f"ANALYSIS-ERROR property={prop} no rule module (property not claimed)")
            return 2
        from .engine import Analysis

        analysis = Analysis()
        res = mod.run(analysis, args.tier)
        sens = None
        if args.tier == "thorough" and not args.no_sensitivity and not res.violations:
            from . import selftest

            sens = selftest.sensitivity(prop)
        return finish(res, args.tier, started, write_evidence=not args.no_evidence, selftest=sens, as_json=args.json)
    except BrokenPipeError:
        return 1
    except AnalysisError as exc:
        print(f"ANALYSIS-ERROR property={prop} {exc}")
        return 2
    except Exception as exc:  # a crash of the checker must never look like a violation
        tb = traceback.format_exc().strip().splitlines()
        print(f"ANALYSIS-ERROR property={prop} internal error: {exc!r}")
        for line in tb[-8:]:
            print("  " + line)
        return 2


if __name__ == "__main__":
    sys.exit(main())
