"""Load-time reflection of declarative data, in a child process.

The child imports the package from the tree under analysis and *inspects* the resulting
objects: IntEnum members, dict tables, the attribute structure of voluptuous validator
objects, handler registries, class MROs and __init__ signatures. It calls no function or
method defined by the package and never invokes a validator. The only repo code that runs
is what Python's import system runs to initialise a module.
"""
from __future__ import annotations

import json
import os
import subprocess
import sys

from .frontend import AnalysisError, repo_root

CHILD = r'''
import sys, json, inspect, enum, logging, importlib
logging.disable(logging.CRITICAL)
root = sys.argv[1]
sys.path.insert(0, root)
out = {"errors": []}

def fq(obj):
    mod = getattr(obj, "__module__", "?")
    qn = getattr(obj, "__qualname__", getattr(obj, "__name__", repr(obj)))
    return f"{mod}:{qn}"

def const_repr(v):
    if isinstance(v, enum.Enum):
        return {"k": "enum", "cls": type(v).__name__, "name": v.name, "value": v.value}
    if isinstance(v, (str, int, float, bool)) or v is None:
        return {"k": "const", "v": v, "t": type(v).__name__}
    return {"k": "obj", "repr": repr(v)[:80]}

def describe(v, depth=0):
    """Structural description of a voluptuous validator object (not invoked)."""
    import voluptuous as vol
    if depth > 8:
        return {"k": "deep"}
    if isinstance(v, type):
        return {"k": "type", "name": v.__name__}
    if isinstance(v, (str, int, float)) and not isinstance(v, enum.Enum):
        return {"k": "lit", "v": v, "t": type(v).__name__}
    if v is None:
        return {"k": "lit", "v": None, "t": "NoneType"}
    if isinstance(v, vol.All):
        return {"k": "All", "v": [describe(x, depth + 1) for x in v.validators]}
    if isinstance(v, vol.Any):
        return {"k": "Any", "v": [describe(x, depth + 1) for x in v.validators]}
    if isinstance(v, vol.In):
        try:
            items = [const_repr(x) for x in v.container]
        except TypeError:
            items = None
        return {"k": "In", "items": items}
    if isinstance(v, vol.Coerce):
        return {"k": "Coerce", "type": getattr(v.type, "__name__", repr(v.type))}
    if isinstance(v, vol.Range):
        return {"k": "Range", "min": v.min, "max": v.max,
                "min_included": v.min_included, "max_included": v.max_included}
    if isinstance(v, vol.Length):
        return {"k": "Length", "min": v.min, "max": v.max}
    if isinstance(v, vol.Match):
        return {"k": "Match", "pattern": getattr(v.pattern, "pattern", str(v.pattern))}
    if inspect.isfunction(v):
        return {"k": "func", "name": fq(v)}
    if isinstance(v, (list, tuple)):
        return {"k": "seq", "v": [describe(x, depth + 1) for x in v]}
    if isinstance(v, dict):
        return {"k": "dict"}
    return {"k": "other", "cls": fq(type(v))}

def enum_desc(cls):
    return {"members": [[n, m.value] for n, m in cls.__members__.items()],
            "canonical": [[m.name, m.value] for m in cls],
            "defined_in": cls.__module__,
            "bases": [b.__name__ for b in cls.__mro__]}

def keyval(k):
    return k.value if isinstance(k, enum.Enum) else k

try:
    constmod = importlib.import_module("mysensors.const")
    versions = dict(constmod.CONST_VERSIONS)
    out["const_versions"] = versions
    out["system_child_id"] = getattr(constmod, "SYSTEM_CHILD_ID", None)
except Exception as exc:
    out["errors"].append(f"import mysensors.const: {exc!r}")
    versions = {}

out["consts"] = {}
handler_mod = None
try:
    handler_mod = importlib.import_module("mysensors.handler")
except Exception as exc:
    out["errors"].append(f"import mysensors.handler: {exc!r}")

def registry_desc(reg):
    return {name: (fq(fn) if callable(fn) else repr(fn)) for name, fn in reg.items()}

out["registries"] = {}
if handler_mod is not None:
    for name, val in vars(handler_mod).items():
        if isinstance(val, dict) and type(val).__name__ == "Registry":
            out["registries"][name] = registry_desc(val)

# import every table module first: a module that mutates an imported table of an older
# version in place must be visible in the older version's description as well
for ver, modname in versions.items():
    try:
        importlib.import_module(modname)
    except Exception as exc:
        out["errors"].append(f"import {modname}: {exc!r}")

for ver, modname in versions.items():
    d = {"module": modname}
    try:
        mod = importlib.import_module(modname)
    except Exception as exc:
        out["consts"][ver] = d
        continue
    d["names"] = sorted(n for n in vars(mod) if not n.startswith("__"))
    d["enums"] = {}
    for en in ("MessageType", "Presentation", "SetReq", "Internal", "Stream"):
        cls = getattr(mod, en, None)
        if isinstance(cls, type) and issubclass(cls, enum.Enum):
            d["enums"][en] = enum_desc(cls)
    d["MAX_NODE_ID"] = getattr(mod, "MAX_NODE_ID", None)
    vmt = getattr(mod, "VALID_MESSAGE_TYPES", None)
    if isinstance(vmt, dict):
        d["VALID_MESSAGE_TYPES"] = {str(keyval(k)): [[type(m).__name__, m.name, m.value] for m in v] for k, v in vmt.items()}
        d["VALID_MESSAGE_TYPES_keytypes"] = sorted({type(k).__name__ for k in vmt})
    vp = getattr(mod, "VALID_PAYLOADS", None)
    if isinstance(vp, dict):
        d["VALID_PAYLOADS"] = {}
        for k, table in vp.items():
            rows = {}
            if isinstance(table, dict):
                for sk, val in table.items():
                    rows[str(keyval(sk))] = {"key_cls": type(sk).__name__, "key_name": getattr(sk, "name", None), "d": describe(val)}
            d["VALID_PAYLOADS"][str(keyval(k))] = rows
    vt = getattr(mod, "VALID_TYPES", None)
    if isinstance(vt, dict):
        d["VALID_TYPES"] = {str(keyval(k)): {"key_cls": type(k).__name__, "key_name": getattr(k, "name", None),
                                             "v": [[type(m).__name__, getattr(m, "name", None), keyval(m)] for m in v]} for k, v in vt.items()}
    vs = getattr(mod, "VALID_SETREQ", None)
    if isinstance(vs, dict):
        d["VALID_SETREQ"] = {str(keyval(k)): {"key_cls": type(k).__name__, "key_name": getattr(k, "name", None), "d": describe(v)} for k, v in vs.items()}
    # which registry does get_handler_registry return? (inspect the code object, do not call)
    fn = getattr(mod, "get_handler_registry", None)
    if inspect.isfunction(fn):
        src_mod = sys.modules.get(fn.__module__)
        names = [n for n in fn.__code__.co_names]
        reg = None
        for n in names:
            cand = getattr(src_mod, n, None)
            if isinstance(cand, dict) and type(cand).__name__ == "Registry":
                reg = cand
                d["registry_name"] = n
        if reg is not None:
            d["registry"] = registry_desc(reg)
        d["registry_fn"] = fq(fn)
    base = getattr(mod, "BaseConst", None)
    if isinstance(base, type):
        d["BaseConst_methods"] = sorted(n for n, v in vars(base).items() if inspect.isfunction(v))
    out["consts"][ver] = d

# classes: MRO and __init__ signatures
out["classes"] = {}
class_mods = ["mysensors", "mysensors.gateway_serial", "mysensors.gateway_tcp", "mysensors.gateway_mqtt",
              "mysensors.transport", "mysensors.task", "mysensors.sensor", "mysensors.message",
              "mysensors.persistence", "mysensors.ota"]
def sig_desc(fn):
    try:
        sig = inspect.signature(fn)
    except (TypeError, ValueError):
        return None
    res = []
    for p in sig.parameters.values():
        res.append({"name": p.name, "kind": p.kind.name,
                    "default": (None if p.default is inspect._empty else repr(p.default)),
                    "has_default": p.default is not inspect._empty})
    return res
for mn in class_mods:
    try:
        mod = importlib.import_module(mn)
    except Exception as exc:
        out["errors"].append(f"import {mn}: {exc!r}")
        continue
    for name, val in vars(mod).items():
        if isinstance(val, type) and getattr(val, "__module__", "").startswith("mysensors"):
            key = fq(val)
            if key in out["classes"]:
                continue
            init = vars(val).get("__init__")
            out["classes"][key] = {
                "mro": [fq(c) for c in val.__mro__],
                "own_init": sig_desc(init) if inspect.isfunction(init) else None,
                "props": sorted(n for n, v in vars(val).items() if isinstance(v, property)),
                "prop_setters": sorted(n for n, v in vars(val).items() if isinstance(v, property) and v.fset is not None),
                # effective line framing of protocol classes (class attributes resolved through the MRO, read only)
                "framing": ({a: repr(getattr(val, a, None)) for a in ("TERMINATOR", "ENCODING", "UNICODE_HANDLING")} if hasattr(val, "TERMINATOR") else None),
                "defined_in": {m: next((fq(c) for c in val.__mro__ if m in vars(c)), None) for m in ("data_received", "handle_packet", "handle_line", "write_line", "connection_made", "connection_lost", "add_job", "run_job", "recv", "send")},
            }
json.dump(out, sys.stdout)
'''


_CACHE = {}


def reflect(root: str | None = None) -> dict:
    root = root or repo_root()
    if root in _CACHE:
        return _CACHE[root]
    py = "/venv/bin/python" if os.path.exists("/venv/bin/python") else sys.executable
    env = dict(os.environ)
    env["PYTHONDONTWRITEBYTECODE"] = "1"
    env.pop("PYTHONPATH", None)
    try:
        proc = subprocess.run(
            [py, "-I", "-c", CHILD, root], capture_output=True, text=True, timeout=60, env=env, cwd="/"
        )
    except subprocess.TimeoutExpired as exc:
        raise AnalysisError("reflection child timed out") from exc
    if proc.returncode != 0:
        raise AnalysisError(f"reflection child failed (the tree does not import): {proc.stderr.strip()[-600:]}")
    try:
        data = json.loads(proc.stdout)
    except json.JSONDecodeError as exc:
        raise AnalysisError(f"reflection child produced no JSON: {proc.stdout[:200]!r} {proc.stderr[-300:]!r}") from exc
    if data.get("errors"):
        raise AnalysisError("reflection: " + "; ".join(data["errors"]))
    _CACHE[root] = data
    return data
