#!/usr/bin/env python3
"""Confirm a sub-agent's seeded change and keep it under /verif/seeded/<id>/ (developer tool).

usage: keep_seed.py <out dir> <seed id> <property> [extra properties to run]
"""
import json, os, re, shutil, subprocess, sys

VERIF = os.path.dirname(os.path.dirname(os.path.abspath(__file__)))
src, sid, prop = sys.argv[1], sys.argv[2], sys.argv[3]
extra = sys.argv[4:]
dst = os.path.join(VERIF, "seeded", sid)
os.makedirs(dst, exist_ok=True)
shutil.copy(os.path.join(src, "patch.diff"), os.path.join(dst, "patch.diff"))
demo = "demo_test.py" if os.path.exists(os.path.join(src, "demo_test.py")) else "demo.py"
text = open(os.path.join(src, demo), encoding="utf-8").read()
# demonstrations must not depend on the scratch worktree they were written in
text = re.sub(r"^(\s*)assert .*__file__.*seedwork.*$", r"\1pass  # (worktree path assertion removed)", text, flags=re.M)
text = re.sub(r"/tmp/seedwork/wt[23456]?-C\d+", ".", text)
open(os.path.join(dst, demo), "w", encoding="utf-8").write(text)
if os.path.exists(os.path.join(src, "notes.md")):
    shutil.copy(os.path.join(src, "notes.md"), os.path.join(dst, "notes.md"))
out = subprocess.run([sys.executable, os.path.join(VERIF, "tools", "eval_seed.py"), dst, prop] + extra, capture_output=True, text=True).stdout
res = json.loads(out[out.index("{"):])
notes = open(os.path.join(dst, "notes.md"), encoding="utf-8").read() if os.path.exists(os.path.join(dst, "notes.md")) else ""
meta = {
    "id": sid,
    "property": prop,
    "source": "independent sub-agent given only the property record and a scratch worktree (nothing from /verif)",
    "confirmed": {
        "patch_applies_to": subprocess.run(["git", "-C", "/repo", "rev-parse", "--short", "HEAD"], capture_output=True, text=True).stdout.strip(),
        "existing_suite_with_change": res.get("suite"),
        "demo_without_change": res.get("demo_without"),
        "demo_with_change": res.get("demo_with"),
        "commands": ["git -C <scratch worktree> apply patch.diff", "/venv/bin/python -m pytest -q -p no:cacheprovider   (in the worktree)", f"/venv/bin/python -m pytest -q -p no:cacheprovider {demo}   |   PYTHONPATH=<worktree> /venv/bin/python {demo}", "./check <property> --repo <worktree>"],
    },
    "needs_to_manifest": "see notes.md",
    "checks": {p: {"exit": v["exit"], "reported": [l.strip() for l in v["lines"] if "rule" in l or "ANALYSIS" in l][:4]} for p, v in res["props"].items()},
}
json.dump(meta, open(os.path.join(dst, "meta.json"), "w"), indent=1)
ok = res.get("suite_ok") and res.get("demo_without") == "pass" and res.get("demo_with") == "fails"
print(sid, "CONFIRMED" if ok else "NOT-CONFIRMED", {p: v["exit"] for p, v in res["props"].items()}, res.get("suite"), res.get("demo_without")[:40], res.get("demo_with"))
