#!/usr/bin/env python3
"""Evaluate a seeded change produced by a sub-agent (developer tool, not a registered check).

usage: eval_seed.py <dir with patch.diff + demo_test.py|demo.py> <property id> [more property ids]

1. fresh scratch worktree of /repo HEAD, apply the patch, run the full test suite (must pass);
2. run the demonstration with the patch (must fail) and without (must pass);
3. run ./check <property> --repo <patched tree> and report the verdict;
4. remove the worktree.
Prints a JSON summary on the last line.
"""
import json
import os
import shutil
import subprocess
import sys
import tempfile

VERIF = os.path.dirname(os.path.dirname(os.path.abspath(__file__)))
PY = "/venv/bin/python"


def sh(cmd, cwd=None, env=None, timeout=900):
    p = subprocess.run(cmd, cwd=cwd, env=env, capture_output=True, text=True, timeout=timeout)
    return p.returncode, (p.stdout + p.stderr)


def run_demo(wt, seed_dir):
    env = dict(os.environ, PYTHONPATH=wt, PYTHONDONTWRITEBYTECODE="1")
    if os.path.exists(os.path.join(seed_dir, "demo_test.py")):
        shutil.copy(os.path.join(seed_dir, "demo_test.py"), os.path.join(wt, "demo_test.py"))
        rc, out = sh([PY, "-m", "pytest", "-q", "-p", "no:cacheprovider", "demo_test.py"], cwd=wt, env=env)
        os.remove(os.path.join(wt, "demo_test.py"))
    else:
        shutil.copy(os.path.join(seed_dir, "demo.py"), os.path.join(wt, "demo_seed.py"))
        rc, out = sh([PY, "demo_seed.py"], cwd=wt, env=env)
        os.remove(os.path.join(wt, "demo_seed.py"))
    return rc, out[-600:]


def main():
    seed_dir = os.path.abspath(sys.argv[1])
    props = sys.argv[2:]
    patch = os.path.join(seed_dir, "patch.diff")
    wt = tempfile.mkdtemp(prefix="seed-eval.")
    os.rmdir(wt)
    res = {"seed": seed_dir, "props": {}}
    try:
        rc, out = sh(["git", "-C", "/repo", "worktree", "add", "-q", "--detach", wt, "HEAD"])
        if rc:
            raise RuntimeError(out)
        rc0, out0 = run_demo(wt, seed_dir)
        res["demo_without"] = "pass" if rc0 == 0 else f"FAIL({rc0}): {out0[-300:]}"
        rc, out = sh(["git", "-C", wt, "apply", patch])
        res["applies"] = rc == 0
        if rc:
            res["apply_error"] = out[-300:]
            print(json.dumps(res))
            return
        rc, out = sh([PY, "-m", "pytest", "-q", "-p", "no:cacheprovider"], cwd=wt)
        res["suite"] = out.strip().splitlines()[-1] if out.strip() else f"rc {rc}"
        res["suite_ok"] = rc == 0
        rc1, out1 = run_demo(wt, seed_dir)
        res["demo_with"] = "fails" if rc1 != 0 else "PASSES (demo does not detect the change)"
        for prop in props:
            rc, out = sh([os.path.join(VERIF, "check"), prop, "--repo", wt, "--no-evidence"], cwd=VERIF)
            lines = [l for l in out.splitlines() if l.startswith(("VIOLATION", "  rule", "ANALYSIS-ERROR", "OK "))]
            res["props"][prop] = {"exit": rc, "lines": lines[:8]}
    finally:
        sh(["git", "-C", "/repo", "worktree", "remove", "--force", wt])
        shutil.rmtree(wt, ignore_errors=True)
    print(json.dumps(res, indent=1))


if __name__ == "__main__":
    main()
