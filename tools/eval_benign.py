#!/usr/bin/env python3
"""Run every claimed check on a scratch copy of /repo with one (supposedly benign) patch applied.
usage: eval_benign.py <patch.diff> [property ids...]   (developer tool)"""
import json, os, shutil, subprocess, sys, tempfile
VERIF = os.path.dirname(os.path.dirname(os.path.abspath(__file__)))
patch = os.path.abspath(sys.argv[1])
props = sys.argv[2:] or [c["property_id"] for c in json.load(open(os.path.join(VERIF, "MANIFEST.json")))["checks"]]
wt = tempfile.mkdtemp(prefix="benign-eval."); os.rmdir(wt)
subprocess.run(["git", "-C", "/repo", "worktree", "add", "-q", "--detach", wt, "HEAD"], check=True)
try:
    r = subprocess.run(["git", "-C", wt, "apply", patch], capture_output=True, text=True)
    if r.returncode:
        print("PATCH DOES NOT APPLY", r.stderr[-200:]); sys.exit(3)
    t = subprocess.run(["/venv/bin/python", "-m", "pytest", "-q", "-p", "no:cacheprovider"], cwd=wt, capture_output=True, text=True)
    print("suite:", (t.stdout.strip().splitlines() or ["?"])[-1])
    bad = 0
    procs = {p: subprocess.Popen([os.path.join(VERIF, "check"), p, "--repo", wt, "--no-evidence"], cwd=VERIF, stdout=subprocess.PIPE, stderr=subprocess.STDOUT, text=True, env=dict(os.environ, VERIF_JOBS="4")) for p in props}
    for p, pr in procs.items():
        out = pr.communicate()[0]
        if pr.returncode != 0:
            bad += 1
            print(f"{p}: exit {pr.returncode}")
            for l in out.splitlines():
                if l.startswith(("  rule", "ANALYSIS-ERROR", "  at")):
                    print("   ", l[:230])
    print("ALL SILENT" if not bad else f"{bad} check(s) not silent")
finally:
    subprocess.run(["git", "-C", "/repo", "worktree", "remove", "--force", wt])
    shutil.rmtree(wt, ignore_errors=True)
