#!/bin/bash
# usage: tryseed.sh <seed id> <property...>  -- run checks against a scratch copy with the seeded patch applied (developer tool)
d=$(/verif/selftest/mkvariant.sh /verif/seeded/$1/patch.diff); shift
for p in "$@"; do /verif/check $p --repo $d --no-evidence 2>&1 | grep -v "^  ok\|^OK " | head -${LINES_MAX:-25}; done
rm -rf $d
