#!/usr/bin/env python3
"""Regenerate MANIFEST.json from the table below (keeps it valid while checks are added)."""
import json
import os

VERIF = os.path.dirname(os.path.dirname(os.path.abspath(__file__)))

CLAIMED = {
    "C01": dict(
        technique="path-sensitive abstract interpretation over the AST (exception-escape analysis with must-facts, inlined call graph), plus invariant scans",
        text="Static exception-escape analysis: for every pump root (Gateway.logic under each protocol version x gateway family x flavour, the three transport send methods, the poll loop, the inbound adapters) no abstract path with all repo callees inlined ends in an exception, and every effect in Gateway.logic is dominated by successful validation against the gateway's own protocol version. Covers all inputs and histories by construction (states are constrained only by invariants proved over all writers), at the level of exception classes of the external raise model.",
        note="Trusted: sa/extmodel.py (documented raise sets of stdlib / voluptuous / pyserial calls), assumptions A-STR-IN, A-UNICODE, A-VERSION, A-FLOOR, A-CLOSE, A-TASKS, A-HUMANIZE, A-OTA-RANGE, lemmas LEMMA-COPY (needs C02-R1, re-checked) and LEMMA-VALIDATED (needs C03-R1). Not decided: liveness of the OS thread, MemoryError/RecursionError, API misuse with non-int ids.",
        ref="DESIGN.md section 4 C01",
    ),
    "C02": dict(
        technique="template extraction from the encoder's return expression and the decoder's split/bind statements (AST), set/sequence equality",
        text="Decides one structural clause only: encoder, decoder, constructor and copy() agree on the frame layout (six fields in the same order, same delimiter, payload last, int() on the five header fields, exactly one newline, failure path returns None). A necessary condition of the round trip; value-level equality over all integer spellings and Unicode payloads is not a static fact and is not claimed.",
        note="An encoder/decoder written in a form the template evaluator does not know is reported as ANALYSIS-ERROR (exit 2), not as a violation.",
        ref="DESIGN.md section 4 C02",
    ),
    "C03": dict(
        technique="exhaustive table checks over reflected enum / validator tables (descriptor normal forms vs a reviewed reference), exact abstract evaluation of Message.validate per header case, AST body rules for the function validators",
        text="Exhaustive over the finite product the property quantifies over at the rule level: for each of the 5 versions every command has its sub-type list, every defined sub-type a payload rule (853 rows), every presentation type a child schema (182) whose value types have rules; defined values only grow; every rule, reduced to an acceptance normal form, equals the reviewed serial-API reference table; the header validators Message.validate builds for every (command, sub-type class, child class) accept exactly the integer sets of the statement on -2..300 (1260 field cases); the five function validators satisfy their body rules and raise nothing but vol.Invalid/ValueError.",
        note="Trusted: voluptuous combinator semantics as encoded in sa/descr.py (All/Any/In/Range/Coerce), the reviewed reference table sa/spec/c03_payload_rules.json, reflection (import only; no validator is invoked). Not decided: the language accepted by int()/float() themselves.",
        ref="DESIGN.md section 4 C03",
    ),
    "C04": dict(
        technique="who-may-call tables over the syntax tree plus trace predicates over all abstract paths of Gateway.logic (path-sensitive interpretation): insertion guards, provenance of stored keys/values, alert discipline",
        text="Structural clauses that make the tree mirror the accepted messages by construction, decided on every abstract handler path for all versions / gateway families: nodes and children are inserted only by the message kinds of the statement, only under `key not in map`, under the inbound message's own ids; values and node attributes are written only by the message kind that reports them, from that message's sub-type/payload (plain overwrite); a persisted mutation is followed by exactly one alert(inbound msg) and none precedes it; alert() isolates the callback and the three setters are total with fallbacks 0 / '1.4' / 0. Histories are covered by induction over writers. Lock-step equality with a reference model is not decided.",
        note="Trusted: sa/effects.py store classification (derived from the JSON encoder), sa/extmodel.py. The who-may-call tables are frozen from the statement; a new legitimate writer added by a refactoring would be reported and has to be reviewed.",
        ref="DESIGN.md section 4 C04",
    ),
    "C14": dict(
        technique="trace predicates over all abstract paths of Gateway.logic, Gateway.alert and the two stop() methods (path-sensitive interpretation), plus a who-may-write scan of the dirty flag",
        text="On every abstract path of every registry handler (all versions, MQTT/TCP overrides) a persisted mutation is followed by alert(); every path through alert() stores need_save = True unless persistence is off, including the path where the callback raised; both stop() methods, with persistence on, disconnect, cancel a pending save and then call save_sensors exactly once on every path; the flag is cleared only by save_sensors - once, before the state is read (a report handled by the pump thread during the write marks it again; D15), set again on every failing path, untouched by a skipped save - a save is skipped only when the state is clean or the location not writable, and the skip test reads only the flag.",
        note="Trusted: sa/effects.py (persisted projection = keys the JSON encoder writes + map insertions), sa/extmodel.py. The lost-update window on the dirty flag is decided as an ordering fact (no clearing store after the dump has begun). Not decided: two overlapping saves (a final save starting while a periodic one is still writing).",
        ref="DESIGN.md section 4 C14",
    ),
    "C07": dict(
        technique="who-may-send rule: sink enumeration over the syntax tree plus classification of every sink event on every abstract path from the must-facts at that point; path analysis of the router",
        text="Every outbound sink (11 sites: add_job call sites, transport.send sites, the return of Gateway.logic) is classified on every abstract path of Gateway.logic (all versions / families / flavours) and of set_child_value / check_connection as ROUTED, NOT-SLEEPING, FLUSH-to-the-waking-node, GATEWAY-ADDRESSED, INBOUND-DISPATCH, PUMP or RAW-API; an unclassifiable or new sink is a violation. All paths of _route_message return a message only for an unknown / awake node or a stream message and otherwise append its encoding to the queue of the same node the sleeping test read. The hold queue is popped only by the flush, which is entered exactly from the wake-up announcement of each version for a known node. The rule is per message and therefore independent of arrival order.",
        note="Trusted: must-facts of sa/interp.py, INV-KEY-ID (sensors[k].sensor_id == k, checked by C01-INV). The public Gateway.send() is the documented raw escape hatch and is classified RAW-API. Not decided: timing of the burst.",
        ref="DESIGN.md section 4 C07",
    ),
    "C08": dict(
        technique="access-kind scan of the two queues (AST) and trace predicates over all abstract paths of the flush, update_child_value, get_desired_value and set_child_value",
        text="Structural clauses of ordered exactly-once delivery: both queues are append/popleft only; on every abstract path the flush drains the hold queue until empty, enqueues each popped reply exactly once in pop order and strictly before the desired-value commands, and builds one set command per reported value type from the iterated child, that type and the pending desired value (None skipped); a reported value clears exactly the desired entry of the same (child, value type) and nothing else clears one; value requests answer the pending desired value before the reported one; a desired value is recorded only after the flush's own constructor built and validated the command for the same arguments (accepted implies deliverable), and neither the flush nor the lookup can raise.",
        note="Counting over arbitrary histories (exactly-once as a global count) is not decided; the clauses are the per-step invariants from which it follows by induction. Trusted: sa/extmodel.py deque/dict models.",
        ref="DESIGN.md section 4 C08",
    ),
    "C05": dict(
        technique="trace predicates over all abstract paths of Gateway.logic: shape of the handler result per dispatched (command, sub-type) against the prescribed reply table; descriptor acceptance of constant payloads; AST rule for the presentation request",
        text="Reply construction, decided on every abstract path for all versions / families / flavours: for each dispatched (command, sub-type) the handler result is None or a copy of the request with exactly the prescribed fields replaced by the prescribed values (set + stored/desired value for req; M/I selected by the metric flag; timegm for time; id response carrying the id reserved on that path; broadcast discover for gateway-ready from 2.0; reboot only under the reboot flag; firmware responses), everything else is silent; replies inherit the request's node id, the only override is broadcast 255; the presentation request goes to the looked-up node, child 255, once, from 2.0 only; every constructed reply's (command, sub-type) is defined in the version and constant payloads satisfy that version's payload rule.",
        note="Not decided: which value is the latest as a function of the history, the clock. The reply table is taken from the property statement. Trusted: sa/descr.py acceptance of constants, reflection.",
        ref="DESIGN.md section 4 C05",
    ),
    "C06": dict(
        technique="path analysis of the allocator (freshness-by-construction forms, dominating bound check), reserve-before-reply dataflow on all id-request paths, no-removal scan, table agreement with the I_ID_RESPONSE rule",
        text="Every non-None return of the allocator is fresh by construction (max of the known ids + k over a non-empty map, a constant >= 1 on the empty map, or dominated by `not in`) and dominated by id <= MAX_NODE_ID = 254 = upper bound of every version's I_ID_RESPONSE rule; on every path of the id-request handler the id in the response is the key inserted into the node map on that path (no insertion, no response); nothing removes keys from the node map; the reservation is followed by alert() (dirty) and the loader restores integer keys, so the allocator's memory survives a clean restart.",
        note="An allocator written in a form other than the three recognised freshness arguments is reported as a violation of R1 (not fresh by any recognised argument). Uniqueness under direct user edits of gateway.sensors is outside the claim.",
        ref="DESIGN.md section 4 C06",
    ),
    "C09": dict(
        technique="AST layout rules (struct formats, word counts, block-size symbol uses, def-use in prepare_fw), dataflow of the packed words on all replying abstract paths of the two responders, arithmetic evaluation of the padding over all 128 residues",
        text="Layout / dataflow clauses only: both directions use little-endian unsigned 16-bit words in hex text; the config request is unpacked into 5 words and the block request into 3; on every replying path the config response packs (type, version, blocks, crc) of the session's firmware in that order and the block response echoes the request's own type, version and block index followed by the data cut as [i*S : i*S+S] from the record; divisor, stride and width are the same block-size symbol (16); the record stores, checksums and counts the same padded value; the padding makes every length a multiple of 128 with at most one page of 0xFF for all 128 residues.",
        note="CRC-16/MODBUS correctness (crcmod), Intel-HEX decoding (intelhex) and equality of the concatenated blocks with the image are numerical / round-trip statements and are NOT decided. If the padding is not in the recognised form the R4 clause is reported as not decided in the evidence.",
        ref="DESIGN.md section 4 C09",
    ),
    "C10": dict(
        technique="typestate extraction from all abstract paths of respond_fw_config / respond_fw / make_update (which session store is consulted, popped and written in which order), who-may-write scans for `requested` and the reboot flag, handler-path check of the stream guard",
        text="Typestate clauses of the OTA session: nodes enter `requested` only through make_update, for a known node and existing firmware; the config responder consults (requested, unstarted) in order and moves the node to unstarted, never touching started; the block responder consults (unstarted, started), moves to started, never touching requested; a response needs a store hit and a firmware record and is a copy of the request with the response sub-type; make_update removes the node from unstarted and started before scheduling (restart) and sets the reboot flag, which only node presentation and the constructors clear; the payload parse precedes every session mutation and its failure returns None leaving the session untouched; responders run only for a known node of a stream message.",
        note="Conformance of all interleavings to a reference automaton is not decided; out-of-range block indices are not decided. A-OTA-RANGE as in C01.",
        ref="DESIGN.md section 4 C10",
    ),
    "C11": dict(
        technique="sibling agreement over the syntax tree: constructor attribute sets vs JSON encoder keys vs __setstate__ reset list vs __getstate__ renames vs decoder recognisers",
        text="Table-agreement clauses for both formats: Sensor's constructor attributes = JSON encoder keys + exactly the transient set {new_state, queue, reboot}; __setstate__ resets exactly that set, to the constructor's initial expressions, unconditionally after the restore loop; __getstate__ renames exactly the private attributes that sit behind a property with a setter (so both formats persist the same projection under the same names); ChildSensor's constructor attributes = encoder keys; every encoded key is restored through a name the class accepts; the decoder's recognisers use encoder keys, are mutually exclusive, and integer keys are restored after them.",
        note="Value-level exactness (Unicode, JSON number/str fidelity) and equality of the two formats on actual states are not decided. The transient set is taken from the property statement.",
        ref="DESIGN.md section 4 C11",
    ),
    "C12": dict(
        technique="trace predicates over all abstract paths (normal and one exceptional path per fallible file operation) of save_sensors and safe_load_sensors for both formats, with the name-pattern dispatch resolved; open-mode scan",
        text="The temp-write / fsync / move-aside / move-in / drop-old protocol is decided on every path: only the temp name (different from main and backup) is opened for writing; dump, flush, fsync(fileno) happen in that order on the same handle inside the with block; every rename/remove follows the completed temp write; the temp file is moved onto the main file exactly once; a move-aside of the old main precedes it and the backup's removal follows it, both under one condition; nothing else is removed; the dirty flag is cleared once before the state is read and on every path where a file operation fails it is set again and the error propagates; a write error is not swallowed before the move-in; a lock taken by the save is released on every exit; the tested directory comes from an absolute path; saving does not update the live map; the loader tries the backup exactly when the main load failed and promotes it by rename before reading. Under this protocol every crash point leaves a complete old or new file.",
        note="Assumed: POSIX rename atomicity; durability of renames without a directory fsync and Windows rename-over-existing are not decided. The protocol is stated over the operations that exist, so an equivalent protocol (one os.replace) passes.",
        ref="DESIGN.md section 4 C12",
    ),
    "C13": dict(
        technique="exception-escape analysis of safe_load_sensors for both formats against the documented raise sets of pickle.load / json.load; decode-before-apply and fallback predicates over the same paths",
        text="No documented content-error class of either decoder (pickle: UnpicklingError, EOFError, AttributeError, ImportError, IndexError, ValueError; json: JSONDecodeError, UnicodeDecodeError) can escape safe_load_sensors, for the main and for the backup attempt, and no handler re-raises; the sensor map is mutated only by one update() of a completed decode (no partial merge, nothing applied on a failing path); a damaged backup is removed and not retried, leaving an empty network.",
        note="Exceptions outside the documented sets (crafted pickles) and valid JSON of the wrong shape are not decided; OSError is treated as an environment fault, not a content error.",
        ref="DESIGN.md section 4 C13",
    ),
    "C15": dict(
        technique="exceptional-path analysis of the two scheduler closures with save_sensors inlined (must-pass-through the re-arm on every path; loop-exit analysis of the asyncio task)",
        text="Threaded flavour: on every path through schedule_save - normal, and exceptional for every error class any file operation or the dump can raise in the external model, for both formats - exactly one Timer whose target is the closure itself is constructed and started after the save attempt and its cancel is published to _cancel_save; no exception escapes. Asyncio flavour: no path leaves the save loop except through CancelledError; a failing save is caught, followed by the sleep and the next iteration (no busy loop); the task's cancel is published.",
        note="The period is reported, not judged. Integrity of the old file under a concurrent insert is covered as the RuntimeError failure class of the dump together with C12-R1/R3.",
        ref="DESIGN.md section 4 C15",
    ),
    "C16": dict(
        technique="lockset scan of the shared connection fields, load counting and trace predicates over all abstract paths of Transport.send / Transport.disconnect, access-kind scan of the job queue",
        text="Discipline clauses that make every interleaving safe: the fields Transport.protocol and <protocol>.transport are written by the reader thread without the sender's lock (racy), so in send and disconnect each of them must be loaded at most once per path (snapshot into locals), also inside the error handler; every path of send performs at most one write, whose OSError is caught, followed by exactly one close and one reconnect trigger and no retry; nothing escapes send; disconnect clears the protocol on every path; the job queue is append / popleft only with the pump as single consumer and senders serialised under the transport lock.",
        note="Real interleavings are not executed; partial writes on a non-blocking socket and fairness are not decided. A-CLOSE: close() of a transport object does not raise.",
        ref="DESIGN.md section 4 C16",
    ),
    "C17": dict(
        technique="AST template rules tied to the C02 frame template, path analysis of parse_mqtt_to_message (ack level vs QoS facts, prefix comparison, length guard), sibling comparison of the two subscription generators, escape analysis of handle_subscription",
        text="Structural clauses of the topic mapping: command -> topic renders the five header fields of the frame template with '/', carries the payload separately and returns ack as QoS; every path of topic -> command that yields a command takes the last five levels, stores '1' at the ack level exactly when QoS > 0, appends the payload, joins with ';', and is dominated by a length guard and by equality of the positionally recovered prefix (everything before the last five levels; no first-occurrence search) with the configured inbound prefix; subscription templates have five levels, cover presentation and internal by their numeric values in every version, and the per-child family {set, req} x child + stream x node is generated identically for restored and new children, only after an accepted child presentation; a raising subscribe / publish callback never escapes.",
        note="Broker-side wildcard semantics, payload fidelity and the value-level round trip are not decided.",
        ref="DESIGN.md section 4 C17",
    ),
    "C18": dict(
        technique="abstract interpretation of the cooperative __init__ chain of each gateway class with symbolic option values (argument binding along the MRO, dataflow of each option to its destination attribute); keyword extraction at in-repo call sites; dataflow of the module path through get_const; disallowed-comparison rule for version ordering",
        text="Option threading: for each of the six gateway classes the whole constructor chain is interpreted with all documented options at once, with none, and with each option alone (frames treat names independently, so this covers every subset): no TypeError is raised and every option value reaches its destination attribute unchanged (transport timeout / reconnect timeout / prefixes / retain / callbacks, gateway callback / port / baud / server address, persistence object and file, sanitised protocol version); the prefixes and retain are honoured downstream (positional prefix comparison in the topic parser, in_prefix + template subscriptions, out_prefix + topic and retain in publish); every in-repo constructor call site passes only accepted keywords. Version selection: the table module get_const returns is, on every path, the floor-search result for this very version string (or a cache keyed by the parameter itself), the version tables / sanitiser call sites have the expected shape, and version strings are never ordered by raw AwesomeVersion comparison outside the sanitiser - table selection and the 2.0 feature guard use the numeric section comparison helper (this rule found defect D11: '2.0.0' selected the 1.5 tables).",
        note="Not decided: the numeric outcome of the floor rule for every version string (a value-level statement); the structural clauses above are necessary conditions of it.",
        ref="DESIGN.md section 4 C18",
    ),
    "C20": dict(
        technique="sibling agreement by path analysis: connection_lost / connection_made resolved through the MRO of every protocol class and interpreted for exc None / set; the four connect loops interpreted with every modelled failure class; AST order rules for stop()",
        text="For every protocol class, every path of connection_lost calls on_conn_lost(gateway, exc) exactly once when set, triggers the reconnect callback exactly once iff exc is truthy and clears the transport; connection_made calls on_conn_made exactly once; in each of the four connect loops every failing attempt (SerialException, timeout, OSError) sleeps transport.reconnect_timeout and retries, success leaves the loop, nothing but cancellation escapes, the threaded loops re-test transport.protocol and the asyncio loops re-raise CancelledError; both stop() methods disconnect first; the asyncio stop cancels the connect task; send tests the connection first; the TCP watchdog has the stated structure (drop after last answer + 2 x reconnect_timeout, probe every reconnect_timeout, answers restart the disconnect timer, a new connection restarts both timers, the watchdog's OSError ends the connection in both flavours).",
        note="The two-sided timing guarantee of the TCP watchdog, exactly-once under arbitrary event sequences and a raising user callback on the reader thread are not decided.",
        ref="DESIGN.md section 4 C20",
    ),
    "C19": dict(
        technique="reflection of MRO-resolved class attributes and method owners of the protocol classes; path analysis of the TCP reader loop, handle_line, both add_job variants and the pump; sibling comparison of the two flavours",
        text="Decides structural necessary conditions only, NOT the differential statement (equal state and output for every segmentation of every byte stream and for both flavours): framing is pyserial's with effective terminator b'\\n' and utf-8 replacement decoding for every protocol class (a repo override of data_received / handle_packet must hand its unchanged argument to the inherited method exactly once on every path); the TCP reader loop - the only repo-owned chunk hand-over - passes every received chunk unchanged, once, in order; handle_line is one function for the threaded and asyncio protocol of a family (or their path summaries agree), keeps no state and only enqueues (gateway.logic, (line,)); deferred and inline job execution agree (threaded add_job: append the pair from other threads, run at once from the pump thread - D16 -; pump: pop, run once, send exactly that reply; asyncio add_job: run once, send exactly that reply; a line that adds jobs has no reply of its own); both MQTT flavours share one recv that enqueues logic with the mapped command.",
        note="Not decided: the equality of behaviours itself, pyserial's Packetizer / LineReader and the pyserial / asyncio reader loops (external), FIFO order (C16-R4). Each rule fires only on an edit that changes what is framed, decoded, handed over, enqueued, run or sent; benign twins (delegating data_received override, `if reply:` before send, local aliases) are silent in the self-test.",
        ref="DESIGN.md section 4 C19",
    ),
}

NOT_APPLICABLE = {
}

PENDING_REASON = "rule not built yet (work in progress; see DESIGN.md section 9)"


def main():
    props = [json.loads(l) for l in open(os.path.join(VERIF, "properties.jsonl"))]
    checks = []
    na = []
    for p in props:
        pid = p["id"]
        if pid in CLAIMED:
            c = CLAIMED[pid]
            checks.append({
                "property_id": pid,
                "quick_cmd": f"./check {pid} --tier quick",
                "thorough_cmd": f"./check {pid} --tier thorough",
                "evidence_file": f"/verif/evidence/{pid}.json",
                "replay_cmd_template": "./check --explain {path}",
                "engine": "sa",
                "level_claimed": {"category": "other", "text": c["text"], "design_ref": c["ref"]},
                "level_note": c["note"],
                "technique": c["technique"],
            })
        else:
            na.append({"property_id": pid, "reason": NOT_APPLICABLE.get(pid, PENDING_REASON)})
    manifest = {
        "version": 1,
        "setup_cmd": "true",
        "hooks": {
            "guard": "PYMYSENSORS_VERIF",
            "enable": "not needed: the checks are static and read /repo's working tree; no instrumentation exists in /repo",
            "baseline_off_cmd": "cd /repo && /venv/bin/python -m pytest -ra -q -p no:cacheprovider --timeout=900 --continue-on-collection-errors",
            "source_commits": [],
            "add_only": True,
        },
        "engines": [{
            "name": "sa",
            "path": "/verif/sa",
            "serves_properties": sorted(CLAIMED),
            "kind_free_text": "repository-specific static analyser: ast front end, load-time reflection of declarative tables, path-sensitive abstract interpreter with exceptional paths and event traces, per-property rule modules (sa/rules)",
        }],
        "checks": checks,
        "notes": "Static analysis only. Exit 0 = all obligations discharged; exit 1 + VIOLATION lines = a construct violates a rule; exit 2 + ANALYSIS-ERROR = the analyser could not decide (vanished anchor / unknown idiom). Known findings: /verif/known_findings.txt (all entries are `fixed:`).",
        "not_applicable": na,
    }
    with open(os.path.join(VERIF, "MANIFEST.json"), "w") as fh:
        json.dump(manifest, fh, indent=1)
        fh.write("\n")
    print(f"claimed {len(checks)}, not applicable {len(na)}")


if __name__ == "__main__":
    main()
