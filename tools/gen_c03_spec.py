#!/usr/bin/env python3
"""Freeze the payload-rule reference table from a reviewed tree (developer tool, not run by checks)."""
import json, os, sys
sys.path.insert(0, os.path.dirname(os.path.dirname(os.path.abspath(__file__))))
from sa.reflect import reflect
from sa.descr import norm
r = reflect(os.environ.get("VERIF_REPO", "/repo"))
spec = {"payload": {}, "setreq": {}, "types": {}, "enums": {}}
for ver, c in r["consts"].items():
    spec["payload"][ver] = {t: {s: norm(row["d"]) for s, row in rows.items()} for t, rows in c["VALID_PAYLOADS"].items()}
    spec["setreq"][ver] = {s: norm(row["d"]) for s, row in c["VALID_SETREQ"].items()}
    spec["types"][ver] = {p: sorted(m[2] for m in row["v"]) for p, row in c["VALID_TYPES"].items()}
    spec["enums"][ver] = {e: sorted({v for _n, v in d["members"]}) for e, d in c["enums"].items()}
json.dump(spec, open(os.path.join(os.path.dirname(os.path.dirname(os.path.abspath(__file__))), "sa", "spec", "c03_payload_rules.json"), "w"), indent=0, sort_keys=True)
# summary for review
from collections import Counter
for ver in spec["payload"]:
    cnt = Counter()
    for t, rows in spec["payload"][ver].items():
        for s, d in rows.items():
            cnt[json.dumps(d)] += 1
    print(ver, sum(cnt.values()), "rows")
    for d, n in cnt.most_common():
        print("   ", n, d)
