#!/usr/bin/env python3
"""Re-confirm kept seeded changes against the current /repo HEAD (after a fix commit moved the code a patch touches):
suite passes with the change, the demonstration fails with it and passes without; refresh meta.json (developer tool).
usage: reconfirm_seed.py <seed id> ..."""
import json, os, subprocess, sys
VERIF = os.path.dirname(os.path.dirname(os.path.abspath(__file__)))
head = subprocess.run(["git", "-C", "/repo", "rev-parse", "--short", "HEAD"], capture_output=True, text=True).stdout.strip()
for sid in sys.argv[1:]:
    d = os.path.join(VERIF, "seeded", sid)
    m = json.load(open(os.path.join(d, "meta.json")))
    props = list(m.get("checks", {m["property"]: 0})) or [m["property"]]
    out = subprocess.run([sys.executable, os.path.join(VERIF, "tools", "eval_seed.py"), d] + props, capture_output=True, text=True).stdout
    res = json.loads(out[out.index("{"):])
    ok = res.get("suite_ok") and res.get("demo_without") == "pass" and res.get("demo_with") == "fails"
    if m["confirmed"].get("patch_applies_to") != head:
        m["confirmed"]["ported_from"] = m["confirmed"].get("patch_applies_to")
    m["confirmed"].update({"patch_applies_to": head, "existing_suite_with_change": res.get("suite"), "demo_without_change": res.get("demo_without"), "demo_with_change": res.get("demo_with")})
    m["checks"] = {p: {"exit": v["exit"], "reported": [l.strip() for l in v["lines"] if "rule" in l or "ANALYSIS" in l][:4]} for p, v in res["props"].items()}
    json.dump(m, open(os.path.join(d, "meta.json"), "w"), indent=1)
    print(sid, "CONFIRMED" if ok else "NOT CONFIRMED", {p: v["exit"] for p, v in m["checks"].items()}, res.get("suite"), res.get("demo_without"), res.get("demo_with"), flush=True)
