#!/usr/bin/env python3
"""Re-run ./check for every kept seeded change and refresh the `checks` entry of its meta.json (developer tool)."""
import concurrent.futures, glob, json, os, subprocess, sys, shutil

VERIF = os.path.dirname(os.path.dirname(os.path.abspath(__file__)))
sys.path.insert(0, VERIF)
from sa.selftest import make_copy, apply_patch  # noqa: E402


def one(meta):
    m = json.load(open(meta))
    d = make_copy()
    try:
        apply_patch(d, os.path.join(os.path.dirname(meta), "patch.diff"))
        for prop in list(m.get("checks", {m["property"]: 0})) or [m["property"]]:
            p = subprocess.run([os.path.join(VERIF, "check"), prop, "--repo", d, "--no-evidence"], capture_output=True, text=True, env=dict(os.environ, VERIF_JOBS="4"))
            lines = [l.strip() for l in p.stdout.splitlines() if l.strip().startswith("rule ") or "ANALYSIS" in l]
            m.setdefault("checks", {})[prop] = {"exit": p.returncode, "reported": lines[:4]}
    finally:
        shutil.rmtree(d, ignore_errors=True)
    json.dump(m, open(meta, "w"), indent=1)
    return m["id"], {k: v["exit"] for k, v in m["checks"].items()}


only = sys.argv[1:]
metas = [m for m in sorted(glob.glob(os.path.join(VERIF, "seeded", "*", "meta.json"))) if not only or any(o in m for o in only)]
with concurrent.futures.ThreadPoolExecutor(6) as ex:
    for sid, r in ex.map(one, metas):
        print(sid, r)
